#!/bin/bash
# Offline setup: put icontract beside the repository's interpreter (target dir is git-ignored).
HERE="$(cd "$(dirname "${BASH_SOURCE[0]}")" && pwd)"
cd "$HERE" || exit 1
mkdir -p out evidence
if ! PYTHONPATH="$HERE/.deps" /venv/bin/python -c 'import icontract' 2>/dev/null; then
  /venv/bin/pip install --quiet --no-index --find-links /opt/veriftools/wheels --target "$HERE/.deps" icontract || {
    echo "setup: icontract could not be installed; contract-based auxiliary monitors will report 'unavailable'" >&2; }
fi
PYTHONPATH="/repo:$HERE:$HERE/.deps" PYTHONDONTWRITEBYTECODE=1 /venv/bin/python -m stixmon.selftest || exit 1
echo "setup ok"
