"""Per-worker monitoring context: counters, distinct-case sets, samples, violations."""
import hashlib
import json
import random
import traceback

MAX_WITNESSES_PER_KEY = 2
MAX_KEYS = 60
MAX_SAMPLES = 4
MAX_SEEN_VALUES = 4000


def jdefault(o):
    """JSON fallback used for witnesses/samples: never fails."""
    try:
        import datetime
        if isinstance(o, (datetime.datetime, datetime.date)):
            return "<%s %s>" % (type(o).__name__, o.isoformat())
    except Exception:
        pass
    if isinstance(o, (set, frozenset)):
        try:
            return sorted(o)
        except Exception:
            return [jdefault(x) for x in o]
    if isinstance(o, tuple):
        return list(o)
    if isinstance(o, bytes):
        return "<bytes %s>" % o[:64].hex()
    try:
        from collections.abc import Mapping
        if isinstance(o, Mapping):
            return {str(k): o[k] for k in o}
    except Exception:
        pass
    r = repr(o)
    return r if len(r) < 400 else r[:400] + "..."


def jdump(o, **kw):
    return json.dumps(o, default=jdefault, ensure_ascii=True, **kw)


def clip(o, limit=4000):
    """JSON-able copy of o, truncated so witnesses stay readable."""
    try:
        s = jdump(o)
    except Exception:
        s = json.dumps(repr(o))
    if len(s) <= limit:
        return json.loads(s)
    return {"truncated_json": s[:limit] + "...", "full_length": len(s)}


def fp(*parts):
    h = hashlib.blake2b(digest_size=8)
    for p in parts:
        h.update(jdump(p, sort_keys=True).encode("utf-8", "surrogatepass"))
        h.update(b"\x00")
    return h.hexdigest()


class Ctx:
    def __init__(self, pid, tier, seed, shard=0, nshards=1, replay=False):
        self.pid = pid
        self.tier = tier
        self.seed = seed
        self.shard = shard
        self.nshards = nshards
        self.replay = replay
        self.counters = {}
        self.seen = {}          # group -> set(str)
        self.distinct = set()   # fingerprints of distinct non-trivial cases
        self.samples = []
        self.violations = {}    # key -> list of witnesses
        self.violation_counts = {}
        self.harness_errors = []
        self.skips = {}
        self.cur = None         # (workload, index) of the case being run
        self.state = {}

    # ---- randomness -------------------------------------------------------------
    def case_rng(self, workload, i):
        return random.Random("%s:%s:%s:%d" % (self.pid, self.seed, workload, i))

    # ---- bookkeeping ------------------------------------------------------------
    def count(self, name, n=1):
        self.counters[name] = self.counters.get(name, 0) + n

    def ev(self, n=1):
        self.count("evaluations", n)

    def see(self, group, value):
        s = self.seen.setdefault(group, set())
        if len(s) < MAX_SEEN_VALUES:
            s.add(value if isinstance(value, str) else jdump(value, sort_keys=True))

    def nontrivial(self, *parts):
        self.distinct.add(fp(*parts))

    def skip(self, reason, n=1):
        self.skips[reason] = self.skips.get(reason, 0) + n

    def sample(self, case, force=False):
        if len(self.samples) < MAX_SAMPLES or force:
            c = dict(case) if isinstance(case, dict) else {"case": case}
            if self.cur:
                c.setdefault("_workload", self.cur[0])
                c.setdefault("_index", self.cur[1])
            self.samples.append(clip(c, 3000))
            if len(self.samples) > MAX_SAMPLES + 4:
                self.samples.pop(MAX_SAMPLES)

    def want_sample(self):
        return len(self.samples) < MAX_SAMPLES

    # ---- verdicts ---------------------------------------------------------------
    def violation(self, key, message, witness=None):
        """Record a property violation.  `key` is the *mechanism key* computed by the
        check's classifier; it is what known_findings.json is matched against."""
        self.violation_counts[key] = self.violation_counts.get(key, 0) + 1
        lst = self.violations.get(key)
        if lst is None:
            if len(self.violations) >= MAX_KEYS:
                return
            lst = self.violations[key] = []
        if len(lst) < MAX_WITNESSES_PER_KEY:
            lst.append({
                "key": key,
                "message": message,
                "workload": self.cur[0] if self.cur else None,
                "index": self.cur[1] if self.cur else None,
                "witness": clip(witness, 6000),
            })

    def harness_error(self, where, exc=None):
        if len(self.harness_errors) < 10:
            self.harness_errors.append({
                "where": where,
                "case": list(self.cur) if self.cur else None,
                "traceback": traceback.format_exc() if exc is not None else None,
            })
        self.count("harness_errors")

    def dump(self):
        return {
            "pid": self.pid, "tier": self.tier, "seed": self.seed,
            "shard": self.shard, "nshards": self.nshards,
            "counters": self.counters,
            "seen": {g: sorted(v) for g, v in self.seen.items()},
            "distinct": sorted(self.distinct),
            "samples": self.samples,
            "violations": self.violations,
            "violation_counts": self.violation_counts,
            "harness_errors": self.harness_errors,
            "skips": self.skips,
        }


class Workload:
    """A named family of cases.  fn(ctx, rng, i) runs case number i.

    quick / thorough: number of cases (int or zero-argument callable); quick cases are a
    prefix of thorough cases, and a case is a pure function of (property, seed, name, i),
    so any case can be replayed from those four values alone."""

    def __init__(self, name, fn, quick, thorough, exhaustive=False, once_per_worker=None):
        self.name = name
        self.fn = fn
        self.quick = quick
        self.thorough = thorough
        self.exhaustive = exhaustive

    def size(self, tier):
        n = self.quick if tier == "quick" else self.thorough
        return n() if callable(n) else n
