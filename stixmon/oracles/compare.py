"""Model-guided comparison of an input JSON object with the library's output JSON.

preserved(version, inp, out) -> list of (key, path, message): every input property must be in
the output with the same value (timestamps as the same instant at microsecond resolution,
numbers numerically); extra output keys may only be optional properties at their
specification default.
"""
from ..spec import model as M
from . import ts as tsor
from .validator import guess_version


def generic_equal(a, b):
    if isinstance(a, bool) or isinstance(b, bool):
        return a is b
    if isinstance(a, (int, float)) and isinstance(b, (int, float)):
        return a == b
    if type(a) is not type(b):
        return False
    if isinstance(a, dict):
        return a.keys() == b.keys() and all(generic_equal(a[k], b[k]) for k in a)
    if isinstance(a, list):
        return len(a) == len(b) and all(generic_equal(x, y) for x, y in zip(a, b))
    return a == b


class Cmp:
    def __init__(self, version, allow_default_extras=True):
        self.version = version
        self.m = M.model(version)
        self.diffs = []
        self.allow_default_extras = allow_default_extras

    def add(self, key, path, msg):
        self.diffs.append((key, ".".join(path), msg))

    def kind(self, kind, a, b, path):
        if kind is None:
            if not generic_equal(a, b):
                self.add("value-changed:unmodelled", path, "%r became %r" % (a, b))
            return
        k = kind["k"]
        if k == "ts":
            ia = tsor.text_us(a) if isinstance(a, str) else None
            ib = tsor.text_us(b) if isinstance(b, str) else None
            if ib is None:
                self.add("value-changed:timestamp-not-canonical", path, "%r written as %r" % (a, b))
            elif ia != ib:
                self.add("value-changed:timestamp-instant", path, "%r became %r" % (a, b))
        elif k in ("int", "float"):
            if isinstance(b, bool) or not isinstance(b, (int, float)) or a != b:
                self.add("value-changed:number", path, "%r became %r" % (a, b))
        elif k == "list":
            if not isinstance(b, list) or len(a) != len(b):
                self.add("value-changed:list-length", path, "%r became %r" % (a, b))
            else:
                for i, (x, y) in enumerate(zip(a, b)):
                    self.kind(kind["of"], x, y, path + ("[%d]" % i,))
        elif k == "embedded":
            if not isinstance(b, dict):
                self.add("value-changed:embedded", path, "%r became %r" % (a, b))
            else:
                self.table(self.m.embedded[kind["type"]], a, b, path)
        elif k == "extensions":
            if not isinstance(b, dict):
                return self.add("value-changed:extensions", path, "%r became %r" % (a, b))
            for key, ext in a.items():
                if key not in b:
                    self.add("property-lost", path + (key,), "extension %r lost" % key)
                elif key in self.m.extensions and isinstance(ext, dict) and isinstance(b[key], dict):
                    self.table(self.m.extensions[key], ext, b[key], path + (key,))
                elif not generic_equal(ext, b[key]):
                    # an extension type the model does not know (registered by the harness): the output may add properties at
                    # their default values (false / 0), as for every other object, but keeps what was given
                    if isinstance(ext, dict) and isinstance(b[key], dict) and all(kk in b[key] and generic_equal(vv, b[key][kk]) for kk, vv in ext.items()) \
                            and all(b[key][kk] in (False, 0) and not isinstance(b[key][kk], float) for kk in b[key] if kk not in ext):
                        continue
                    self.add("value-changed:extension", path + (key,), "%r became %r" % (ext, b[key]))
            for key in b:
                if key not in a:
                    self.add("property-added", path + (key,), "extension %r appeared" % key)
        elif k == "observables":
            if not isinstance(b, dict) or a.keys() != b.keys():
                return self.add("value-changed:observables", path, "container keys changed")
            for key, o in a.items():
                tbl = self.m.types.get(o.get("type"))
                if tbl and isinstance(b[key], dict):
                    self.table(tbl, o, b[key], path + (key,))
                elif not generic_equal(o, b[key]):
                    self.add("value-changed:observable", path + (key,), "changed")
        elif k == "stixobject":
            if not isinstance(b, dict):
                return self.add("value-changed:member", path, "member became %r" % (b,))
            ver = guess_version(a) if self.version == "2.1" else "2.0"
            sub = Cmp(ver, self.allow_default_extras)
            tbl = sub.m.types.get(a.get("type"))
            if tbl is None:
                # a type the frozen model does not know (custom): every input key must survive unchanged; the only
                # additions tolerated are boolean properties at false (revoked / defanged style defaults)
                for k, v in a.items():
                    if k not in b or not generic_equal(v, b[k]):
                        self.add("value-changed:member", path + (k,), "custom member property changed")
                for k in b:
                    if k not in a and not (self.allow_default_extras and b[k] is False):
                        self.add("property-added", path + (k,), "custom member gained %r" % k)
            else:
                sub.table(tbl, a, b, path)
                self.diffs.extend(sub.diffs)
        elif k == "marking-object":
            if not generic_equal(a, b):
                self.add("value-changed:definition", path, "%r became %r" % (a, b))
        else:
            if type(a) is not type(b) or a != b:
                self.add("value-changed:%s" % k, path, "%r became %r" % (a, b))

    def table(self, tbl, inp, out, path):
        by = tbl["by_name"]
        for n, v in inp.items():
            if n not in out:
                self.add("property-lost", path + (n,), "input property %r missing from output" % n)
                continue
            self.kind(by.get(n), v, out[n], path + (n,))
        for n in out:
            if n in inp:
                continue
            p = by.get(n)
            ok = False
            if self.allow_default_extras and p is not None:
                if "default" in p and p["default"] != "NOW" and generic_equal(out[n], p["default"]):
                    ok = True
                if n == "spec_version" and out[n] == self.version:
                    ok = True
                if n == "pattern_version" and out[n] == self.version and inp.get("pattern_type") == "stix":
                    ok = True
            if not ok:
                self.add("property-added", path + (n,), "output has %r=%r which the input did not" % (n, out[n]))


def preserved(inp, out, version=None):
    version = version or guess_version(inp)
    c = Cmp(version)
    tbl = c.m.types.get(inp.get("type"))
    if tbl is None:
        if not generic_equal(inp, out):
            return [("value-changed:unregistered", "", "object changed")]
        return []
    if not isinstance(out, dict):
        return [("value-changed:not-an-object", "", "output is %r" % (out,))]
    c.table(tbl, inp, out, ())
    return c.diffs
