"""List model of a STIX object store and a naive filter evaluator (documented operator semantics)."""
import datetime as dt

from . import ts as tsor


def version_instant(j):
    """Instant (exact, comparable) of a stored JSON object's version, or None for unversioned objects."""
    m = j.get("modified")
    if m is None:
        return None
    return tsor.text_instant(m)


class ListModel:
    def __init__(self):
        self.items = []      # JSON objects in insertion order

    def add(self, j):
        key = (j["id"], version_instant(j))
        for x in self.items:
            if (x["id"], version_instant(x)) == key:
                return False     # same (id, version) already there: identical re-add is a no-op in the model
        self.items.append(j)
        return True

    def ids(self):
        return list(dict.fromkeys(x["id"] for x in self.items))

    def versions(self, sid):
        return [x for x in self.items if x["id"] == sid]

    def latest(self, sid):
        vs = self.versions(sid)
        if not vs:
            return None
        if version_instant(vs[0]) is None:
            return vs[-1]
        return max(vs, key=lambda x: version_instant(x))


# ---------------------------------------------------------------------------------- filters

class Unjudged(Exception):
    """The documented semantics do not settle this (filter, value) combination."""


def _ts(v):
    if isinstance(v, str):
        return tsor.text_instant(v)
    if isinstance(v, (dt.datetime, dt.date)):
        us = tsor.datetime_us(v)
        return (us // 1000000, (us % 1000000) * 10 ** 18)
    return None


def cmp_values(op, prop_value, filter_value, is_timestamp):
    """prop_value is a JSON scalar from the stored object; filter_value the filter's Python value."""
    if op == "in" and isinstance(filter_value, str):
        # a string instead of a list: Python's `in`, i.e. a substring test (the library's own tests rely on it)
        if is_timestamp or not isinstance(prop_value, str):
            raise Unjudged("'in' with a string value on a non-string property")
        return prop_value in filter_value
    if is_timestamp:
        a, b = _ts(prop_value), (None if isinstance(filter_value, (list, tuple)) else _ts(filter_value))
        if op == "in":
            bs = [_ts(x) for x in filter_value]
            if a is None or any(x is None and not isinstance(y, str) for x, y in zip(bs, filter_value)):
                raise Unjudged("non-timestamp in timestamp comparison")
            # (a listed string which is no timestamp is equal to no instant)
            return a in [x for x in bs if x is not None]
        if a is None or b is None:
            raise Unjudged("non-timestamp in timestamp comparison")
        prop_value, filter_value = a, b
    else:
        if op in ("<", "<=", ">", ">="):
            num = lambda x: isinstance(x, (int, float)) and not isinstance(x, bool)   # noqa: E731
            if not ((num(prop_value) and num(filter_value)) or (isinstance(prop_value, str) and isinstance(filter_value, str))):
                raise Unjudged("order comparison between different kinds")
        if isinstance(prop_value, bool) != isinstance(filter_value, bool) and op in ("=", "!=") and not isinstance(filter_value, (list, tuple)):
            if isinstance(prop_value, (int, float)) and isinstance(filter_value, (int, float)):
                raise Unjudged("bool vs number equality")
    if op == "=":
        return prop_value == filter_value
    if op == "!=":
        return prop_value != filter_value
    if op == "in":
        return prop_value in list(filter_value)
    if op == "<":
        return prop_value < filter_value
    if op == "<=":
        return prop_value <= filter_value
    if op == ">":
        return prop_value > filter_value
    if op == ">=":
        return prop_value >= filter_value
    raise Unjudged("operator %s" % op)


def match(flt, j, ts_props=()):
    """Does JSON object j satisfy filter (property, op, value)?  Lists mean 'any element'."""
    prop, op, value = flt
    return _match_path(prop.split("."), op, value, j, prop.split(".")[-1] in ts_props or prop in ts_props)


def _match_path(parts, op, value, cur, is_ts):
    if not isinstance(cur, dict) or parts[0] not in cur:
        return False
    v = cur[parts[0]]
    if len(parts) > 1:
        if isinstance(v, list):
            return any(_match_path(parts[1:], op, value, e, is_ts) for e in v)
        return _match_path(parts[1:], op, value, v, is_ts)
    if op == "contains":
        if isinstance(v, list):
            # documented for list-valued properties: value is one of the elements
            if isinstance(value, dict):
                raise Unjudged("contains with a dictionary value")
            if is_ts:
                return any(_ts(e) == _ts(value) for e in v)
            member = any((e == value) for e in v)
            # the implementation applies the operator element-wise (substring test on string elements); the documentation
            # does not settle which reading is meant, so only cases where both readings agree are judged
            elementwise = any((isinstance(e, str) and isinstance(value, str) and value in e) or (not isinstance(e, str) and e == value) for e in v)
            if member != elementwise:
                raise Unjudged("contains: membership and element-wise readings differ")
            return member
        raise Unjudged("contains on a non-list property")
    if isinstance(v, list):
        if op == "!=":
            raise Unjudged("!= on a list-valued property")
        return any(cmp_values(op, e, value, is_ts) for e in v)
    if isinstance(v, dict):
        raise Unjudged("comparison with an object-valued property")
    return cmp_values(op, v, value, is_ts)


def evaluate(filters, items, ts_props=()):
    out = []
    for j in items:
        if all(match(f, j, ts_props) for f in filters):
            out.append(j)
    return out
