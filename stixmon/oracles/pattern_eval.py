"""Independent evaluator of STIX patterning semantics over a bounded universe of observation sequences.

An *observation* is (timestamp in microseconds, object type, {path key: value}).  A pattern is evaluated over a *pool* of
observations to the set of its minimal *bindings* (frozensets of pool indices): the pattern matches a subset S of the pool
iff some binding is contained in S.  Two patterns match exactly the same members of the universe (= all subsets of the
pool) iff their minimal-binding sets are equal.

Semantics (DESIGN C09): all comparisons of one observation expression bind to the same object; AND / FOLLOWEDBY / REPEATS
bind pairwise-distinct observations; FOLLOWEDBY orders by timestamp; WITHIN bounds the span of the bound observations;
START/STOP bounds their timestamps.  Pools never place a timestamp or a span exactly on a qualifier boundary.
"""
import base64
import ipaddress
import itertools
import re

from . import ts as tsor


class TooBig(Exception):
    pass


MAX_BINDINGS = 4000


def path_key(path):
    return (path[0], tuple(path[1]))


# ------------------------------------------------------------------------------------------- atoms

def kind_of(v):
    if isinstance(v, bool):
        return "bool"
    if isinstance(v, (int, float)):
        return "num"
    if isinstance(v, str):
        return "str"
    if isinstance(v, tuple):
        return v[0]          # ("hex", bytes) ("bin", bytes) ("ts", us)
    return "?"


def const_value(c):
    k = c[0]
    if k in ("int", "float"):
        return c[1]
    if k == "bool":
        return bool(c[1])
    if k == "str":
        return c[1]
    if k == "hex":
        return ("hex", bytes.fromhex(c[1]))
    if k == "bin":
        return ("bin", base64.b64decode(c[1]))
    if k == "ts":
        return ("ts", c[1])
    raise KeyError(k)


def v_eq(a, b):
    ka, kb = kind_of(a), kind_of(b)
    if ka != kb:
        return False
    if ka == "num":
        return a == b          # Python compares int and float exactly (no rounding of big integers through float())
    return a == b


def v_lt(a, b):
    ka, kb = kind_of(a), kind_of(b)
    if ka != kb or ka == "bool":
        return None
    if ka in ("hex", "bin", "ts"):
        return a[1] < b[1]
    return a < b


def like_to_regex(p):
    out = []
    for ch in p:
        if ch == "%":
            out.append(".*")
        elif ch == "_":
            out.append(".")
        else:
            out.append(re.escape(ch))
    return "\\A" + "".join(out) + "\\Z"


def net(s):
    try:
        return ipaddress.ip_network(s, strict=False)
    except ValueError:
        return None


def atom_true(op, negated, const, v):
    """truth of (value v) op const, with NOT applied"""
    if op in ("!=", "<>"):
        op, negated = "=", not negated
    if op == "=":
        r = v_eq(v, const_value(const))
    elif op in ("<", ">", "<=", ">="):
        c = const_value(const)
        lt, gt = v_lt(v, c), v_lt(c, v)
        if lt is None:
            r = False
        elif op == "<":
            r = lt
        elif op == ">":
            r = gt
        elif op == "<=":
            r = lt or v_eq(v, c)
        else:
            r = gt or v_eq(v, c)
    elif op == "IN":
        r = any(v_eq(v, const_value(x)) for x in const[1])
    elif op == "LIKE":
        r = isinstance(v, str) and re.match(like_to_regex(const[1]), v, re.S) is not None
    elif op == "MATCHES":
        try:
            r = isinstance(v, str) and re.search(const[1], v) is not None
        except re.error:
            r = False
    elif op in ("ISSUBSET", "ISSUPERSET"):
        a, b = (net(v) if isinstance(v, str) else None), net(const[1])
        if a is None or b is None or a.version != b.version:
            r = False
        elif op == "ISSUBSET":
            r = a.subnet_of(b)
        else:
            r = b.subnet_of(a)
    else:
        raise KeyError(op)
    return (not r) if negated else r


def eval_bool(e, obj_type, values):
    k = e[0]
    if k == "cmp":
        _, path, op, neg, c = e
        if path[0] != obj_type:
            return False
        return atom_true(op, neg, c, values[path_key(path)])
    if k == "exists":
        return e[1][0] == obj_type and path_key(e[1]) in values
    if k == "and":
        return all(eval_bool(x, obj_type, values) for x in e[1])
    if k == "or":
        return any(eval_bool(x, obj_type, values) for x in e[1])
    raise KeyError(k)


# ------------------------------------------------------------------------------------------- observation level

def minimal(bs):
    bs = sorted(set(bs), key=len)
    out = []
    for b in bs:
        if not any(m <= b for m in out):
            out.append(b)
    return set(out)


def match(e, pool):
    """minimal bindings of expression e over the pool"""
    k = e[0]
    if k == "obs":
        return {frozenset([i]) for i, (t, ot, vals) in enumerate(pool) if eval_bool(e[1], ot, vals)}
    if k == "oor":
        out = set()
        for x in e[1]:
            out |= match(x, pool)
        return minimal(out)
    if k in ("oand", "ofb"):
        acc = None
        for x in e[1]:
            m = match(x, pool)
            if acc is None:
                acc = m
                continue
            nxt = set()
            for a in acc:
                for b in m:
                    if a & b:
                        continue
                    if k == "ofb" and not max(pool[i][0] for i in a) < min(pool[i][0] for i in b):
                        continue
                    nxt.add(a | b)
                    if len(nxt) > MAX_BINDINGS:
                        raise TooBig()
            acc = minimal(nxt)
        return acc
    if k == "qual":
        inner = match(e[1], pool)
        q = e[2]
        if q[0] == "repeats":
            n = q[1]
            if n == 1:
                return inner
            out = set()
            lst = sorted(inner, key=sorted)
            if len(lst) ** min(n, 3) > 200000:
                raise TooBig()
            for combo in itertools.combinations(lst, n):
                u = frozenset().union(*combo)
                if len(u) == sum(len(c) for c in combo):
                    out.add(u)
                    if len(out) > MAX_BINDINGS:
                        raise TooBig()
            return minimal(out)
        if q[0] == "within":
            span = q[1] * 10 ** 6
            # non-minimal supersets cannot pass where a subset fails, but a larger binding may fail while its subset passes:
            # filtering minimal bindings is exact because the filter is monotone under taking subsets
            return {b for b in inner if max(pool[i][0] for i in b) - min(pool[i][0] for i in b) <= span}
        if q[0] == "startstop":
            return {b for b in inner if all(q[1] <= pool[i][0] < q[2] for i in b)}
    raise KeyError(k)


# ------------------------------------------------------------------------------------------- pools

def atoms_of(e, acc):
    k = e[0]
    if k == "cmp":
        acc.append(e)
    elif k == "exists":
        acc.append(e)
    elif k in ("and", "or", "oand", "oor", "ofb"):
        for x in e[1]:
            atoms_of(x, acc)
    elif k in ("obs", "qual"):
        atoms_of(e[1], acc)


def quals_of(e, acc):
    k = e[0]
    if k == "qual":
        acc.append(e[2])
        quals_of(e[1], acc)
    elif k in ("oand", "oor", "ofb"):
        for x in e[1]:
            quals_of(x, acc)


def neighbours(v):
    k = kind_of(v)
    if k == "num":
        out = [v, v + 1, v - 1]
        if isinstance(v, int) and abs(v) < 2 ** 52:
            out.append(v + 0.5)
        elif isinstance(v, float):
            out += [v + 0.5, v * 2 + 1]
        return out
    if k == "bool":
        return [True, False]
    if k == "str":
        return [v, v + "x", "", "zz"]
    if k == "ts":
        return [v, ("ts", v[1] + 10 ** 6), ("ts", v[1] - 1)]
    if k in ("hex", "bin"):
        return [v, (k, v[1] + b"\x01"), (k, b"\x00")]
    return [v]


def candidates(atoms):
    """per path key: values that make the atoms on it both true and false"""
    per = {}
    for a in atoms:
        if a[0] != "cmp":
            continue
        key = path_key(a[1])
        vals = per.setdefault(key, [])
        op, c = a[2], a[4]
        consts = list(c[1]) if c[0] == "set" else [c]
        for x in consts:
            if op in ("LIKE",):
                vals += [x[1].replace("%", "abc").replace("_", "q"), x[1].replace("%", "").replace("_", "z"), "nomatch"]
            elif op == "MATCHES":
                vals += ["foo123", "123", "it's a test", "", "foo.exe"]
            elif op in ("ISSUBSET", "ISSUPERSET"):
                vals += [x[1], x[1].split("/")[0], "203.0.113.7", "198.51.100.77", "10.1.2.3/16", "2001:db8::1", "0.0.0.0/0"]
            else:
                vals += neighbours(const_value(x))
    out = {}
    for key, vals in per.items():
        uniq = []
        for v in vals:
            if not any(kind_of(u) == kind_of(v) and u == v for u in uniq):
                uniq.append(v)
        out[key] = uniq
    return out


OFFSETS = [0, 310000, 870000, 3730000, 11290000, 47110000, 211730000, 1009370000]


def make_pool(rng, patterns, size=7):
    atoms, quals = [], []
    for p in patterns:
        atoms_of(p, atoms)
        quals_of(p, quals)
    cands = candidates(atoms)
    types = sorted({k[0] for k in cands})
    if not types:
        return None
    base = tsor.text_us("2020-01-01T00:00:00Z")
    for q in quals:
        if q[0] == "startstop":
            base = q[1]
    base -= rng.choice([0, 200000, 5000000, 400000000])
    offs = sorted(rng.sample(OFFSETS, min(size, len(OFFSETS))))
    pool = []
    for off in offs:
        t = rng.choice(types)
        vals = {key: rng.choice(vs) for key, vs in cands.items() if key[0] == t}
        # every path key of the type gets a value, so negation is plain boolean
        pool.append((base + off + 137, t, vals))
    # make sure each atom is true on at least one observation and false on another where possible
    for a in atoms[:12]:
        if a[0] != "cmp":
            continue
        key = path_key(a[1])
        for want in (True, False):
            if any(o[1] == key[0] and atom_true(a[2], a[3], a[4], o[2][key]) is want for o in pool):
                continue
            for v in cands[key]:
                if atom_true(a[2], a[3], a[4], v) is want:
                    idx = rng.randrange(len(pool))
                    t0, ot, vals = pool[idx]
                    if ot == key[0]:
                        vals = dict(vals)
                        vals[key] = v
                        pool[idx] = (t0, ot, vals)
                    else:
                        vals = {k2: rng.choice(vs) for k2, vs in cands.items() if k2[0] == key[0]}
                        vals[key] = v
                        pool[idx] = (t0, key[0], vals)
                    break
    # never exactly on a qualifier boundary
    for q in quals:
        if q[0] == "within":
            span = int(q[1] * 10 ** 6)
            ts_ = [o[0] for o in pool]
            if any(abs(a - b) == span for a in ts_ for b in ts_):
                return None
        elif q[0] == "startstop":
            if any(o[0] in (q[1], q[2]) for o in pool):
                return None
    return pool


def describe_pool(pool):
    out = []
    for t, ot, vals in pool:
        out.append({"timestamp": tsor.format_us(t, "any"), "type": ot,
                    "values": {"%s:%s" % (k[0], ".".join(str(s[1]) for s in k[1])): (repr(v) if isinstance(v, tuple) else v) for k, v in vals.items()}})
    return out


def separate(p, q, pool):
    """None if p and q match the same subsets of the pool, else a witness subset (sorted indices) matched by exactly one"""
    mp, mq = match(p, pool), match(q, pool)
    if mp == mq:
        return None
    for b in sorted(mp ^ mq, key=lambda b: (len(b), sorted(b))):
        in_p = any(x <= b for x in mp)
        in_q = any(x <= b for x in mq)
        if in_p != in_q:
            return {"subset": sorted(b), "matched_by_first": in_p, "matched_by_second": in_q}
    return {"subset": sorted(next(iter(mp ^ mq))), "matched_by_first": None, "matched_by_second": None}
