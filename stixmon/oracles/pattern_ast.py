"""Own STIX-pattern syntax tree: generator, printer, reader (from stix2patterns' ANTLR parse tree, by an
own walker that shares nothing with stix2/pattern_visitor.py) and normaliser.

AST (plain tuples, JSON friendly after list conversion):
  comparison   ("cmp", path, op, negated, const)      op in = < > <= >= IN LIKE MATCHES ISSUBSET ISSUPERSET
               ("exists", path, negated_always_False)
  boolean      ("and", [e...]) / ("or", [e...])       comparison level
  observation  ("obs", comparison-level expr)
  compound     ("oand", [o...]) / ("oor", [o...]) / ("ofb", [o...])
  qualified    ("qual", o, ("repeats", n) | ("within", seconds) | ("startstop", t1_instant, t2_instant))
  path         (object_type, (("k", name) | ("i", index|"*"), ...))
  const        ("str", s) ("int", n) ("float", x) ("bool", b) ("hex", lowercase hex) ("bin", base64 text) ("ts", instant) ("set", (const...))
"""
from . import ts as tsor

CMP_OPS = ["=", "!=", "<", ">", "<=", ">=", "IN", "LIKE", "MATCHES", "ISSUBSET", "ISSUPERSET"]

# ----------------------------------------------------------------------------------------------- printer


def esc(s):
    return s.replace("\\", "\\\\").replace("'", "\\'")


def const_text(c, rng=None):
    k = c[0]
    if k == "str":
        return "'%s'" % esc(c[1])
    if k == "int":
        return str(c[1])
    if k == "float":
        return c[2] if len(c) > 2 else _float_text(c[1])
    if k == "bool":
        return "true" if c[1] else "false"
    if k == "hex":
        return "h'%s'" % c[1]
    if k == "bin":
        return "b'%s'" % c[1]
    if k == "ts":
        return "t'%s'" % (c[2] if len(c) > 2 else tsor.format_us(c[1], "any"))
    if k == "set":
        sep = ", " if rng is None or rng.random() < 0.7 else ","
        return "(" + sep.join(const_text(x, rng) for x in c[1]) + ")"
    raise KeyError(k)


def _float_text(x):
    s = "%.10f" % x
    s = s.rstrip("0")
    if s.endswith("."):
        s += "0"
    return s


PATTERN_WORDS = {"AND", "OR", "NOT", "FOLLOWEDBY", "LIKE", "MATCHES", "ISSUPERSET", "ISSUBSET", "EXISTS", "LAST", "IN", "START", "STOP", "SECONDS", "WITHIN",
                 "REPEATS", "TIMES", "true", "false"}


def needs_quote(name):
    import re
    return not re.match(r"\A[a-zA-Z_][a-zA-Z0-9_]*\Z", name) or name in PATTERN_WORDS


def path_text(p):
    t, steps = p
    out = []
    for i, s in enumerate(steps):
        if s[0] == "k":
            name = "'%s'" % esc(s[1]) if needs_quote(s[1]) else s[1]
            out.append(("" if i == 0 else ".") + name)
        else:
            out.append("[%s]" % s[1])
    return "%s:%s" % (t, "".join(out))


PREC = {"or": 1, "and": 2, "cmp": 3, "exists": 3, "ofb": 1, "oor": 2, "oand": 3, "obs": 4, "qual": 4}
OPTEXT = {"or": "OR", "and": "AND", "ofb": "FOLLOWEDBY", "oor": "OR", "oand": "AND"}


def to_text(e, rng=None, parent_prec=0):
    """Print with the parentheses precedence requires (and, with rng, some redundant ones and odd whitespace).
    parent_prec: minimum precedence the context needs; lower-precedence expressions are parenthesised."""
    k = e[0]

    def sp():
        return " " if rng is None or rng.random() < 0.85 else rng.choice(["  ", "\t", "\n", " \n "])
    if k == "cmp":
        _, path, op, neg, c = e
        optxt = op
        if rng is not None and op == "!=" and rng.random() < 0.3:
            optxt = "<>"
        s = path_text(path) + sp() + ("NOT" + sp() if neg else "") + optxt + sp() + const_text(c, rng)
    elif k == "exists":
        s = "EXISTS" + sp() + path_text(e[1])
    elif k in ("and", "or", "oand", "oor", "ofb"):
        s = (sp() + OPTEXT[k] + sp()).join(to_text(x, rng, PREC[k]) for x in e[1])
    elif k == "obs":
        s = "[" + ("" if rng is None or rng.random() < 0.8 else " ") + to_text(e[1], rng, 0) + "]"
    elif k == "qual":
        q = e[2]
        inner = to_text(e[1], rng, 4)
        if q[0] == "repeats":
            qs = "REPEATS" + sp() + str(q[1]) + sp() + "TIMES"
        elif q[0] == "within":
            qs = "WITHIN" + sp() + (q[2] if len(q) > 2 else str(q[1])) + sp() + "SECONDS"
        else:
            qs = "START" + sp() + "t'%s'" % tsor.format_us(q[1], "any") + sp() + "STOP" + sp() + "t'%s'" % tsor.format_us(q[2], "any")
        s = inner + sp() + qs
    else:
        raise KeyError(k)
    if PREC[k] < parent_prec or (rng is not None and k != "obs" and rng.random() < 0.06):
        return "(" + s + ")"
    return s


# ----------------------------------------------------------------------------------------------- normaliser

def norm_const(c):
    k = c[0]
    if k == "float":
        return ("float", float(c[1]))
    if k == "ts":
        return ("ts", c[1])
    if k == "set":
        return ("set", tuple(norm_const(x) for x in c[1]))
    if k == "hex":
        return ("hex", c[1].lower())
    return (k, c[1])


def normalize(e):
    """Parentheses are already erased by construction; flatten associative chains, unify != / NOT =, constants by value."""
    k = e[0]
    if k == "cmp":
        _, path, op, neg, c = e
        if op in ("!=", "<>"):
            op, neg = "=", not neg
        return ("cmp", (path[0], tuple(tuple(s) for s in path[1])), op, bool(neg), norm_const(c))
    if k == "exists":
        return ("exists", (e[1][0], tuple(tuple(s) for s in e[1][1])))
    if k in ("and", "or", "oand", "oor", "ofb"):
        out = []
        for x in e[1]:
            n = normalize(x)
            if n[0] == k:
                out.extend(n[1])
            else:
                out.append(n)
        return (k, tuple(out)) if len(out) > 1 else out[0]
    if k == "obs":
        return ("obs", normalize(e[1]))
    if k == "qual":
        q = e[2]
        if q[0] == "within":
            q = ("within", float(q[1]))
        else:
            q = tuple(q[:3]) if q[0] == "startstop" else (q[0], q[1])
        return ("qual", normalize(e[1]), q)
    raise KeyError(k)


# ----------------------------------------------------------------------------------------------- reader

def unescape(text):
    body = text[1:-1]
    out, i = [], 0
    while i < len(body):
        ch = body[i]
        if ch == "\\" and i + 1 < len(body):
            out.append(body[i + 1])
            i += 2
        else:
            out.append(ch)
            i += 1
    return "".join(out)


class Reader:
    def __init__(self, version="2.1"):
        if version == "2.1":
            from stix2patterns.v21.pattern import Pattern
        else:
            from stix2patterns.v20.pattern import Pattern
        self.Pattern = Pattern
        self.names = None

    def read(self, text):
        reader = self

        class _V:
            def visit(self, tree):
                reader.names = tree.parser.symbolicNames
                return reader.node(tree)
        return self.Pattern(text).visit(_V())

    # helpers over the ANTLR tree
    def kids(self, ctx):
        return list(ctx.getChildren())

    def is_term(self, n):
        return hasattr(n, "symbol")

    def tname(self, n):
        return self.names[n.symbol.type]

    def rule(self, ctx):
        return type(ctx).__name__.replace("Context", "")

    def node(self, ctx):
        r = self.rule(ctx)
        ks = self.kids(ctx)
        if r == "Pattern":
            return self.node(ks[0])
        if r in ("ObservationExpressions", "ObservationExpressionOr", "ObservationExpressionAnd"):
            if len(ks) == 1:
                return self.node(ks[0])
            op = {"ObservationExpressions": "ofb", "ObservationExpressionOr": "oor", "ObservationExpressionAnd": "oand"}[r]
            return (op, [self.node(ks[0]), self.node(ks[2])])
        if r == "ObservationExpressionSimple":
            return ("obs", self.node(ks[1]))
        if r == "ObservationExpressionCompound":
            return self.node(ks[1])
        if r in ("ObservationExpressionRepeated", "ObservationExpressionWithin", "ObservationExpressionStartStop"):
            return ("qual", self.node(ks[0]), self.node(ks[1]))
        if r == "RepeatedQualifier":
            return ("repeats", int(ks[1].getText()))
        if r == "WithinQualifier":
            return ("within", float(ks[1].getText()), ks[1].getText())
        if r == "StartStopQualifier":
            return ("startstop", self.ts_of(ks[1].getText()), self.ts_of(ks[3].getText()))
        if r in ("ComparisonExpression", "ComparisonExpressionAnd"):
            if len(ks) == 1:
                return self.node(ks[0])
            return ("or" if r == "ComparisonExpression" else "and", [self.node(ks[0]), self.node(ks[2])])
        if r == "PropTestParen":
            return self.node(ks[1])
        if r == "PropTestExists":
            return ("exists", self.path(ks[1]))
        if r.startswith("PropTest"):
            path = self.path(ks[0])
            neg = self.is_term(ks[1]) and self.tname(ks[1]) == "NOT"
            opn = ks[2 if neg else 1]
            op = opn.getText().upper() if opn.getText().isalpha() else opn.getText()
            lit = ks[3 if neg else 2]
            return ("cmp", path, op, neg, self.const(lit))
        raise KeyError("unknown rule " + r)

    def ts_of(self, text):
        t = text
        if t.startswith("t'"):
            t = t[2:-1]
        elif t.startswith("'"):
            t = t[1:-1]
        inst = tsor.text_us(t)
        if inst is None:
            raise ValueError("timestamp literal %r" % text)
        return inst

    def const(self, n):
        if not self.is_term(n):
            r = self.rule(n)
            ks = self.kids(n)
            if r == "SetLiteral":
                return ("set", tuple(self.const(k) for k in ks if not (self.is_term(k) and k.getText() in ("(", ")", ","))))
            return self.const(ks[0])
        name, text = self.tname(n), n.getText()
        if name in ("IntPosLiteral", "IntNegLiteral"):
            return ("int", int(text))
        if name in ("FloatPosLiteral", "FloatNegLiteral"):
            return ("float", float(text))
        if name == "BoolLiteral":
            return ("bool", text.lower() == "true")
        if name == "HexLiteral":
            return ("hex", text[2:-1].lower())
        if name == "BinaryLiteral":
            return ("bin", text[2:-1])
        if name == "TimestampLiteral":
            return ("ts", self.ts_of(text))
        if name == "StringLiteral":
            return ("str", unescape(text))
        raise KeyError("terminal " + name)

    def path(self, ctx):
        ks = self.kids(ctx)
        otype = ks[0].getText()
        steps = []
        first = self.kids(ks[2])[0]
        steps.append(("k", unescape(first.getText()) if first.getText().startswith("'") else first.getText()))
        if len(ks) > 3:
            self.steps(ks[3], steps)
        return (otype, tuple(steps))

    def steps(self, ctx, acc):
        r = self.rule(ctx)
        ks = self.kids(ctx)
        if r == "PathStep":
            for k in ks:
                self.steps(k, acc)
        elif r == "KeyPathStep":
            t = ks[1].getText()
            acc.append(("k", unescape(t) if t.startswith("'") else t))
        elif r == "IndexPathStep":
            t = ks[1].getText()
            acc.append(("i", t if t == "*" else int(t)))
        else:
            raise KeyError("path rule " + r)


_READERS = {}


def read(text, version="2.1"):
    if version not in _READERS:
        _READERS[version] = Reader(version)
    return _READERS[version].read(text)


# ----------------------------------------------------------------------------------------------- generator

OBJ_TYPES = ["file", "ipv4-addr", "network-traffic", "process", "x-custom", "domain-name", "email-message", "user-account"]
PROPS = ["name", "value", "size", "pid", "dst_port", "src_port", "protocols", "is_hidden", "created", "extensions", "x_prop", "body_multipart",
         "command_line", "subject", "account_login", "mime_type"]
KEYS = ["windows-pebinary-ext", "sections", "entropy", "a b", "it's", "x-y", "body", "n1", "back\\slash",
        "größe", "ключ", "名前", "m²", "sınıf", "*", "0", "1x", "'tis", "'q'", "q'", "IN", "AND", "true", "START", "EXISTS", "NOT",
        "backslash", "back\\\\slash"]      # word characters outside ASCII, and steps that look like indices, must stay quoted
STRS = ["foo", "foo.exe", "198.51.100.1", "it's", "back\\slash", "a%b_c", "^\\d+$", "", " ", "üñí", "\U0001f600", "tab\there", "-", "x' OR 'y", "1", "true",
        "2020-01-01T00:00:00Z"]      # (a string constant which reads as a timestamp is still a string constant)


def gen_path(rng, simple=False):
    t = rng.choice(OBJ_TYPES)
    steps = [("k", rng.choice(PROPS))]
    if not simple:
        for _ in range(rng.choice([0, 0, 1, 1, 2, 3])):
            r = rng.random()
            if r < 0.55:
                steps.append(("k", rng.choice(PROPS + KEYS)))
            elif r < 0.8:
                if steps[-1][0] == "i" and rng.random() < 0.9:
                    # the object model has one index per step: consecutive indices ([0][1]) are valid text it cannot hold
                    # (recorded finding consecutive-index-steps-unmodelled), so they are generated rarely
                    continue
                steps.append(("i", rng.choice([0, 1, 2, 10, "*"])))
            else:
                steps.append(("k", rng.choice(["src_ref", "parent_ref", "body_raw_ref", "creator_user_ref"])))
    return (t, tuple(steps))


def gen_const(rng, kinds=("str", "int", "float", "bool", "hex", "bin", "ts")):
    k = rng.choice(kinds)
    if k == "str":
        return ("str", rng.choice(STRS))
    if k == "int":
        return ("int", rng.choice([0, 1, -1, 5, 10, 80, 443, 65535, 1000, -42, 2 ** 31, 123456789012, 2 ** 53, 2 ** 53 + 1, 2 ** 63, -2 ** 64 - 1,
                                   10 ** 30, 10 ** 400 + 7]))
    if k == "float":
        # (also magnitudes at which Python's repr switches to exponent notation, 1e16 and above / below 1e-4: the pattern grammar has none)
        x = rng.choice([0.5, 1.0, -1.5, 3.25, 100.0, 0.001, 12345.678, -0.25, 2.0, 0.0000001, 123456789.5, 1e16, 1e22, -3e16, 123456789e15, 9007199254740993.0, 1e15,
                        0.00001, 1e100])
        return ("float", x, _float_text(x))
    if k == "bool":
        return ("bool", rng.random() < 0.5)
    if k == "hex":
        return ("hex", rng.choice(["ff", "00ab", "deadbeef", "0a", ""]))          # h'' is in the grammar
    if k == "bin":
        return ("bin", rng.choice(["AQID", "aGVsbG8=", "AA=="]))
    us = tsor.text_us(rng.choice(["2020-01-01T00:00:00Z", "2016-06-01T12:30:45Z", "1999-12-31T23:59:59Z"])) + rng.choice([0, 0, 500000, 123000, 1])
    return ("ts", us)


HASHES = {"MD5": "5a21fd2ba003eeb25d03a33499792e2e", "SHA-256": "aec070645fe53ee3b3763059376134f058cc337247c978add178b6ccdfb0019f",
          "SHA-1": "cac35ec206d868b7d7cb0b55f31d9425b075082b"}


def gen_cmp(rng, exists_ok=True):
    r = rng.random()
    if exists_ok and r < 0.05:
        return ("exists", gen_path(rng))
    if r < 0.12:
        alg = rng.choice(sorted(HASHES))
        return ("cmp", ("file", (("k", "hashes"), ("k", alg))), rng.choice(["=", "!="]), rng.random() < 0.3, ("str", HASHES[alg]))
    op = rng.choice(CMP_OPS)
    neg = rng.random() < 0.3
    path = gen_path(rng)
    if op in ("=", "!="):
        c = gen_const(rng)
    elif op in ("<", ">", "<=", ">="):
        c = gen_const(rng, ("str", "int", "float", "hex", "bin", "ts"))
    elif op == "IN":
        kind = rng.choice(["str", "int", "float", "ts", "hex"])
        c = ("set", tuple(gen_const(rng, (kind,)) for _ in range(rng.choice([1, 2, 3, 4]))))
    elif op in ("LIKE", "MATCHES"):
        c = ("str", rng.choice(["foo%", "%.exe", "a_c", "^foo.*$", "\\d+", "it's%", "%"]))
    else:
        c = ("str", rng.choice(["198.51.100.0/24", "10.0.0.0/8", "2001:db8::/32", "198.51.100.1/32"]))
    return ("cmp", path, op, neg, c)


def gen_bool(rng, depth, same_type=None):
    """comparison-level expression; all atoms of an AND must share an object type for the library to accept it"""
    if depth <= 0 or rng.random() < 0.4:
        c = gen_cmp(rng)
        if same_type:
            c = (c[0], (same_type, c[1][1])) + tuple(c[2:])
        return c
    k = rng.choice(["and", "or"])
    t = same_type or (rng.choice(OBJ_TYPES) if k == "and" or rng.random() < 0.7 else None)
    kids = [gen_bool(rng, depth - 1, t) for _ in range(rng.choice([2, 2, 3]))]
    if k == "and" and t and rng.random() < 0.12:
        # an operand that is a chain of alternatives over several object types, the shared one anywhere in it (also beyond the
        # first two): the AND can still be satisfied with the shared type, so the pattern must be accepted like any other
        others = [x for x in OBJ_TYPES if x != t]
        alts = [gen_bool(rng, 0, rng.choice(others)) for _ in range(rng.choice([2, 2, 3]))]
        alts.insert(rng.randrange(len(alts) + 1), gen_bool(rng, 0, t))
        kids[rng.randrange(len(kids))] = ("or", alts)
    return (k, kids)


def gen_obs(rng, depth, bool_depth=2):
    r = rng.random()
    if depth <= 0 or r < 0.45:
        return ("obs", gen_bool(rng, rng.randrange(0, bool_depth + 1)))
    if r < 0.8:
        return (rng.choice(["oand", "oor", "ofb"]), [gen_obs(rng, depth - 1, bool_depth) for _ in range(rng.choice([2, 2, 3]))])
    q = rng.choice(["repeats", "within", "startstop"])
    if q == "repeats":
        qual = ("repeats", rng.choice([1, 2, 3, 5]))
    elif q == "within":
        w = rng.choice([1, 5, 60, 300, 0.5, 2.25])
        qual = ("within", float(w), str(w) if isinstance(w, int) else _float_text(w))
    else:
        a = tsor.text_us("2020-01-01T00:00:00Z") + rng.choice([0, 500000])
        qual = ("startstop", a, a + rng.choice([1, 60, 86400]) * 10 ** 6)
    inner = gen_obs(rng, depth - 1, bool_depth)
    cur = inner
    while cur[0] == "qual":          # the validator refuses two qualifiers of one kind on the same expression
        if cur[2][0] == qual[0]:
            return inner
        cur = cur[1]
    return ("qual", inner, qual)


def gen_pattern(rng, depth=None):
    return gen_obs(rng, rng.choice([0, 1, 1, 2, 3]) if depth is None else depth)


def jsonable(e):
    if isinstance(e, (tuple, list)):
        return [jsonable(x) for x in e]
    return e
