"""Independent RFC 8785 (JSON Canonicalization Scheme) implementation -- written from the RFC
and ECMA-262 7.1.12.1 (Number::toString); shares no code with /repo."""
import math


class NotCanonicalizable(ValueError):
    pass


def shortest_digits(x):
    """(digits, n) with x = 0.d1d2..dk * 10^n, k minimal, closest among the minimal ones.
    Found by trying correctly rounded decimals of increasing length (independent of repr())."""
    assert x > 0 and math.isfinite(x)
    for p in range(1, 18):
        s = "%.*e" % (p - 1, x)
        if float(s) == x:
            mant, exp = s.split("e")
            digits = mant.replace(".", "").rstrip("0") or "0"
            return digits, int(exp) + 1
    raise AssertionError("17 digits always round-trip")


def es6_number(x):
    """ECMAScript Number::toString for a finite double."""
    if isinstance(x, bool):
        raise NotCanonicalizable("bool is not a number")
    x = float(x)  # OverflowError for ints beyond double range is the caller's concern
    if x != x or x in (math.inf, -math.inf):
        raise NotCanonicalizable("NaN/Infinity")
    if x == 0:
        return "0"
    if x < 0:
        return "-" + es6_number(-x)
    s, n = shortest_digits(x)
    k = len(s)
    if k <= n <= 21:
        return s + "0" * (n - k)
    if 0 < n <= 21:
        return s[:n] + "." + s[n:]
    if -6 < n <= 0:
        return "0." + "0" * (-n) + s
    e = n - 1
    sign = "+" if e >= 0 else "-"
    if k == 1:
        return s + "e" + sign + str(abs(e))
    return s[0] + "." + s[1:] + "e" + sign + str(abs(e))


_SHORT = {0x08: "\\b", 0x09: "\\t", 0x0A: "\\n", 0x0C: "\\f", 0x0D: "\\r", 0x22: '\\"', 0x5C: "\\\\"}


def jstring(s):
    out = ['"']
    for ch in s:
        o = ord(ch)
        if o in _SHORT:
            out.append(_SHORT[o])
        elif o < 0x20:
            out.append("\\u%04x" % o)
        elif 0xD800 <= o <= 0xDFFF:
            raise NotCanonicalizable("lone surrogate")
        else:
            out.append(ch)
    out.append('"')
    return "".join(out)


def utf16_units(s):
    units = []
    for ch in s:
        o = ord(ch)
        if o >= 0x10000:
            o -= 0x10000
            units.append(0xD800 + (o >> 10))
            units.append(0xDC00 + (o & 0x3FF))
        else:
            units.append(o)
    return units


def canon(v):
    if v is None:
        return "null"
    if v is True:
        return "true"
    if v is False:
        return "false"
    if isinstance(v, str):
        return jstring(v)
    if isinstance(v, (int, float)):
        return es6_number(v)
    if isinstance(v, (list, tuple)):
        return "[" + ",".join(canon(x) for x in v) + "]"
    if isinstance(v, dict):
        for k in v:
            if not isinstance(k, str):
                raise NotCanonicalizable("non-string key")
        items = sorted(v.items(), key=lambda kv: utf16_units(kv[0]))
        return "{" + ",".join(jstring(k) + ":" + canon(x) for k, x in items) + "}"
    raise NotCanonicalizable("type %s" % type(v).__name__)
