"""Independent specification validator: walks json.loads(text) against the frozen model.

validate(obj_json, version) -> list of issues, each (key, path, message).  `key` is a short
mechanism name (used by the classifiers), `path` locates the offending value.
Only rules the frozen model states are checked (DESIGN section 3.1 / 8).
"""
import base64
import binascii
import re

from ..spec import model as M
from . import paths as pathor
from . import ts as tsor

UUID_RE = re.compile(r"\A[0-9a-fA-F]{8}-[0-9a-fA-F]{4}-[0-9a-fA-F]{4}-[0-9a-fA-F]{4}-[0-9a-fA-F]{12}\Z")
HEX_RE = re.compile(r"\A(?:[0-9a-fA-F]{2})+\Z")
DICT_KEY_RE = re.compile(r"\A[a-zA-Z0-9_-]+\Z")
TYPE_RE = re.compile(r"\A[a-z0-9-]+\Z")


def uuid_issue(u, version):
    if not isinstance(u, str) or not UUID_RE.match(u):
        return "uuid-textual-form"
    variant = int(u[19], 16)
    if variant & 0b1100 != 0b1000:
        return "uuid-variant"
    if version == "2.0" and u[14] != "4":
        return "uuid-version-2.0"
    return None


def id_issue(s, version, prefix=None):
    if not isinstance(s, str):
        return "id-not-string"
    if "--" not in s:
        return "id-form"
    t, u = s.split("--", 1)
    if prefix is not None and t + "--" != prefix:
        return "id-prefix"
    if not TYPE_RE.match(t):
        return "id-form"
    return uuid_issue(u, version)


class V:
    def __init__(self, version):
        self.version = version
        self.m = M.model(version)
        self.issues = []

    def add(self, key, path, msg):
        self.issues.append((key, ".".join(path), msg))

    # ------------------------------------------------------------------ kinds
    def check_kind(self, kind, v, path, container=None):
        k = kind["k"]
        if v is None:
            return self.add("null-value", path, "null is not allowed")
        if k == "fixed":
            if v != kind["value"] or type(v) is not type(kind["value"]):
                self.add("fixed-value", path, "must equal %r" % (kind["value"],))
        elif k == "id":
            e = id_issue(v, self.version, kind["prefix"])
            if e:
                self.add(e, path, "malformed identifier %r" % (v,))
        elif k == "ref":
            e = id_issue(v, self.version)
            if e:
                return self.add(e, path, "malformed reference %r" % (v,))
            t = v.split("--", 1)[0]
            if self.m.ref_allows(kind, t) is False:
                self.add("reference-type-disallowed", path, "reference to %r not allowed here" % t)
        elif k in ("string", "pattern", "openvocab"):
            if not isinstance(v, str):
                self.add("wrong-json-kind", path, "string expected, got %s" % type(v).__name__)
            elif path and path[-1] == "relationship_type" and not re.match(r"\A[a-z0-9-]*\Z", v):
                self.add("relationship-type-charset", path, "relationship_type %r is not limited to a-z, 0-9 and hyphen" % (v,))
        elif k == "int":
            if isinstance(v, bool) or not isinstance(v, int):
                return self.add("wrong-json-kind", path, "integer expected, got %r" % (v,))
            if "min" in kind and v < kind["min"]:
                self.add("out-of-range", path, "%r below minimum %r" % (v, kind["min"]))
            if "max" in kind and v > kind["max"]:
                self.add("out-of-range", path, "%r above maximum %r" % (v, kind["max"]))
            # the integer type itself: a signed 54-bit value in 2.1 (RFC 7493), a signed 64-bit value in 2.0
            lim = 2 ** 53 - 1 if self.version == "2.1" else 2 ** 63 - 1
            if abs(v) > lim:
                self.add("integer-type-range", path, "%r does not fit the STIX %s integer type (|v| <= %d)" % (v, self.version, lim))
        elif k == "float":
            if isinstance(v, bool) or not isinstance(v, (int, float)):
                return self.add("wrong-json-kind", path, "number expected, got %r" % (v,))
            if v != v or v in (float("inf"), -float("inf")):
                return self.add("non-finite-number", path, "NaN/Infinity")
            if "min" in kind and v < kind["min"]:
                self.add("out-of-range", path, "%r below minimum %r" % (v, kind["min"]))
            if "max" in kind and v > kind["max"]:
                self.add("out-of-range", path, "%r above maximum %r" % (v, kind["max"]))
        elif k == "bool":
            if not isinstance(v, bool):
                self.add("wrong-json-kind", path, "boolean expected, got %r" % (v,))
        elif k == "ts":
            if not isinstance(v, str) or tsor.parse_text(v) is None:
                return self.add("timestamp-form", path, "not a canonical timestamp: %r" % (v,))
            if not kind.get("digits_unjudged") and not tsor.digits_ok(v, kind["precision"], kind["constraint"]):
                self.add("timestamp-digits", path, "%r has the wrong number of fractional digits for %s/%s" % (
                    v, kind["precision"], kind["constraint"]))
        elif k == "enum":
            if not isinstance(v, str) or v not in kind["values"]:
                self.add("out-of-vocabulary", path, "%r not in the closed vocabulary" % (v,))
        elif k == "hex":
            if not isinstance(v, str) or not HEX_RE.match(v):
                self.add("hex-form", path, "%r is not an even number of hex digits" % (v,))
        elif k == "binary":
            ok = isinstance(v, str)
            if ok:
                try:
                    base64.b64decode(v, validate=True)
                except (binascii.Error, ValueError):
                    ok = False
            if not ok:
                self.add("base64-form", path, "%r is not base64" % (v,))
        elif k == "hashes":
            self.check_dict_keys(v, path)
            if isinstance(v, dict):
                for hk, hv in v.items():
                    n = M.HASH_HEX_LEN.get(hk)
                    if hk == "MD6":
                        if not (isinstance(hv, str) and re.match(r"\A[0-9a-fA-F]+\Z", hv) and len(hv) in (32, 40, 56, 64, 96, 128)):
                            self.add("hash-value-form", path + (hk,), "%r is not a plausible MD6 value" % (hv,))
                    elif n is not None:
                        # (a TLSH digest is 70 hexadecimal digits, since TLSH 4.0 preceded by the version tag T1)
                        if not (isinstance(hv, str) and re.match(r"\A%s[0-9a-fA-F]{%d}\Z" % ("(?:[Tt]1)?" if hk == "TLSH" else "", n), hv)):
                            self.add("hash-value-form", path + (hk,), "%r is not a %s value" % (hv, hk))
                    elif not isinstance(hv, str) or "\n" in hv or hv == "" or (hk == "SSDEEP" and not hv.isascii()):
                        self.add("hash-value-form", path + (hk,), "%r is not a hash string" % (hv,))
        elif k == "dict":
            self.check_dict_keys(v, path)
            if isinstance(v, dict):
                for dk, dv in v.items():
                    self.no_null_or_empty(dv, path + (str(dk),), ":in-dictionary-value")
        elif k == "list":
            if not isinstance(v, list):
                return self.add("wrong-json-kind", path, "list expected, got %s" % type(v).__name__)
            if not v:
                return self.add("empty-list", path, "empty list")
            for i, x in enumerate(v):
                self.check_kind(kind["of"], x, path + ("[%d]" % i,), container)
        elif k == "embedded":
            if not isinstance(v, dict):
                return self.add("wrong-json-kind", path, "object expected, got %s" % type(v).__name__)
            self.check_table(self.m.embedded[kind["type"]], v, path, container)
        elif k == "extensions":
            self.check_extensions(v, path, container)
        elif k == "observables":
            self.check_observables(v, path)
        elif k == "objref":
            if not isinstance(v, str):
                return self.add("wrong-json-kind", path, "object reference must be a string")
            if container is not None:
                if v not in container:
                    self.add("object-ref-dangling", path, "%r is not a key of the container" % v)
                elif kind.get("valid") and isinstance(container[v], dict) and container[v].get("type") not in kind["valid"]:
                    self.add("object-ref-type", path, "%r refers to a %r" % (v, container[v].get("type")))
        elif k == "selector":
            if not isinstance(v, str) or not pathor.fits_syntax(pathor.split(v)):
                self.add("selector-syntax", path, "%r does not fit the selector syntax" % (v,))
        elif k == "stixobject":
            if not isinstance(v, dict):
                return self.add("wrong-json-kind", path, "object expected")
            self.check_member(v, path)
        elif k == "marking-object":
            pass  # handled by the named constraint
        else:
            raise KeyError(k)

    def check_dict_keys(self, v, path):
        if not isinstance(v, dict):
            return self.add("wrong-json-kind", path, "dictionary expected, got %s" % type(v).__name__)
        if not v:
            return self.add("empty-dictionary", path, "empty dictionary")
        for key in v:
            if not DICT_KEY_RE.match(key):
                self.add("dictionary-key-charset", path + (key,), "illegal dictionary key %r" % key)
            elif self.version == "2.0" and not (3 <= len(key) <= 256):
                self.add("dictionary-key-length", path + (key,), "key length %d" % len(key))
            elif self.version == "2.1" and len(key) > 250:
                self.add("dictionary-key-length", path + (key,), "key length %d" % len(key))

    def no_null_or_empty(self, v, path, tag=""):
        if v is None:
            self.add("null-value" + tag, path, "null")
        elif isinstance(v, dict):
            if not v:
                self.add("empty-dictionary" + tag, path, "empty dictionary")
            for k, x in v.items():
                self.no_null_or_empty(x, path + (str(k),), tag)
        elif isinstance(v, list):
            if not v:
                self.add("empty-list" + tag, path, "empty list")
            for i, x in enumerate(v):
                self.no_null_or_empty(x, path + ("[%d]" % i,), tag)

    def check_extensions(self, v, path, container):
        if not isinstance(v, dict):
            return self.add("wrong-json-kind", path, "extensions must be a dictionary")
        if not v:
            return self.add("empty-dictionary", path, "empty extensions")
        for key, ext in v.items():
            p = path + (key,)
            if key in self.m.extensions:
                if not isinstance(ext, dict):
                    self.add("wrong-json-kind", p, "extension must be an object")
                else:
                    self.check_table(self.m.extensions[key], ext, p, container)
            elif key.startswith("extension-definition--"):
                e = id_issue(key, self.version, "extension-definition--")
                if e:
                    self.add(e, p, "malformed extension-definition id")
                if not isinstance(ext, dict):
                    self.add("wrong-json-kind", p, "extension must be an object")
                elif not ext:
                    self.add("empty-dictionary", p, "empty extension")
                else:
                    self.no_null_or_empty(ext, p)
            else:
                self.add("unregistered-extension", p, "extension %r is not defined by the specification" % key)

    def check_observables(self, v, path):
        if not isinstance(v, dict):
            return self.add("wrong-json-kind", path, "objects must be a dictionary")
        if not v:
            return self.add("empty-dictionary", path, "empty objects")
        for key, o in v.items():
            p = path + (key,)
            if not isinstance(o, dict):
                self.add("wrong-json-kind", p, "observable must be an object")
                continue
            t = o.get("type")
            tbl = self.m.types.get(t) if isinstance(t, str) else None
            if tbl is None or tbl["cat"] != "sco":
                self.add("unknown-observable-type", p, "type %r" % (t,))
                continue
            self.check_table(tbl, o, p, v)

    def check_member(self, o, path):
        t = o.get("type")
        if t == "bundle":
            return self.add("bundle-in-bundle", path, "a bundle may not contain a bundle")
        ver = self.version
        if self.version == "2.1":
            if "spec_version" in o:
                ver = o["spec_version"] if o["spec_version"] in ("2.0", "2.1") else "2.1"
            elif isinstance(t, str) and t in self.m.types and self.m.types[t]["cat"] == "sco" and "id" in o:
                ver = "2.1"
            else:
                ver = "2.0"
        sub = V(ver)
        tbl = sub.m.types.get(t) if isinstance(t, str) else None
        if tbl is None:
            return self.add("unknown-object-type", path, "type %r (version %s)" % (t, ver))
        if ver == "2.0" and tbl.get("cat") == "sco":
            # a STIX 2.0 cyber observable has no id and only exists inside observed-data
            if isinstance(o, dict) and "id" in o:
                return self.add("sco-of-2.1-in-2.0-bundle", path, "a cyber observable with an id (%r) is STIX 2.1 content; this bundle holds 2.0 content" % (t,))
            return self.add("observable-without-id-as-member", path, "a STIX 2.0 cyber observable (%r) cannot be a bundle member" % (t,))
        sub.check_table(tbl, o, path, None, top=True)
        self.issues.extend(sub.issues)

    # ------------------------------------------------------------------ tables
    def check_table(self, tbl, o, path, container=None, top=False):
        if not o:
            return self.add("empty-dictionary", path, "empty object")
        by = tbl["by_name"]
        has_toplevel_ext = top and isinstance(o.get("extensions"), dict) and any(
            isinstance(e, dict) and e.get("extension_type") == "toplevel-property-extension" for e in o["extensions"].values())
        for p in tbl["props"]:
            if p.get("unmodelled"):
                continue
            n = p["name"]
            if n not in o:
                if p["required"]:
                    self.add("required-missing", path + (n,), "required property %r missing" % n)
                continue
            self.check_kind(p, o[n], path + (n,), container)
        for n in o:
            if n not in by:
                if has_toplevel_ext:
                    self.no_null_or_empty(o[n], path + (n,))
                else:
                    self.add("unknown-property", path + (n,), "property %r is not defined for this type" % n)
        for c in tbl["constraints"]:
            self.check_constraint(c, tbl, o, path)
        if top and isinstance(o.get("granular_markings"), list):
            for i, gm in enumerate(o["granular_markings"]):
                if isinstance(gm, dict) and isinstance(gm.get("selectors"), list):
                    for j, s in enumerate(gm["selectors"]):
                        if isinstance(s, str) and pathor.fits_syntax(pathor.split(s)):
                            ok, _ = pathor.resolve(o, pathor.split(s))
                            first = by.get(pathor.split(s)[0])
                            if not ok and first is not None and "default" in first and len(pathor.split(s)) == 1:
                                ok = True     # addresses an optional property omitted because it is at its default
                            if not ok:
                                self.add("selector-addresses-nothing", path + ("granular_markings", "[%d]" % i, "selectors", "[%d]" % j),
                                         "selector %r addresses nothing" % s)

    def check_constraint(self, c, tbl, o, path):
        kind = c[0]
        if kind == "at_least_one":
            if not any(n in o for n in c[1]):
                self.add("co-constraint:at-least-one", path, "one of %s required" % (c[1],))
        elif kind == "exactly_one":
            k = sum(1 for n in c[1] if n in o)
            if k != 1:
                self.add("co-constraint:exactly-one", path, "exactly one of %s required, %d present" % (c[1], k))
        elif kind == "at_most_one":
            if sum(1 for n in c[1] if n in o) > 1:
                self.add("co-constraint:at-most-one", path, "at most one of %s" % (c[1],))
        elif kind == "requires":
            if c[1] in o and not all(b in o for b in c[2]):
                self.add("co-constraint:requires", path, "%s requires %s" % (c[1], c[2]))
        elif kind in ("le", "lt"):
            a, b = o.get(c[1]), o.get(c[2])
            ia, ib = tsor.text_instant(a) if isinstance(a, str) else None, tsor.text_instant(b) if isinstance(b, str) else None
            if ia is not None and ib is not None:
                if ia > ib or (kind == "lt" and ia == ib):
                    self.add("co-constraint:order:%s-%s" % (c[1], c[2]), path, "%s=%r must be %s %s=%r" % (
                        c[1], a, "before" if kind == "lt" else "not after", c[2], b))
        elif kind == "named":
            self.check_named(c[1], tbl, o, path)

    def check_named(self, name, tbl, o, path):
        if name == "location-presence":
            if ("latitude" in o) != ("longitude" in o):
                self.add("co-constraint:lat-long", path, "latitude and longitude must come together")
            if "precision" in o and not ("latitude" in o and "longitude" in o):
                self.add("co-constraint:precision", path, "precision requires latitude and longitude")
            if not ("region" in o or "country" in o or ("latitude" in o and "longitude" in o)):
                self.add("co-constraint:location-presence", path, "region, country or latitude+longitude required")
        elif name == "malware-family-name":
            if o.get("is_family") is True and "name" not in o:
                self.add("co-constraint:family-name", path, "malware families require a name")
        elif name == "stix-pattern-valid":
            if (self.version == "2.0" or o.get("pattern_type") == "stix") and isinstance(o.get("pattern"), str):
                try:
                    from stix2patterns.validator import run_validator
                    ver = o.get("pattern_version") if self.version == "2.1" else "2.0"
                    errs = run_validator(o["pattern"], ver or "2.1")
                except Exception as e:  # third-party validator failed: cannot tell
                    errs = []
                if errs:
                    self.add("pattern-invalid", path + ("pattern",), "invalid STIX pattern: %s" % (errs[0],))
        elif name == "marking-definition":
            dt, d, ext = o.get("definition_type"), o.get("definition"), o.get("extensions")
            # 2.0 part 1 section 4.1 / 2.1 section 7.2.1: object_marking_refs and granular_markings of a marking definition
            # "MUST NOT contain any references to this Marking Definition object (i.e., it cannot contain any circular references)"
            own = o.get("id")
            if isinstance(own, str):
                omr = o.get("object_marking_refs")
                if isinstance(omr, list) and own in omr:
                    self.add("co-constraint:marking-definition-marks-itself", path + ("object_marking_refs",), "a marking definition must not be marked with itself")
                gms = o.get("granular_markings")
                if isinstance(gms, list) and any(isinstance(g, dict) and g.get("marking_ref") == own for g in gms):
                    self.add("co-constraint:marking-definition-marks-itself", path + ("granular_markings",), "a marking definition must not be marked with itself")
            if self.version == "2.0" or not ext:
                if dt is None or d is None:
                    if self.version == "2.1":
                        self.add("co-constraint:marking-definition", path, "definition_type and definition required without extensions")
                    return
            if dt is not None and d is not None:
                mt = self.m.markings.get(dt)
                if mt is not None:
                    if not isinstance(d, dict):
                        self.add("wrong-json-kind", path + ("definition",), "definition must be an object")
                    else:
                        self.check_table(mt, d, path + ("definition",))
                if dt == "tlp" and isinstance(d, dict):
                    color = d.get("tlp")
                    if color in M.TLP:
                        if o.get("id") != M.TLP[color]:
                            self.add("tlp-instance", path + ("id",), "TLP:%s must have the specification's fixed id" % color)
                        c = o.get("created")
                        if tsor.text_instant(c) != tsor.text_instant(M.TLP_CREATED):
                            self.add("tlp-instance", path + ("created",), "TLP:%s must have the specification's fixed created time" % color)
        elif name == "email-multipart":
            if o.get("is_multipart") is True and "body" in o:
                self.add("co-constraint:email-multipart", path, "body must not be used when is_multipart is true")
            if o.get("is_multipart") is False and "body_multipart" in o:
                self.add("co-constraint:email-multipart", path, "body_multipart must not be used when is_multipart is false")
        elif name == "network-traffic-active":
            if "end" in o and o.get("is_active") is True:
                self.add("co-constraint:is-active", path, "is_active must be false when end is present")
        elif name in ("some-property", "process-some-property"):
            skip = {"type", "id", "spec_version", "defanged", "extensions"} if name == "process-some-property" else {"extension_type"}
            if name == "process-some-property":
                if not (set(o) - skip) and "extensions" not in o:
                    self.add("co-constraint:some-property", path, "at least one property required")
            elif not set(o):
                self.add("co-constraint:some-property", path, "at least one property required")
        elif name == "socket-options":
            opts = o.get("options")
            if isinstance(opts, dict):
                for k, v in opts.items():
                    if not any(k.startswith(p) for p in M.SOCKET_OPTION_PREFIXES):
                        self.add("socket-option-key", path + ("options", k), "illegal option name")
                    if isinstance(v, bool) or not isinstance(v, int):
                        self.add("socket-option-value", path + ("options", k), "option value %r is not an integer" % (v,))
        elif name == "file-encryption-20":
            if ("encryption_algorithm" in o or "decryption_key" in o) and o.get("is_encrypted") is not True:
                self.add("co-constraint:is-encrypted", path, "encryption properties require is_encrypted true")


def validate(o, version=None):
    """Validate a top-level JSON object.  version None = decide as the specification says
    (spec_version property / SCO with id -> 2.1; bundle with spec_version -> 2.0 ...)."""
    if not isinstance(o, dict):
        return [("wrong-json-kind", "", "top level must be an object")]
    t = o.get("type")
    if version is None:
        version = guess_version(o)
    v = V(version)
    tbl = v.m.types.get(t) if isinstance(t, str) else None
    if tbl is None:
        return [("unknown-object-type", "", "type %r is not defined in STIX %s" % (t, version))]
    if tbl["cat"] == "sco" and version == "2.0":
        v.check_table(tbl, o, (), None, top=False)
    else:
        v.check_table(tbl, o, (), None, top=True)
    # generic rule: no null / empty list / empty dict anywhere
    g = V(version)
    g.no_null_or_empty(o, ())
    seen = {p for k, p, _ in v.issues if k.split(":")[0] in ("null-value", "empty-dictionary", "empty-list", "co-constraint")}
    for k, p, msg in g.issues:
        if p not in seen:
            v.issues.append((k, p, msg))
    return v.issues


def guess_version(o):
    t = o.get("type")
    if t == "bundle":
        return "2.0" if "spec_version" in o else "2.1"
    if "spec_version" in o:
        return o["spec_version"] if o["spec_version"] in ("2.0", "2.1") else "2.1"
    m21 = M.model("2.1")
    if "id" in o and isinstance(t, str) and t in m21.types and m21.types[t]["cat"] == "sco":
        return "2.1"
    return "2.0"
