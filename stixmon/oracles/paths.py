"""Path enumerator: every address of a JSON value in granular-marking selector syntax."""
import re

SEG_FIRST = re.compile(r"\A(?:[a-z0-9_-]{3,250}|id)\Z")
# later steps may be dictionary keys (hashes.SHA-256, environment_variables.PATH): capital letters belong to the syntax there
SEG_NEXT = re.compile(r"\A(?:\[\d+\]|[a-zA-Z0-9_-]{1,250})\Z")


def walk(value, prefix=()):
    """Yield (segments tuple, value) for every address below `value` (not the root)."""
    if isinstance(value, dict):
        for k, v in value.items():
            p = prefix + (k,)
            yield p, v
            yield from walk(v, p)
    elif isinstance(value, list):
        for i, v in enumerate(value):
            p = prefix + ("[%d]" % i,)
            yield p, v
            yield from walk(v, p)


def fits_syntax(segs):
    if not segs or not SEG_FIRST.match(segs[0]):
        return False
    if segs[0] == "id" and len(segs) > 1:      # the syntax admits 'id' only on its own (two characters)
        return False
    return all(SEG_NEXT.match(s) for s in segs[1:])


def selectors(obj_json):
    """All (selector string, segments, value) of a JSON object whose every segment fits the selector syntax."""
    out = []
    for segs, v in walk(obj_json):
        if fits_syntax(segs):
            out.append((".".join(segs), segs, v))
    return out


def resolve(obj_json, segs):
    """(True, value) if the segment path addresses something in obj_json, else (False, None)."""
    cur = obj_json
    for s in segs:
        if s.startswith("[") and s.endswith("]"):
            if not isinstance(cur, list):
                return False, None
            i = int(s[1:-1])
            if i >= len(cur):
                return False, None
            cur = cur[i]
        else:
            if not isinstance(cur, dict) or s not in cur:
                return False, None
            cur = cur[s]
    return True, cur


def split(selector):
    return tuple(selector.split("."))
