"""Reference set model of STIX data markings: object-level set + set of (selector path, kind, marking)."""


def segs(selector):
    return tuple(selector.split("."))


def is_ancestor(a, d):
    """path a is a proper ancestor of path d (on segments, not characters)"""
    return len(a) < len(d) and d[:len(a)] == a


def kind_of(marking):
    return "ref" if isinstance(marking, str) and marking.startswith("marking-definition--") else "lang"


class NotFound(Exception):
    pass


class MarkingModel:
    def __init__(self, object_refs=(), granular=()):
        self.O = list(dict.fromkeys(object_refs))
        self.G = set()
        for gm in granular:
            for s in gm.get("selectors", []):
                if gm.get("marking_ref"):
                    self.G.add((segs(s), "ref", gm["marking_ref"]))
                if gm.get("lang"):
                    self.G.add((segs(s), "lang", gm["lang"]))

    def copy(self):
        m = MarkingModel()
        m.O = list(self.O)
        m.G = set(self.G)
        return m

    # ---- queries ----------------------------------------------------------------
    def get(self, selectors=None, inherited=False, descendants=False, marking_ref=True, lang=True):
        if selectors is None:
            return set(self.O)
        out = set()
        for s in selectors:
            ps = segs(s)
            for (p, k, m) in self.G:
                if (k == "ref" and not marking_ref) or (k == "lang" and not lang):
                    continue
                if p == ps or (inherited and is_ancestor(p, ps)) or (descendants and is_ancestor(ps, p)):
                    out.add(m)
        if inherited:
            out |= set(self.O)
        return out

    def pairs(self):
        return set(self.G)

    # ---- mutations (raise NotFound where the documentation says MarkingNotFoundError) ---------
    def add(self, markings, selectors=None):
        if selectors is None:
            for m in markings:
                if m not in self.O:
                    self.O.append(m)
            return
        for m in markings:
            for s in selectors:
                self.G.add((segs(s), kind_of(m), m))

    def remove(self, markings, selectors=None):
        """returns 'noop' when the documentation says the object is returned as is"""
        if selectors is None:
            if not self.O:
                return "noop"
            if any(m not in self.O for m in markings):
                raise NotFound()
            self.O = [m for m in self.O if m not in markings]
            return None
        if not self.G:
            return "noop"
        want = {(segs(s), kind_of(m), m) for m in markings for s in selectors}
        present = want & self.G
        if not present:
            raise NotFound()
        self.partial = present != want
        self.G -= present
        return None

    def clear(self, selectors=None, marking_ref=True, lang=True):
        if selectors is None:
            self.O = []
            return None
        if not self.G:
            return "noop"
        ss = {segs(s) for s in selectors}
        if not any(p in ss for (p, k, m) in self.G):
            raise NotFound()
        self.G = {(p, k, m) for (p, k, m) in self.G
                  if not (p in ss and ((k == "ref" and marking_ref) or (k == "lang" and lang)))}
        return None

    def set(self, markings, selectors=None, marking_ref=True, lang=True):
        if selectors is None:
            self.O = []
            self.add(markings)
            return None
        r = self.clear(selectors, marking_ref, lang)       # may raise NotFound, exactly like clear
        self.add(markings, selectors)
        return None


def pairs_of_json(obj_json):
    out = set()
    for gm in obj_json.get("granular_markings", []) or []:
        for s in gm.get("selectors", []):
            if gm.get("marking_ref"):
                out.add((segs(s), "ref", gm["marking_ref"]))
            if gm.get("lang"):
                out.add((segs(s), "lang", gm["lang"]))
    return out
