"""Integer-arithmetic STIX timestamp codec (independent of /repo and of datetime.strftime).

An *instant* is an integer count of microseconds since 0001-01-01T00:00:00Z (proleptic
Gregorian), or -- for text with more than six fractional digits -- a pair handled by
`parse_text`, which returns (seconds, fraction_numerator, fraction_digits).
"""
import re

CANON = re.compile(r"\A(\d{4})-(\d{2})-(\d{2})T(\d{2}):(\d{2}):(\d{2})(?:\.(\d+))?Z\Z")

_DIM = [31, 28, 31, 30, 31, 30, 31, 31, 30, 31, 30, 31]


def is_leap(y):
    return y % 4 == 0 and (y % 100 != 0 or y % 400 == 0)


def days_before_year(y):
    y -= 1
    return y * 365 + y // 4 - y // 100 + y // 400


def days_from_civil(y, m, d):
    n = days_before_year(y)
    for i in range(m - 1):
        n += _DIM[i] + (1 if i == 1 and is_leap(y) else 0)
    return n + d - 1


def civil_from_days(n):
    # linear search by year is fine for an oracle (years 1..9999), but use arithmetic anyway
    y = n * 400 // 146097 + 1
    while days_before_year(y) > n:
        y -= 1
    while days_before_year(y + 1) <= n:
        y += 1
    n -= days_before_year(y)
    m = 1
    while True:
        dim = _DIM[m - 1] + (1 if m == 2 and is_leap(y) else 0)
        if n < dim:
            break
        n -= dim
        m += 1
    return y, m, n + 1


def valid_fields(y, mo, d, h, mi, s):
    if not (1 <= y <= 9999 and 1 <= mo <= 12 and 0 <= h <= 23 and 0 <= mi <= 59 and 0 <= s <= 59):
        return False
    dim = _DIM[mo - 1] + (1 if mo == 2 and is_leap(y) else 0)
    return 1 <= d <= dim


def parse_text(s):
    """Canonical STIX timestamp text -> (seconds_since_origin, frac_numerator, frac_digits) or None."""
    if not isinstance(s, str):
        return None
    m = CANON.match(s)
    if not m:
        return None
    y, mo, d, h, mi, sec = (int(m.group(i)) for i in range(1, 7))
    if not valid_fields(y, mo, d, h, mi, sec):
        return None
    frac = m.group(7)
    secs = days_from_civil(y, mo, d) * 86400 + h * 3600 + mi * 60 + sec
    if frac is None:
        return secs, 0, 0
    return secs, int(frac), len(frac)


def text_instant(s):
    """Exact instant of canonical text as a comparable pair (seconds, fraction as integer of 10^-24)."""
    p = parse_text(s)
    if p is None:
        return None
    secs, num, digits = p
    if digits > 24:
        num = num // 10 ** (digits - 24)
        digits = 24
    return secs, num * 10 ** (24 - digits)


def text_us(s):
    """Instant in whole microseconds (truncating), or None if not canonical text."""
    p = parse_text(s)
    if p is None:
        return None
    secs, num, digits = p
    if digits <= 6:
        us = num * 10 ** (6 - digits)
    else:
        us = num // 10 ** (digits - 6)
    return secs * 1000000 + us


def datetime_us(dt):
    """Python datetime/date -> instant in microseconds, UTC (naive = UTC), by integer arithmetic."""
    y, mo, d = dt.year, dt.month, dt.day
    h = getattr(dt, "hour", 0)
    mi = getattr(dt, "minute", 0)
    s = getattr(dt, "second", 0)
    us = getattr(dt, "microsecond", 0)
    total = ((days_from_civil(y, mo, d) * 86400 + h * 3600 + mi * 60 + s) * 1000000) + us
    off = None
    if getattr(dt, "tzinfo", None) is not None:
        off = dt.utcoffset()
    if off is not None:
        total -= (off.days * 86400 + off.seconds) * 1000000 + off.microseconds
    return total


MAX_US = (days_from_civil(9999, 12, 31) * 86400 + 86399) * 1000000 + 999999


def truncate_us(us, precision, constraint):
    precision, constraint = precision.lower(), constraint.lower()
    if constraint == "exact":
        if precision == "second":
            return us - us % 1000000
        if precision == "millisecond":
            return us - us % 1000
    return us


def format_us(us, precision="any", constraint="exact"):
    """The text the specification requires for instant `us` under (precision, constraint)."""
    precision, constraint = precision.lower(), constraint.lower()
    us = truncate_us(us, precision, constraint)
    secs, frac = divmod(us, 1000000)
    days, rem = divmod(secs, 86400)
    y, mo, d = civil_from_days(days)
    h, rem = divmod(rem, 3600)
    mi, s = divmod(rem, 60)
    head = "%04d-%02d-%02dT%02d:%02d:%02d" % (y, mo, d, h, mi, s)
    f6 = "%06d" % frac
    if precision == "any" or (precision == "second" and constraint == "min"):
        fs = f6.rstrip("0")
    elif precision == "second":
        fs = ""
    elif constraint == "exact":
        fs = f6[:3]
    else:
        fs = f6.rstrip("0")
        if len(fs) < 3:
            fs = fs.ljust(3, "0")
    return head + ("." + fs if fs else "") + "Z"


def digits_ok(text, precision, constraint):
    """Does canonical `text` carry the number of fractional digits (precision, constraint) requires?"""
    p = parse_text(text)
    if p is None:
        return False
    n = p[2]
    precision, constraint = precision.lower(), constraint.lower()
    if precision == "any":
        return True
    need = 0 if precision == "second" else 3
    return n == need if constraint == "exact" else (n >= need if need else True)
