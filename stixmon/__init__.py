"""stixmon -- runtime monitors for cti-python-stix2 (see /verif/DESIGN.md).

The library under observation is always imported from the repository's working tree
(STIXMON_REPO, default /repo).  Third-party helpers installed by setup.sh live in
<home>/.deps and are appended *after* site-packages so they never shadow the
repository interpreter's own packages.
"""
import os
import sys

HOME = os.environ.get("STIXMON_HOME") or os.path.dirname(os.path.dirname(os.path.abspath(__file__)))
REPO = os.environ.get("STIXMON_REPO", "/repo")

_deps = os.path.join(HOME, ".deps")
if os.path.isdir(_deps) and _deps not in sys.path:
    sys.path.append(_deps)


def import_stix2():
    """Import stix2 and insist that it is the working tree under REPO."""
    if REPO not in sys.path:
        sys.path.insert(0, REPO)
    import stix2  # noqa
    path = os.path.realpath(stix2.__file__)
    if not path.startswith(os.path.realpath(REPO) + os.sep):
        raise RuntimeError("stix2 imported from %s, not from %s" % (path, REPO))
    if "stix2.workbench" in sys.modules:
        raise RuntimeError("stix2.workbench must never be imported in a monitor process")
    return stix2
