"""C03 -- every specification-valid object is accepted and its content preserved.

Events: valid_json -> stix2.parse(text, allow_custom=False) -> serialize(include_optional_defaults=True);
the same object as a bundle member and (SCOs) as an observed-data element.
Oracle: no exception; every input property present with the same value (model-guided comparison).
"""
import json
import re
import warnings

from ..ctx import Workload
from ..gen.objects import ObjGen, optional_pairs
from ..gen import prime
from ..gen import values as V
from ..oracles import compare, validator
from ..oracles import paths as pathor
from ..oracles import ts as tsor
from ..spec import model as M

ID = "C03"
LEVEL = "exploration"
SHARDS = {"quick": 4, "thorough": 16}
RULE = ("specification-valid JSON objects generated from the frozen model: every top-level type of both versions x "
        "{minimal, maximal, random, every pair of optional properties} x hostile value pools; every vocabulary entry and "
        "every legal reference target type once per run; boundary/falsy values per slot; objects re-checked inside bundles "
        "and observed-data containers.  Non-trivial: at least one optional property present.  "
        "distinct = distinct (version, type, set of populated property paths, embedding)")
ASSUMPTIONS = [
    "the frozen specification model (stixmon/spec) is a correct subset of the STIX 2.0/2.1 rules; rules it does not state are not exercised (DESIGN section 8)",
    "instants are compared at microsecond resolution (the resolution of the library's documented datetime representation)",
    "generated inputs are first checked by the independent validator; an input it rejects is a generator error and is discarded and counted, never judged",
]
VERSIONS = ["2.0", "2.1"]


def lib_parse(text):
    import stix2
    with warnings.catch_warnings():
        warnings.simplefilter("ignore")
        return stix2.parse(text, allow_custom=False)


def populated_paths(o, prefix=""):
    out = set()
    if isinstance(o, dict):
        for k, v in o.items():
            out.add(prefix + k)
            if isinstance(v, (dict, list)):
                out |= populated_paths(v, prefix + k + ".")
    elif isinstance(o, list):
        for v in o:
            if isinstance(v, (dict, list)):
                out |= populated_paths(v, prefix)
    return out


def ts_digit_counts(o, acc):
    if isinstance(o, dict):
        for v in o.values():
            ts_digit_counts(v, acc)
    elif isinstance(o, list):
        for v in o:
            ts_digit_counts(v, acc)
    elif isinstance(o, str):
        p = tsor.parse_text(o)
        if p is not None:
            acc.add(p[2])


def classify_selector(o, selector):
    """Mechanism of a refused selector that does address something in o."""
    segs = pathor.split(selector)
    ok, val = pathor.resolve(o, segs)
    if not ok:
        return None
    if val in (False, 0, "", 0.0) or val == [] or val == {}:
        return "selector-falsy"
    # repeated list element: some list on the path holds an equal earlier element
    cur = o
    for i, s in enumerate(segs):
        if s.startswith("["):
            idx = int(s[1:-1])
            if any(cur[j] == cur[idx] for j in range(idx)):
                return "selector-duplicate-element"
            cur = cur[idx]
        else:
            cur = cur[s]
    # path runs through an embedded object / extension / observable (anything below a dict or list element that is a dict)
    cur = o
    for i, s in enumerate(segs[:-1]):
        cur = cur[int(s[1:-1])] if s.startswith("[") else cur[s]
        if isinstance(cur, dict):
            return "selector-embedded-object"
    return "valid-selector-refused"


def classify_refusal(o, exc):
    name = type(exc).__name__
    msg = str(exc)
    if name == "InvalidSelectorError":
        sel = getattr(exc, "key", None)
        if isinstance(sel, str):
            k = classify_selector(o, sel)
            if k:
                return k
        return "valid-selector-refused"
    m = re.search(r"Selector (\S+) in \w+ is not valid", msg)
    if m:
        for member in [o] + [x for x in o.get("objects", []) if isinstance(x, dict)] if isinstance(o.get("objects"), list) else [o]:
            k = classify_selector(member, m.group(1))
            if k:
                return k
    digs = set()
    ts_digit_counts(o, digs)
    if any(d > 6 for d in digs) and ("timestamp" in msg or "datetime" in msg):
        return "fraction-over-6-digits-refused"
    prop = getattr(exc, "prop_name", None)
    return "valid-object-refused:%s%s" % (name, ":" + prop if isinstance(prop, str) else "")


def judge(ctx, o, version, embedding="plain", tags=()):
    """Feed one valid JSON object through parse -> serialize and compare."""
    issues = validator.validate(o, version)
    if issues:
        ctx.skip("generator produced an object its own validator rejects (%s)" % issues[0][0])
        ctx.count("generator_errors")
        return None
    text = json.dumps(o)
    ctx.ev()
    if ctx.counters.get("evaluations", 0) % 3 == 0:
        # histories: the same content was first used leniently, under the other version, and with a custom property added;
        # none of that may influence the strict parse that follows
        import stix2
        # its literal identifiers / timestamps were first seen by other spec versions and other precision contexts ...
        ctx.count("priming_calls", prime.prime(o))
        for fn in (lambda: stix2.parse(text, allow_custom=True), lambda: stix2.parse(json.loads(text), allow_custom=True, version="2.0" if version == "2.1" else "2.1"),
                   lambda: stix2.parse(dict(json.loads(text), x_history_prop=1), allow_custom=True)):
            try:
                with warnings.catch_warnings():
                    warnings.simplefilter("ignore")
                    fn()
            except Exception:
                pass
        ctx.count("lenient_histories")
    try:
        parsed = lib_parse(text)
    except Exception as e:
        key = classify_refusal(o, e)
        ctx.violation(key, "valid %s %s (%s) refused: %s: %s" % (version, o.get("type"), embedding, type(e).__name__, str(e)[:200]),
                      {"version": version, "embedding": embedding, "input": o, "exception": type(e).__name__, "message": str(e)[:500]})
        return None
    ctx.count("accepted")
    ctx.see("accepted types", "%s:%s" % (version, o.get("type")))
    try:
        out = json.loads(parsed.serialize(include_optional_defaults=True))
    except Exception as e:
        ctx.violation("serialize-raised", "serialize raised %s after a successful parse" % type(e).__name__,
                      {"version": version, "input": o, "exception": repr(e)})
        return None
    ctx.ev()
    diffs = compare.preserved(o, out, version)
    if diffs:
        k0 = diffs[0][0]
        ctx.violation("content-not-preserved:" + k0, "%s %s: %s at %s: %s" % (version, o.get("type"), k0, diffs[0][1], diffs[0][2][:200]),
                      {"version": version, "embedding": embedding, "input": o, "output": out, "differences": diffs[:5]})
    pp = populated_paths(o)
    if len(pp) > sum(1 for p in M.model(version).types[o["type"]]["props"] if p["required"]) or embedding != "plain":
        ctx.nontrivial(version, o.get("type"), sorted(pp), embedding)
    for t in tags:
        ctx.see("workload tags", t)
    return out


def all_types():
    out = []
    for ver in VERSIONS:
        g = ObjGen(None, ver)
        for t in g.creatable_types():
            out.append((ver, t))
    return out


TYPES = all_types()


def gen_for(rng, ver, i):
    g = ObjGen(rng, ver, hostile=True, ts_max_digits=9 if i % 3 else 6, allow_empty_str=(i % 5 == 0),
               shuffle_keys=(i % 4 == 0), toplevel_ext=(i % 7 == 0),
               huge_ints=("63" if ver == "2.0" and i % 2 == 0 else False))    # the 2.0 integer type is 64 bits wide: beyond what a double carries exactly
    g.long_lists = (i % 3 == 0)
    return g


def wl_profiles(ctx, rng, i):
    ver, t = TYPES[i % len(TYPES)]
    rnd = i // len(TYPES)
    g = gen_for(rng, ver, i)
    prof = ["min", "max", "random", "random"][rnd % 4]
    o = g.make(t, prof)
    out = judge(ctx, o, ver, tags=("profile:" + prof,))
    if out is not None and ctx.want_sample() and prof == "max":
        ctx.sample({"version": ver, "input": o, "output_include_defaults": out})
    # same object inside a bundle
    if t != "bundle" and M.model(ver).types[t]["cat"] != "meta" or ver == "2.1" and t != "bundle":
        b = g.bundle(members=[o])
        judge(ctx, b, ver, embedding="bundle-member")
        if ver == "2.0" and rnd % 2 == 0:
            # a 2.1 bundle may carry 2.0 objects (they have no spec_version): each is read, and written, as what it is
            b21 = {"type": "bundle", "id": b["id"], "objects": [o]}
            judge(ctx, b21, "2.1", embedding="2.0-member-of-a-2.1-bundle")
    # 2.1 SCO as an observed-data element (deprecated container form) ; 2.0 SCOs are only ever generated there
    if ver == "2.1" and M.model(ver).types[t]["cat"] == "sco":
        od = g.make("observed-data", ("only", ["objects"]), granular=False)
        od.pop("object_refs", None)
        o2 = dict(o)
        o2.pop("granular_markings", None)
        od["objects"] = {"0": o2}
        judge(ctx, od, ver, embedding="observed-data-element")


PAIRS = [(ver, t, pr) for ver, t in TYPES for pr in optional_pairs(M.model(ver), t)]


def wl_pairs(ctx, rng, i):
    ver, t, pair = PAIRS[i % len(PAIRS)]
    g = gen_for(rng, ver, i)
    o = g.make(t, ("only", list(pair)), granular=False)
    judge(ctx, o, ver, tags=("pairwise",))


def vocab_slots():
    """(version, type, property, list?, value) for every vocabulary entry and every legal reference target."""
    out = []
    for ver in VERSIONS:
        m = M.model(ver)
        for t, d in sorted(m.types.items()):
            if d["cat"] == "sco" and ver == "2.0":
                continue
            for p in d["props"]:
                kind, lst = p, False
                if p["k"] == "list":
                    kind, lst = p["of"], True
                if kind["k"] in ("enum", "openvocab"):
                    for v in kind["values"]:
                        out.append((ver, t, p["name"], lst, "vocab", v))
                elif kind["k"] == "ref":
                    for tt in m.ref_targets(kind):
                        out.append((ver, t, p["name"], lst, "ref", tt))
    return out


VOCAB = vocab_slots()


def wl_vocab(ctx, rng, i):
    ver, t, prop, lst, what, v = VOCAB[i]
    g = ObjGen(rng, ver, hostile=False, ts_max_digits=6)
    o = g.make(t, ("only", [prop]), granular=False)
    if t == "marking-definition" and prop not in o:
        o = g.make(t, ("only", [prop]), granular=False)
    if prop not in o:
        ctx.skip("slot not populated by generator (co-constraint)")
        return
    val = v if what == "vocab" else g.new_id(v)
    o[prop] = [val] if lst else val
    # keep co-constraints intact for the few slots they touch
    if t == "indicator" and prop == "pattern_type" and v != "stix":
        o["pattern"] = "rule example { condition: true }"
        o.pop("pattern_version", None)
    judge(ctx, o, ver, tags=(what + "-enumeration",))
    ctx.count(what + "_slots")


def boundary_slots():
    out = []
    for ver in VERSIONS:
        m = M.model(ver)

        def walk(sec, t, d, host):
            for p in d["props"]:
                k = p["k"]
                if k in ("int", "float", "bool", "string") and p["name"] not in ("spec_version",):
                    out.append((ver, sec, t, p["name"], host))
        for t, d in sorted(m.types.items()):
            if d["cat"] == "sco" and ver == "2.0":
                continue
            walk("types", t, d, None)
    return out


BOUNDARY = boundary_slots()
# properties whose value is unconstrained free text, where the empty string is a legal value
FREE_TEXT = {"name", "description", "content", "abstract", "explanation", "objective", "contact_information", "subject", "body",
             "result_name", "display_name", "cwd", "command_line", "comment", "tool_version", "street_address", "city", "statement"}


def wl_boundary(ctx, rng, i):
    """false / 0 / '' / range ends in every scalar slot, with a granular marking addressing that very slot."""
    ver, sec, t, prop, host = BOUNDARY[i]
    m = M.model(ver)
    kind = m.types[t]["by_name"][prop]
    g = ObjGen(rng, ver, hostile=False, ts_max_digits=6)
    k = kind["k"]
    if k == "int":
        vals = [kind.get("min", 0), kind.get("max", 2 ** 53 - 1), 0 if kind.get("min", 0) <= 0 else kind["min"]]
    elif k == "float":
        vals = [kind.get("min", 0.0), kind.get("max", 1e300), 0.0 if kind.get("min", 0.0) <= 0.0 <= kind.get("max", 0.0) else kind.get("min", 0.0)]
    elif k == "bool":
        vals = [False, True]
    else:
        if prop not in FREE_TEXT:
            ctx.skip("string slot with constrained content: no boundary value certain to be valid")
            return
        vals = ["", "0"]
    for v in vals:
        o = g.make(t, ("only", [prop]), granular=False)
        if prop not in o:
            ctx.skip("slot not populated by generator (co-constraint)")
            continue
        o[prop] = v
        if t == "malware" and prop == "is_family" and v is True:
            o["name"] = "fam"
        if t == "email-message" and prop == "is_multipart":
            o.pop("body", None)
            o.pop("body_multipart", None)
        if validator.validate(o, ver):
            ctx.skip("boundary value outside a co-constraint")
            continue
        judge(ctx, o, ver, tags=("boundary-value",))
        if m.can_carry_granular(t) and pathor.fits_syntax((prop,)):
            o2 = dict(o)
            o2["granular_markings"] = [{"marking_ref": M.TLP["green"] if o.get("id") != M.TLP["green"] else M.TLP["red"], "selectors": [prop]}]
            judge(ctx, o2, ver, embedding="plain", tags=("selector-on-boundary-value",))
            if v in (False, 0, "", 0.0):
                ctx.count("selector_on_falsy_value")


def wl_nested_boundary(ctx, rng, i):
    """false / 0 / '' / range ends in the scalar slots of embedded objects, extensions, marking definitions, bundle members and
    observed-data elements (the top-level slots are wl_boundary's)."""
    import copy
    from ..gen import corrupt
    ver, t = TYPES[i % len(TYPES)]
    g = ObjGen(rng, ver, hostile=False, ts_max_digits=6)
    o = g.make(t, "max" if (i // len(TYPES)) % 2 == 0 else "random", granular=False)
    if t != "bundle" and rng.random() < 0.3:
        o = g.bundle(members=[o])
    if validator.validate(o, ver):
        ctx.skip("generator error")
        return
    try:
        sl, _ = corrupt.slots(ver, o)
    except Exception:
        return
    n = 0
    for s_ in sl:
        if s_.section in ("top", "element") or n >= 25:
            continue
        k = s_.kind["k"]
        name = s_.path[-1]
        if k == "int":
            vals = [s_.kind.get("min", 0), s_.kind.get("max", 2 ** 53 - 1), 0]
        elif k == "float":
            vals = [s_.kind.get("min", 0.0), 0.0]
        elif k == "bool":
            vals = [False, True]
        elif k == "string" and name in FREE_TEXT:
            vals = ["", "0"]
        else:
            continue
        for v in vals:
            oo = copy.deepcopy(o)
            corrupt.setp(oo, s_.path, v)
            if validator.validate(oo, ver):
                continue
            judge(ctx, oo, ver, embedding="nested-boundary:" + s_.section.split(":")[0], tags=("nested-boundary-value",))
            ctx.count("nested_boundary_values")
            if v in (False, 0, "", 0.0):
                ctx.count("nested_falsy_values")
            n += 1


def sco20_slots():
    m = M.model("2.0")
    out = []
    for t in m.types_of_class("SCO"):
        for prof in ("min", "max", "random", "random"):
            out.append((t, None, prof))
        for e in M.EXT_HOSTS.get(t, []):
            for prof in ("min", "max", "random"):
                out.append((t, e, prof))
    return out


SCO20 = sco20_slots()


def wl_sco20(ctx, rng, i):
    """2.0 observables and their predefined extensions, which only exist as observed-data elements"""
    t, ext, prof = SCO20[i % len(SCO20)]
    g = gen_for(rng, "2.0", i)
    od = g.make("observed-data", "min", granular=False)
    cont = {}
    cont["0"] = {"type": t}
    cont["0"] = g.sco20(t, "min-noref" if prof == "min" else prof, cont)
    if ext:
        cont["0"]["extensions"] = {ext: g.fill(g.m.extensions[ext], ext, prof, 1, cont)}
    od["objects"] = cont
    judge(ctx, od, "2.0", embedding="observed-data-element", tags=("sco-2.0:" + t + (("+" + ext) if ext else ""),))
    ctx.see("2.0 observables", t + (("+" + ext) if ext else ""))


def setup(ctx):
    # history: registrations the library refuses (taken names, in either 2.1 category) come before the content is judged
    from ..gen import custom as gcustom
    ctx.count("refused_registrations_before_the_workload", gcustom.refused_registrations())
    ctx.count("refused_registrations_that_left_something_behind", len(gcustom.LEFT_BEHIND))


# pure by their documentation: a sample of the calls is repeated in a fresh interpreter, in reverse order (stixmon/echo.py)
ECHO = ['stix2.parsing:parse']
WORKLOADS = [
    Workload("sco20", wl_sco20, quick=lambda: len(SCO20) * 2, thorough=lambda: len(SCO20) * 600),
    Workload("profiles", wl_profiles, quick=lambda: len(TYPES) * 32, thorough=lambda: len(TYPES) * 6000),
    Workload("pairs", wl_pairs, quick=lambda: len(PAIRS), thorough=lambda: len(PAIRS) * 40),
    Workload("vocab", wl_vocab, quick=lambda: len(VOCAB), thorough=lambda: len(VOCAB), exhaustive=True),
    Workload("nested-boundary", wl_nested_boundary, quick=lambda: len(TYPES), thorough=lambda: len(TYPES) * 30),
    Workload("boundary", wl_boundary, quick=lambda: len(BOUNDARY), thorough=lambda: len(BOUNDARY), exhaustive=True),
]


def floors(m, tier):
    c = m["counters"]
    out = []
    seen = m["seen"].get("accepted types", set())
    missing = [("%s:%s" % vt) for vt in TYPES if ("%s:%s" % vt) not in seen]
    if missing:
        out.append("types never accepted: %s" % ", ".join(missing[:8]))
    if c.get("accepted", 0) < 2000:
        out.append("fewer than 2000 accepted objects compared (%d)" % c.get("accepted", 0))
    if c.get("generator_errors", 0) > c.get("accepted", 0) // 20 + 5:
        out.append("too many generator errors (%d)" % c.get("generator_errors", 0))
    return out


MANIFEST = {
    "text": ("Thousands (quick) to hundreds of thousands (thorough) of specification-valid objects, generated from a frozen, "
             "hand-audited model rather than from the library's tables, are parsed in strict mode and compared property by "
             "property with what the library writes back; vocabulary entries, reference targets and falsy/boundary values are "
             "enumerated completely.  Held means: no generated valid object was refused or altered; it is not a proof over all inputs. Echo monitor: a sample of the parse calls (class and sorted serialisation, random UUIDv4s blanked) is repeated in a fresh interpreter in reverse order and must answer alike; 44 refused registrations precede the workload."),
    "note": "trusts the frozen specification model and the independent validator that pre-screens generated inputs; sub-microsecond digits compared after truncation",
    "technique": "runtime monitoring: model-driven valid-input generation + differential comparison oracle on parse/serialize events; echo monitor (pure calls repeated in a fresh interpreter)",
}
