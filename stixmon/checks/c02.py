"""C02 -- whatever the library emits in strict mode is valid STIX.

Events: input -> raised E | object -> text for parse(json_text), parse(dict) and cls(**kwargs),
always allow_custom=False.
Oracle: if the call returns, json.loads(obj.serialize()) must pass the independent validator
driven by the frozen specification model.  A raise is fine here (C17 judges its class).
"""
import json
import warnings

from ..ctx import Workload
from ..gen import corrupt, prime
from ..gen.objects import ObjGen
from ..oracles import validator
from ..spec import model as M

ID = "C02"
LEVEL = "fault_enumeration"
SHARDS = {"quick": 8, "thorough": 16}
RULE = ("valid base objects (must validate) and the complete enumeration of (slot, corruption kind) single-point faults on each "
        "base -- 17 wrong-JSON-kind replacements per slot, kind-specific faults (range ends +-1, out-of-vocabulary, disallowed "
        "reference target, 20 malformed identifier spellings, 15 malformed timestamps, hex/base64/hash/dictionary-key faults), "
        "removal of each required property, unknown/custom property in every (nested) object, every co-constraint broken -- at top "
        "level and inside every embedded object, extension and container; thorough adds two-point faults.  "
        "Non-trivial: every fault; distinct = distinct (version, type, section, property kind, fault, route)")
ASSUMPTIONS = [
    "the frozen specification model (stixmon/spec) is a correct subset of the STIX rules; rules it does not state (language tags, MIME types, CPE syntax, relationship_type charset, 54-bit integer range ...) are not judged",
    "STIX patterns are judged by the third-party stix2patterns validator, which is not part of the repository",
    "a custom_properties keyword given to a constructor is the caller's documented request for custom content; as a key of parsed or nested content it is content",
]
VERSIONS = ["2.0", "2.1"]


def types():
    out = []
    for ver in VERSIONS:
        for t in ObjGen(None, ver).creatable_types():
            out.append((ver, t))
    return out


TYPES = types()


def bases():
    """TYPES plus one observed-data base per 2.0 observable type and per (type, predefined extension)"""
    out = list(TYPES)
    m = M.model("2.0")
    for t in m.types_of_class("SCO"):
        out.append(("2.0", "observed-data:" + t))
        for e in M.EXT_HOSTS.get(t, []):
            out.append(("2.0", "observed-data:%s+%s" % (t, e)))
    return out


BASES = bases()


def make_base(g, ver, name, prof, granular=True):
    """(type name, object) for a base name of BASES"""
    if ":" not in name:
        return name, g.make(name, prof, granular=granular)
    sco = name.split(":", 1)[1]
    ext = None
    if "+" in sco:
        sco, ext = sco.split("+", 1)
    od = g.make("observed-data", "min" if prof == "min" else "random", granular=False)
    cont = {"0": {"type": sco}}
    cont["0"] = g.sco20(sco, "min-noref" if prof == "min" else prof, cont)
    if ext:
        cont["0"]["extensions"] = {ext: g.fill(g.m.extensions[ext], ext, prof, 1, cont)}
    od["objects"] = cont
    return "observed-data", od
PROFILES_Q = ["max", "min"]
PROFILES_T = ["max", "min", "random", "random", "random", "random", "max", "random"]


def cls_for(version, t):
    from stix2 import registry
    return registry.class_for_type(t, version, "objects") or registry.class_for_type(t, version, "observables")


def offending(out, path):
    cur = out
    if not path:
        return cur
    for seg in path.split("."):
        try:
            if seg.startswith("[") and seg.endswith("]"):
                cur = cur[int(seg[1:-1])]
            else:
                cur = cur[seg]
        except Exception:
            return None
    return cur


def classify(issue, out):
    key, path, msg = issue
    v = offending(out, path)
    last = path.split(".")[-1] if path else ""
    if key == "base64-form" and isinstance(v, str):
        import base64
        import binascii
        try:
            base64.b64decode(v)          # lenient decoding succeeds: characters outside the alphabet were ignored
            return "base64-non-alphabet-ignored"
        except (binascii.Error, ValueError):
            pass
    if key in ("hex-form", "hash-value-form", "dictionary-key-charset", "out-of-vocabulary", "fixed-value", "selector-syntax"):
        probe = v if key != "dictionary-key-charset" else last
        if isinstance(probe, str) and probe.endswith("\n") and "\n" not in probe[:-1]:
            return "regex-dollar-newline:" + key
    if key == "out-of-range" and last == "confidence":
        return "confidence-range"
    if key.startswith("co-constraint:order:created-modified"):
        return "modified-before-created"
    if key == "non-finite-number":
        return "non-finite-number-emitted"
    if key == "socket-option-value" and isinstance(v, bool):
        return "socket-option-bool"
    if key == "co-constraint:requires" and "decryption_key" in msg:
        return "artifact-key-without-algorithm"
    if key.endswith(":in-dictionary-value"):
        return "dictionary-values-unvalidated"
    if key in ("object-ref-dangling", "object-ref-type") and len([x for x in path.split(".") if not x.startswith("[")]) > 3:
        return "object-ref-nested-unchecked"
    if last.startswith("extension-definition--") and key in ("wrong-json-kind", "empty-dictionary", "null-value", "null"):
        return "unregistered-extension-value-unchecked"
    if key == "reference-type-disallowed" and isinstance(v, str) and v.startswith("extension-definition--"):
        return "extension-definition-counted-as-sdo"
    if key == "empty-dictionary" and last == "extensions":
        return "empty-extensions-dictionary"
    if key in ("empty-dictionary",) and path:
        return "empty-embedded-object"
    if key == "co-constraint:some-property":
        return "empty-embedded-object"
    return key


def run_route(route, ver, t, o):
    import stix2
    with warnings.catch_warnings():
        warnings.simplefilter("ignore")
        if route == "parse-text":
            return stix2.parse(json.dumps(o), allow_custom=False, version=ver)
        if route == "parse-dict":
            return stix2.parse(o, allow_custom=False, version=ver)
        cls = cls_for(ver, t)
        return cls(allow_custom=False, **o)


def lenient_history(ver, t, o):
    """Histories matter: the same (faulted) input is first used with customisation allowed -- through parse and the
    constructor -- so that anything the library remembers from a lenient call is in place when the strict call comes."""
    import stix2
    for fn in (lambda: stix2.parse(json.loads(json.dumps(o)), allow_custom=True, version=ver),
               lambda: cls_for(ver, t)(allow_custom=True, **json.loads(json.dumps(o)))):
        try:
            with warnings.catch_warnings():
                warnings.simplefilter("ignore")
                fn()
        except Exception:
            pass


def judge(ctx, ver, t, o, label, where, routes, is_base=False, history=False):
    if history:
        try:
            # its literal values were first seen in the other spec version / other precision contexts ...
            ctx.count("priming_calls", prime.prime(o))
            lenient_history(ver, t, o)
            ctx.count("lenient_histories")
        except Exception:
            pass
    for route in routes:
        ctx.ev()
        try:
            obj = run_route(route, ver, t, o)
        except Exception as e:
            ctx.count("rejected")
            if is_base:
                # acceptance of valid input is C03's subject; note it so a tree that refuses everything is inconclusive here
                ctx.count("valid_base_refused")
            continue
        try:
            with warnings.catch_warnings():
                warnings.simplefilter("ignore")
                text = obj.serialize() if hasattr(obj, "serialize") else json.dumps(obj)
        except Exception as e:
            ctx.count("accepted_but_unserializable")
            continue
        try:
            out = json.loads(text)
        except Exception:
            ctx.violation("output-not-json", "serialized text is not JSON", {"input": o, "fault": label, "text": text[:2000]})
            continue
        if not isinstance(obj, dict):
            ctx.count("accepted_outputs_validated")
        issues = validator.validate(out, ver)
        # NaN / Infinity survive json.loads in Python; flag them explicitly
        if "NaN" in text or "Infinity" in text:
            try:
                json.loads(text, parse_constant=lambda c: (_ for _ in ()).throw(ValueError(c)))
            except ValueError:
                issues = issues + [("non-finite-number", where, "NaN/Infinity in output")]
        if not issues:
            if not is_base:
                ctx.count("normalised_or_harmless")
            continue
        seen = set()
        for iss in issues:
            key = classify(iss, out)
            if key in seen:
                continue
            seen.add(key)
            ctx.violation(key, "%s %s emitted invalid output after fault %s at %s (%s): %s at %s: %s" % (
                ver, t, label, where, route, iss[0], iss[1], iss[2][:160]),
                {"version": ver, "type": t, "route": route, "fault": label, "fault_location": where, "input": o,
                 "output": out, "issues": issues[:4]})


def wl_bases(ctx, rng, i):
    ver, bname = BASES[i % len(BASES)]
    rnd = i // len(BASES)
    prof = (PROFILES_T if ctx.tier == "thorough" else PROFILES_Q)[rnd % 8 if ctx.tier == "thorough" else rnd % 2]
    g = ObjGen(rng, ver, hostile=(rnd % 3 == 2), ts_max_digits=6, openvocab_custom=False)
    t, o = make_base(g, ver, bname, prof, granular=(prof != "min"))
    if "granular_markings" in o:
        g2 = ObjGen(rng, ver, hostile=False)
        o.pop("granular_markings")
        g2.add_granular_markings(o, safe_only=True)
    if validator.validate(o, ver):
        ctx.skip("generator error: base does not validate")
        ctx.count("generator_errors")
        return
    all_routes = ["parse-text", "parse-dict", "constructor"]
    judge(ctx, ver, t, o, "none (valid base)", "", all_routes, is_base=True)
    ctx.see("base types", "%s:%s" % (ver, bname))
    # identifiers this process has accepted before, under ANOTHER reading: as the id of an object of another type; in a 2.1 object
    # with a UUID of another version, now in 2.0 content.  What made them acceptable there does not here
    seen = ctx.state.setdefault("accepted_ids", [])
    if isinstance(o.get("id"), str) and t != "bundle":
        import copy as _copy
        for v2, t2, id2 in rng.sample(seen, min(3, len(seen))):
            if t2 != t:
                judge(ctx, ver, t, dict(_copy.deepcopy(o), id=id2), "top|id|identifier-accepted-before-for-another-type", "id", ["parse-text", "constructor"])
                ctx.count("identifiers_met_again_under_another_reading")
        if ver == "2.0" and t in M.model("2.1").types and M.model("2.1").types[t].get("cat") != "sco":
            u1 = t + "--" + "d83fce45-ef58-1c6c-a3f4-" + "%012x" % rng.randrange(16 ** 12)
            try:
                import stix2
                g21 = ObjGen(rng, "2.1", hostile=False)
                o21 = g21.make(t, "min", granular=False)
                o21["id"] = u1
                with warnings.catch_warnings():
                    warnings.simplefilter("ignore")
                    stix2.parse(json.dumps(o21), version="2.1")          # valid 2.1 content: a version-1 UUID is acceptable there
                ctx.count("non_v4_identifiers_accepted_as_2.1_first")
            except Exception:
                pass
            judge(ctx, ver, t, dict(_copy.deepcopy(o), id=u1), "top|id|uuid:version-1-accepted-as-2.1-before", "id", ["parse-text", "constructor"])
            ctx.count("identifiers_met_again_under_another_reading")
        seen.append((ver, t, o["id"]))
        if len(seen) > 40:
            del seen[0]
    n = 0
    two = rng if ctx.tier == "thorough" else None
    for label, where, oo in corrupt.corruptions(ver, o, two):
        n += 1
        parts = label.split("|")
        generic = len(parts) > 2 and parts[2].startswith("kind:")
        routes = ["parse-text"] if (generic and ctx.tier == "quick") else all_routes
        if "constructor-argument:" in label and where == "":
            # as a keyword argument of the constructor itself, custom_properties is the documented way to ask for custom content
            routes = [r for r in routes if r != "constructor"]
        judge(ctx, ver, t, oo, label, where, routes, history=(not generic and n % 2 == 0))
        ctx.nontrivial(ver, t, label)
        ctx.see("fault kinds", parts[-1] if not generic else "wrong-json-kind")
        ctx.count("faults")
    if ctx.want_sample() and n:
        ex = next(iter(corrupt.corruptions(ver, o)))
        ctx.sample({"version": ver, "base": o, "faults_applied": n, "first_fault": {"label": ex[0], "where": ex[1]}})


def fuzz_value(rng, depth=0):
    r = rng.random()
    if depth > 3 or r < 0.5:
        return rng.choice(corrupt.JUNK + ["2020-01-01T00:00:00Z", "identity--d83fce45-ef58-4c6c-a3f4-1fbc32e98c6e", 5, "a"])
    if r < 0.75:
        return [fuzz_value(rng, depth + 1) for _ in range(rng.randrange(0, 3))]
    return {rng.choice(["type", "id", "name", "a", "extensions", "objects"]): fuzz_value(rng, depth + 1) for _ in range(rng.randrange(0, 3))}


def wl_nearvalid(ctx, rng, i):
    """near-valid fuzz: a valid object with 2-4 random slots replaced by kind-specific faults or junk"""
    ver, t = TYPES[rng.randrange(len(TYPES))]
    g = ObjGen(rng, ver, hostile=True, ts_max_digits=6, openvocab_custom=False)
    o = g.make(t, "random", granular=False)
    if validator.validate(o, ver):
        ctx.skip("generator error: base does not validate")
        return
    sl, objects = corrupt.slots(ver, o)
    m = M.model(ver)
    import copy
    for _ in range(12):
        oo = copy.deepcopy(o)
        labs = []
        for s in rng.sample(sl, min(len(sl), rng.choice([2, 3, 4]))):
            try:
                v = corrupt.get(oo, s.path)
            except Exception:
                continue
            try:
                cands = corrupt.kind_specific(ver, s, v, m)      # written for valid current values; v may sit under an earlier fault
            except Exception:
                cands = []
            if cands and rng.random() < 0.7:
                lab, nv = rng.choice(cands)
            else:
                lab, nv = "fuzz", fuzz_value(rng)
            try:
                corrupt.setp(oo, s.path, nv)
                labs.append("%s@%s" % (lab, ".".join(map(str, s.path))))
            except Exception:
                pass
        judge(ctx, ver, t, oo, "multi:" + "+".join(labs), "", ["parse-text", "constructor"])
        ctx.count("faults")
        ctx.nontrivial(ver, t, labs)


def ts_slots():
    out = []
    for ver in VERSIONS:
        m = M.model(ver)
        for t, d in sorted(m.types.items()):
            if d["cat"] == "sco" and ver == "2.0":
                continue
            for p in d["props"]:
                if p["k"] == "ts":
                    out.append((ver, t, p["name"]))
    return out


TS_SLOTS = ts_slots()


def wl_native_timestamps(ctx, rng, i):
    """Python-native timestamp values with foreign precision metadata: STIXdatetime objects taken from objects of the other
    spec version or built directly with every precision/constraint combination, plain datetimes in odd offsets, dates --
    handed to strict constructors.  Whatever is emitted must carry the digits the receiving property requires."""
    import datetime as dt
    import stix2
    import stix2.utils as U
    ver, t, prop = TS_SLOTS[i % len(TS_SLOTS)]
    g = ObjGen(rng, ver, hostile=False, ts_max_digits=6, openvocab_custom=False, extensions=False)
    o = g.make(t, ("only", [prop]), granular=False)
    if prop not in o or validator.validate(o, ver):
        ctx.skip("slot not populated")
        return
    cls = cls_for(ver, t)
    from ..oracles import ts as tsor
    base_us = tsor.text_us(o[prop])
    naive = dt.datetime(1, 1, 1) + dt.timedelta(microseconds=base_us - base_us % 1000000)
    variants = []
    for us in (0, 1, 100000, 123000, 123456, 999999):
        d = naive.replace(microsecond=us, tzinfo=dt.timezone.utc)
        for p in ("any", "second", "millisecond"):
            for c in ("exact", "min"):
                variants.append(("STIXdatetime(%s/%s,us=%d)" % (p, c, us), U.STIXdatetime(d, precision=p, precision_constraint=c)))
        variants.append(("datetime(us=%d,+05:45)" % us, d.astimezone(dt.timezone(dt.timedelta(minutes=345)))))
    # a timestamp object lifted from an object of the other spec version
    other = stix2.v21.Identity(name="n", created="2020-01-01T00:00:00.123456Z", modified="2020-01-01T00:00:00.123456Z") if ver == "2.0" else \
        stix2.v20.Identity(name="n", identity_class="individual", created="2020-01-01T00:00:00.123Z", modified="2020-01-01T00:00:00.123Z")
    variants.append(("created of a %s object" % ("2.1" if ver == "2.0" else "2.0"), other["created"]))
    for label, val in variants:
        kw = dict(o)
        kw[prop] = val
        # keep ordered pairs ordered: give the partner the same value
        for c in M.model(ver).types[t]["constraints"]:
            if c[0] in ("le", "lt") and prop in c[1:]:
                kw.pop(c[2] if c[1] == prop else c[1], None) if False else None
        ctx.ev()
        ctx.count("native_timestamp_cases")
        try:
            with warnings.catch_warnings():
                warnings.simplefilter("ignore")
                obj = cls(allow_custom=False, **kw)
                out = json.loads(obj.serialize())
        except Exception:
            ctx.count("rejected")
            continue
        ctx.count("accepted_outputs_validated")
        issues = [x for x in validator.validate(out, ver) if x[0] in ("timestamp-form", "timestamp-digits")]
        ctx.nontrivial(ver, t, prop, label.split("(")[0])
        if issues:
            ctx.violation(classify(issues[0], out), "%s %s.%s given %s emitted %r: %s" % (ver, t, prop, label, out.get(prop), issues[0][2][:120]),
                          {"version": ver, "type": t, "property": prop, "value_given": label, "output": out, "issues": issues[:3]})


def wl_native_refs(ctx, rng, i):
    """References given as library objects (not id strings) whose identifier is not valid for the referencing object's spec
    version: an object of the other version, with a UUID of a version that 2.0 does not admit."""
    import stix2
    refbases = [b for b in BASES if b[0] == "2.0"]
    ver, bname = refbases[i % len(refbases)]
    g = ObjGen(rng, ver, hostile=False, ts_max_digits=3, openvocab_custom=False)
    t, o = make_base(g, ver, bname, "max", granular=False)
    if validator.validate(o, ver):
        ctx.skip("generator error")
        return
    cls = cls_for(ver, t)
    sl, _ = corrupt.slots(ver, o)
    refs = [s_ for s_ in sl if s_.kind["k"] == "ref" and isinstance(corrupt.get(o, s_.path), str) and s_.section in ("top", "element") and "observable" not in s_.section]
    import copy
    for s_ in refs[:6]:
        cur = corrupt.get(o, s_.path)
        rt = cur.split("--")[0]
        u1 = "d83fce45-ef58-1c6c-a3f4-1fbc32e98c%02x" % rng.randrange(256)        # UUID version 1: fine in 2.1, not in 2.0
        try:
            with warnings.catch_warnings():
                warnings.simplefilter("ignore")
                rcls = stix2.registry.class_for_type(rt, "2.1", "objects") or stix2.registry.class_for_type(rt, "2.1", "observables")
                g21 = ObjGen(rng, "2.1", hostile=False, ts_max_digits=3, openvocab_custom=False)
                tj = g21.make(rt, "min", granular=False)
                tj["id"] = "%s--%s" % (rt, u1)
                target = rcls(**tj)
        except Exception:
            continue
        kw = copy.deepcopy(o)
        corrupt.setp(kw, s_.path, target)
        ctx.ev()
        ctx.count("native_reference_cases")
        try:
            with warnings.catch_warnings():
                warnings.simplefilter("ignore")
                obj = cls(allow_custom=False, **kw)
                out = json.loads(obj.serialize())
        except Exception:
            ctx.count("rejected")
            continue
        ctx.count("accepted_outputs_validated")
        ctx.nontrivial(ver, t, ".".join(map(str, s_.path)), "reference-as-object")
        issues = validator.validate(out, ver)
        if issues:
            ctx.violation(classify(issues[0], out), "%s %s.%s given a 2.1 %s object with a version-1 UUID emitted %r: %s" % (
                ver, t, ".".join(map(str, s_.path)), rt, corrupt.get(out, s_.path) if True else None, issues[0][2][:120]),
                {"version": ver, "type": t, "property": ".".join(map(str, s_.path)), "reference_given_as": "%s object of 2.1 with id %s" % (rt, target["id"]), "output": out, "issues": issues[:3]})


def wl_interop_ids(ctx, rng, i):
    """interoperability=True relaxes which UUIDs an identifier may carry -- not the form of an identifier: whatever is accepted is
    still <type>--<36 characters of hex digits and hyphens> and nothing else."""
    import re
    import stix2
    ver = VERSIONS[i % 2]
    t = ["identity", "malware", "relationship", "indicator"][(i // 2) % 4]
    g = ObjGen(rng, ver, hostile=False, ts_max_digits=6, openvocab_custom=False)
    o = g.make(t, "random", granular=False)
    u = o["id"].split("--", 1)[1]
    slot = rng.choice([k for k in o if k == "id" or (k.endswith("_ref") and isinstance(o[k], str))])
    tt = o[slot].split("--", 1)[0]
    name, f = rng.choice(corrupt.BAD_UUIDS + [("nil-uuid", lambda x: "00000000-0000-0000-0000-000000000000"), ("version-1", lambda x: x[:14] + "1" + x[15:]),
                                              ("trailing-newline-after-version-1", lambda x: x[:14] + "1" + x[15:] + "\n"), ("trailing-space", lambda x: x + " "),
                                              ("prefix-junk", lambda x: "junk" + x)])
    oo = dict(o)
    oo[slot] = tt + "--" + f(u)
    for route, fn in (("parse-text", lambda: stix2.parse(json.dumps(oo), interoperability=True, version=ver)), ("constructor", lambda: cls_for(ver, t)(interoperability=True, **oo))):
        ctx.ev()
        ctx.count("interoperability_id_faults")
        ctx.nontrivial("interop", ver, t, slot, name, route)
        try:
            with warnings.catch_warnings():
                warnings.simplefilter("ignore")
                out = json.loads(fn().serialize())
        except Exception:
            ctx.count("rejected")
            continue
        if not re.match(r"\A[a-z0-9-]+--[0-9a-fA-F]{8}-[0-9a-fA-F]{4}-[0-9a-fA-F]{4}-[0-9a-fA-F]{4}-[0-9a-fA-F]{12}\Z", str(out.get(slot))):
            ctx.violation("id-form:interoperability-mode", "%s %s emitted %s = %r with interoperability=True (%s, %s)" % (ver, t, slot, out.get(slot), name, route),
                          {"version": ver, "type": t, "route": route, "fault": name, "input": oo, "output": out})
        else:
            ctx.count("normalised_or_harmless")


def setup(ctx):
    # history: registrations the library refuses (taken names, in either 2.1 category) come before the content is judged
    from ..gen import custom as gcustom
    ctx.count("refused_registrations_before_the_workload", gcustom.refused_registrations())
    ctx.count("refused_registrations_that_left_something_behind", len(gcustom.LEFT_BEHIND))


WORKLOADS = [
    Workload("interoperability-ids", wl_interop_ids, quick=120, thorough=6000),
    Workload("native-references", wl_native_refs, quick=lambda: len([b for b in BASES if b[0] == "2.0"]), thorough=lambda: len([b for b in BASES if b[0] == "2.0"]) * 6),
    Workload("native-timestamps", wl_native_timestamps, quick=lambda: len(TS_SLOTS), thorough=lambda: len(TS_SLOTS) * 20),
    Workload("bases", wl_bases, quick=lambda: len(BASES) * 2, thorough=lambda: len(BASES) * 16, exhaustive=True),
    Workload("nearvalid", wl_nearvalid, quick=300, thorough=80000),
]


def floors(m, tier):
    c = m["counters"]
    out = []
    if c.get("accepted_outputs_validated", 0) < 2000:
        out.append("fewer than 2000 accepted outputs validated (%d)" % c.get("accepted_outputs_validated", 0))
    if c.get("faults", 0) < 5000:
        out.append("fewer than 5000 faults injected (%d)" % c.get("faults", 0))
    if c.get("valid_base_refused", 0) > 0.5 * max(1, len(m["seen"].get("base types", ()))) * 3:
        out.append("most valid bases were refused (%d refusals): nothing to validate" % c.get("valid_base_refused", 0))
    missing = [("%s:%s" % vt) for vt in BASES if ("%s:%s" % vt) not in m["seen"].get("base types", set())]
    if missing:
        out.append("types without a base: %s" % ", ".join(missing[:6]))
    return out


MANIFEST = {
    "text": ("Fault enumeration: for a minimal and a maximal valid object of every type of both versions (8 bases per type in the "
             "thorough tier) every (slot, corruption kind) single-point fault is injected through three strict entry points; "
             "whenever the library returns an object instead of raising, its serialisation is checked by an independent validator "
             "built on a frozen, hand-audited specification model.  Complete over the fault alphabet for the explored bases; "
             "near-valid multi-point fuzz adds breadth."),
    "note": "trusts the frozen model + validator (stixmon/spec, stixmon/oracles/validator.py) and, for patterns, the third-party stix2patterns validator",
    "technique": "runtime monitoring with systematic input-fault injection: independent validator as output oracle",
}
