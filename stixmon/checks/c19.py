"""C19 -- custom type registration is exact, exclusive and version-scoped.

Events: histories of registrations through the four decorators (unique generated names so one process can hold many
histories), interleaved with parse and registry lookups.
Oracle: dict model per (version, kind): a fresh valid name registers and parses to exactly that class for exactly that
version; a taken name is refused and the existing class identity is intact; names violating the naming rules are refused.
"""
import json
import warnings

from ..ctx import Workload
from ..gen import values as V
from ..oracles import compare

ID = "C19"
LEVEL = "exploration"
SHARDS = {"quick": 2, "thorough": 8}
RULE = ("registration histories of ~10 steps: fresh valid names for each of the four kinds (object, observable, marking, "
        "extension) x both versions, duplicates of custom and built-in names, the same name in the other version, invalid type "
        "names (charset, length 3-250, leading letter in 2.1, trailing newline) and invalid property names (charset [a-z0-9_], "
        "length 3-250), interleaved with strict/lenient parsing under both versions and registry lookups.  "
        "Non-trivial: every step; distinct = distinct (kind, version, step kind, name class, outcome)")
ASSUMPTIONS = [
    "naming rules taken as certain: type names [a-z0-9-], 3-250 characters, leading letter in 2.1, 2.1 extension names end in -ext; custom property names [a-z0-9_], 3-250 characters",
    "registering a name held by a type of a *different* category (e.g. an observable named like a custom object) is outside the deciding set",
    "registrations cannot be undone, so every history uses names unique to its case",
]
KINDS = ["object", "observable", "marking", "extension"]
VERS = ["2.0", "2.1"]
BUILTIN = {"object": "identity", "observable": "file", "marking": "tlp", "extension": "archive-ext"}
CATEGORY = {"object": "objects", "observable": "observables", "marking": "markings", "extension": "extensions"}


def family():
    from stix2.exceptions import STIXError
    return (STIXError, ValueError, TypeError)


def decorator(kind, ver):
    import stix2
    mod = stix2.v20 if ver == "2.0" else stix2.v21
    return {"object": mod.CustomObject, "observable": mod.CustomObservable, "marking": mod.CustomMarking, "extension": mod.CustomExtension}[kind]


def props_for(kind, ver, names=("prop_one", "prop_two"), second=None):
    from stix2 import properties as P
    return [(names[0], P.StringProperty(required=True)), (names[1], second() if second else P.IntegerProperty())]


def property_classes(ver):
    """the classes a (badly named) property may be declared with: the naming rules are about the name"""
    from stix2 import properties as P
    return [("IntegerProperty", P.IntegerProperty), ("StringProperty", P.StringProperty), ("IDProperty", lambda: P.IDProperty("x-any", spec_version=ver)),
            ("TimestampProperty", P.TimestampProperty), ("ListProperty", lambda: P.ListProperty(P.StringProperty)), ("BooleanProperty", P.BooleanProperty),
            ("DictionaryProperty", lambda: P.DictionaryProperty(spec_version=ver)), ("HashesProperty", lambda: P.HashesProperty(["MD5"], spec_version=ver))]


def register(kind, ver, name, prop_names=("prop_one", "prop_two"), second=None):
    dec = decorator(kind, ver)

    class Body(object):
        pass
    Body.__name__ = "C19_" + "".join(c if c.isalnum() else "_" for c in name)[:40]
    with warnings.catch_warnings():
        warnings.simplefilter("ignore")
        return dec(name, props_for(kind, ver, prop_names, second))(Body)


def instance(kind, ver, name, rng):
    """(input for parse, function extracting the object whose class must be the registered one)"""
    u = V.uuid_text(rng, 4)
    ts = "2020-01-01T00:00:00.000Z"
    if kind == "object":
        d = {"type": name, "id": "%s--%s" % (name, u), "created": ts, "modified": ts, "prop_one": "v", "prop_two": 2}
        if ver == "2.1":
            d["spec_version"] = "2.1"
        return d, (lambda o: o)
    if kind == "observable":
        if ver == "2.1":
            return {"type": name, "spec_version": "2.1", "id": "%s--%s" % (name, u), "prop_one": "v"}, (lambda o: o)
        d = {"type": "observed-data", "id": "observed-data--" + u, "created": ts, "modified": ts, "first_observed": ts, "last_observed": ts,
             "number_observed": 1, "objects": {"0": {"type": name, "prop_one": "v"}}}
        return d, (lambda o: o["objects"]["0"])
    if kind == "marking":
        d = {"type": "marking-definition", "id": "marking-definition--" + u, "created": ts, "definition_type": name, "definition": {"prop_one": "v"}}
        if ver == "2.1":
            d["spec_version"] = "2.1"
        return d, (lambda o: o["definition"])
    if ver == "2.1":
        d = {"type": "file", "spec_version": "2.1", "id": "file--" + u, "name": "f", "extensions": {name: {"prop_one": "v"}}}
        return d, (lambda o: o["extensions"][name])
    d = {"type": "observed-data", "id": "observed-data--" + u, "created": ts, "modified": ts, "first_observed": ts, "last_observed": ts,
         "number_observed": 1, "objects": {"0": {"type": "file", "name": "f", "extensions": {name: {"prop_one": "v"}}}}}
    return d, (lambda o: o["objects"]["0"]["extensions"][name])


def looks_up(kind, ver, name):
    from stix2 import registry
    return registry.class_for_type(name, ver, CATEGORY[kind])


BAD_TYPE_NAMES = [("uppercase", "x-Stixmon-Bad"), ("underscore", "x-stixmon_bad"), ("space", "x-stixmon bad"), ("too-short", "xy"),
                  ("too-long", "x-" + "a" * 249), ("trailing-newline", "x-stixmon-bad\n"), ("unicode", "x-stixmon-bäd"), ("empty", ""),
                  ("dot", "x-stixmon.bad"), ("slash", "x-stixmon/bad"), ("arabic-indic-digit", "x-stixmon-bad-\u0663"), ("fullwidth-digit", "x-stixmon-bad\uff15"),
                  ("non-ascii-letter-lookalike", "x-stixmon-b\u0430d")]
BAD_PROP_NAMES = [("too-short", "fo"), ("space", "foo bar"), ("hyphen", "foo-bar"), ("too-long", "p" * 251), ("uppercase", "Foo_bar"),
                  ("trailing-newline", "foo_bar\n"), ("unicode", "foo_bär"), ("leading-digit-2.1", "1foo_bar"), ("arabic-indic-digit", "foo_bar\u0663"),
                  ("fullwidth-digit", "foo_bar\uff15")]


def parse_outcome(d, extract, **kw):
    import stix2
    try:
        with warnings.catch_warnings():
            warnings.simplefilter("ignore")
            o = stix2.parse(json.loads(json.dumps(d)), **kw)
        try:
            return "class", extract(o)
        except Exception:
            return "class", None
    except family() as e:
        return "refused", e


def duplicate_with_extension_name(ctx, kind, ver, name, orig, w, rng):
    """A 2.1 object / observable name that is taken, registered once more together with a FREE extension name: refused like any other
    duplicate, the holder of the name untouched, and the extension name not left behind on its own."""
    import stix2
    from stix2 import properties as P
    from stix2 import registry
    if ver != "2.1" or kind not in ("object", "observable"):
        return
    ext = "extension-definition--" + V.uuid_text(rng, 4)
    dec = stix2.v21.CustomObject if kind == "object" else stix2.v21.CustomObservable
    ctx.ev()
    ctx.count("duplicates_with_extension_name")
    try:
        with warnings.catch_warnings():
            warnings.simplefilter("ignore")
            dec(name, [("prop_one", P.StringProperty())], extension_name=ext)(type("Body", (object,), {}))
        ctx.violation("duplicate-registration-accepted", "second registration of %s %r (with extension_name) was accepted" % (kind, name), dict(w, name=name, extension_name=ext))
    except family():
        ctx.count("refusals")
    if looks_up(kind, ver, name) is not orig or orig is None:
        ctx.violation("existing-registration-replaced", "after a refused duplicate carrying extension_name, %r (%s) no longer maps to the original class" % (name, ver),
                      dict(w, name=name, extension_name=ext))
    if registry.class_for_type(ext, ver, "extensions") is not None:
        ctx.violation("refused-registration-left-behind:extension-name", "the extension name of a refused registration stays registered", dict(w, name=name, extension_name=ext))


def wl_history(ctx, rng, i):
    import stix2.base
    tag = "%d-%d" % (ctx.seed, i)
    model = {}
    steps = ["fresh", "fresh", "duplicate", "builtin", "other-version", "same-name-both-kinds-2.0", "bad-type-name", "bad-prop-name", "good-prop-name", "fresh", "duplicate", "bad-type-name", "bad-prop-name", "parse-all"]
    n = 0
    for step in steps:
        kind = rng.choice(KINDS)
        ver = rng.choice(VERS)
        n += 1
        suffix = "-ext" if kind == "extension" else ""
        name = "x-stixmon-c19-%s-%d%s" % (tag, n, suffix)
        w = {"step": step, "kind": kind, "version": ver, "name": name}
        ctx.ev()
        ctx.count("steps")
        ctx.see("step kinds", "%s:%s:%s" % (step, kind, ver))
        if step == "fresh":
            if rng.random() < 0.6:
                # the name is met in content before it is registered (refused, or passed through leniently): whatever the library
                # concluded then must not outlive the registration
                d0, x0 = instance(kind, ver, name, rng)
                for kw0 in ({"allow_custom": False, "version": ver}, {"allow_custom": True, "version": ver}, {"allow_custom": True}, {"allow_custom": False}):
                    parse_outcome(d0, x0, **kw0)
                if kind == "observable" and ver == "2.1":
                    try:
                        import stix2
                        stix2.parse_observable(json.loads(json.dumps(d0)), allow_custom=True, version=ver)
                    except family():
                        pass
                looks_up(kind, ver, name)
                ctx.count("names_parsed_before_registration")
            try:
                cls = register(kind, ver, name)
            except family() as e:
                ctx.violation("valid-registration-refused", "registering fresh valid %s name %r for %s raised %s: %s" % (kind, name, ver, type(e).__name__, str(e)[:120]), w)
                continue
            model[(ver, kind, name)] = cls
            if looks_up(kind, ver, name) is not cls:
                ctx.violation("registry-lookup-wrong", "class_for_type(%r, %s, %s) is not the registered class" % (name, ver, CATEGORY[kind]), w)
            other = "2.0" if ver == "2.1" else "2.1"
            if looks_up(kind, other, name) is not None and (other, kind, name) not in model:
                ctx.violation("registration-leaks-into-other-version", "%r registered for %s is also visible for %s" % (name, ver, other), w)
            check_parse(ctx, rng, kind, ver, name, cls, w)
            ctx.nontrivial(kind, ver, step, "ok")
        elif step == "duplicate":
            taken = [k for k in model if k[1] == kind]
            if not taken:
                continue
            ver, _, name = rng.choice(taken)
            orig = model[(ver, kind, name)]
            try:
                register(kind, ver, name)
                ctx.violation("duplicate-registration-accepted", "second registration of %s %r for %s was accepted" % (kind, name, ver), dict(w, name=name, version=ver))
            except family():
                ctx.count("refusals")
            if looks_up(kind, ver, name) is not orig:
                ctx.violation("existing-registration-replaced", "after a refused duplicate, %r (%s) no longer maps to the original class" % (name, ver), dict(w, name=name, version=ver))
            duplicate_with_extension_name(ctx, kind, ver, name, orig, w, rng)
            check_parse(ctx, rng, kind, ver, name, orig, dict(w, name=name, version=ver))
            ctx.nontrivial(kind, ver, step)
        elif step == "same-name-both-kinds-2.0":
            # 2.0 keeps objects and observables apart (an observable only ever appears inside observed-data): one name may be both,
            # and content of either kind parses to its own class whichever kind was registered or parsed first
            ka, kb = rng.choice([("object", "observable"), ("observable", "object")])
            w2 = dict(w, kind="%s then %s" % (ka, kb), version="2.0")
            try:
                ca = register(ka, "2.0", name)
                cb = register(kb, "2.0", name)
            except family() as e:
                ctx.violation("valid-registration-refused:same-name-other-kind-2.0", "registering %r as a 2.0 %s and then as a 2.0 %s raised %s: %s" % (name, ka, kb, type(e).__name__, str(e)[:120]), w2)
                continue
            model[("2.0", ka, name)], model[("2.0", kb, name)] = ca, cb
            ctx.count("names_registered_as_both_kinds")
            for k2, c2 in rng.choice([[(ka, ca), (kb, cb), (ka, ca)], [(kb, cb), (ka, ca), (kb, cb)]]):
                if looks_up(k2, "2.0", name) is not c2:
                    ctx.violation("registry-lookup-wrong", "class_for_type(%r, 2.0, %s) is not the registered class" % (name, CATEGORY[k2]), w2)
                check_parse(ctx, rng, k2, "2.0", name, c2, dict(w2, parsed_kind=k2))
            ctx.nontrivial("both-kinds", ka, step)
        elif step == "builtin":
            name = BUILTIN[kind]
            orig = looks_up(kind, ver, name)
            try:
                register(kind, ver, name)
                ctx.violation("builtin-name-registration-accepted", "registering built-in %s name %r for %s was accepted" % (kind, name, ver), dict(w, name=name))
            except family():
                ctx.count("refusals")
            if looks_up(kind, ver, name) is not orig or orig is None:
                ctx.violation("existing-registration-replaced", "built-in %r (%s) no longer maps to its class" % (name, ver), dict(w, name=name))
            duplicate_with_extension_name(ctx, kind, ver, name, orig, w, rng)
            if ver == "2.1" and kind in ("object", "observable"):
                # 2.1 objects and observables are both top-level types: a name held by the one kind is taken for the other too
                other_kind = "observable" if kind == "object" else "object"
                cands = [BUILTIN[other_kind]] + [k[2] for k in model if k[0] == ver and k[1] == other_kind]
                name2 = rng.choice(cands)
                orig2 = looks_up(other_kind, ver, name2)
                ctx.ev()
                ctx.count("cross_kind_registrations")
                try:
                    register(kind, ver, name2)
                    ctx.violation("name-of-other-top-level-kind-accepted", "registering a 2.1 %s named %r, which is a registered %s, was accepted" % (kind, name2, other_kind),
                                  dict(w, name=name2, kind=kind, taken_by=other_kind))
                except family():
                    ctx.count("refusals")
                if looks_up(other_kind, ver, name2) is not orig2 or looks_up(kind, ver, name2) is not None:
                    ctx.violation("existing-registration-replaced", "%r (%s %s) is shadowed or replaced after the attempt" % (name2, ver, other_kind), dict(w, name=name2))
            ctx.nontrivial(kind, ver, step)
        elif step == "other-version":
            taken = [k for k in model if k[1] == kind]
            if not taken:
                continue
            ver0, _, name = rng.choice(taken)
            ver = "2.0" if ver0 == "2.1" else "2.1"
            if (ver, kind, name) in model:
                continue
            try:
                cls = register(kind, ver, name)
            except family() as e:
                ctx.violation("valid-registration-refused", "registering %r for %s (already registered for %s only) raised %s" % (name, ver, ver0, type(e).__name__), dict(w, name=name, version=ver))
                continue
            model[(ver, kind, name)] = cls
            for v, c in ((ver, cls), (ver0, model[(ver0, kind, name)])):
                if looks_up(kind, v, name) is not c:
                    ctx.violation("registry-lookup-wrong", "after registering %r for both versions, lookup for %s is wrong" % (name, v), dict(w, name=name))
                check_parse(ctx, rng, kind, v, name, c, dict(w, name=name, version=v))
            ctx.nontrivial(kind, ver, step)
        elif step == "bad-type-name":
            label, bad = rng.choice(BAD_TYPE_NAMES)
            if kind == "extension" and ver == "2.1" and not bad.endswith("\n"):
                bad = bad + "-ext" if label not in ("too-long", "empty", "too-short") else bad
            try:
                register(kind, ver, bad)
                ctx.violation("invalid-type-name-accepted:" + label, "%s type name %r (%s) was accepted for %s" % (kind, bad[:40], label, ver), dict(w, name=bad[:60], rule=label))
            except family():
                ctx.count("refusals")
            if looks_up(kind, ver, bad) is not None:
                ctx.violation("invalid-type-name-registered", "%r is in the registry although its registration must be refused" % bad[:40], dict(w, name=bad[:60]))
            ctx.nontrivial(kind, ver, step, label)
            ctx.see("name rules", "type:" + label)
        elif step == "good-prop-name":
            # names that keep the rules although they look like something else: only a name ending in _ref / _refs is a reference property
            good = rng.choice(["ref", "refs", "xref", "prefs", "ref_x", "refs_of", "a_b", "abc", "x" * 250, "ref1", "a_ref_b", "id_", "type_of", "p2p"])
            if ver == "2.1" and good[0].isdigit():
                continue
            pcname, pc = rng.choice(property_classes(ver)[:2] + property_classes(ver)[3:6])
            try:
                register(kind, ver, name, prop_names=("prop_one", good), second=pc)
                ctx.count("well_named_properties_registered")
                if looks_up(kind, ver, name) is None:
                    ctx.violation("registry-lookup-wrong", "%r was registered but is not in the registry" % name, w)
            except family() as e:
                ctx.violation("valid-registration-refused:property-name", "%s %s with a property named %r (declared as %s) was refused: %s" % (ver, kind, good[:40], pcname, str(e)[:140]),
                              dict(w, property=good[:60], declared_as=pcname))
            ctx.nontrivial(kind, ver, step, good[:10])
        elif step == "bad-prop-name":
            label, bad = rng.choice(BAD_PROP_NAMES)
            if label == "leading-digit-2.1" and ver == "2.0":
                continue
            pcname, pc = rng.choice(property_classes(ver))
            ctx.see("classes of badly named properties", pcname)
            try:
                register(kind, ver, name, prop_names=("prop_one", bad), second=pc)
                ctx.violation("property-name-rules:" + label, "%s %s with property name %r (%s, declared as %s) was registered" % (ver, kind, bad[:40], label, pcname),
                              dict(w, property=bad[:60], rule=label, declared_as=pcname))
            except family():
                ctx.count("refusals")
            ctx.nontrivial(kind, ver, step, label)
            ctx.see("name rules", "prop:" + label)
        else:
            for (v, k, nm), c in sorted(model.items()):
                check_parse(ctx, rng, k, v, nm, c, {"step": "parse-all", "kind": k, "version": v, "name": nm})
            for v in VERS:
                for nm in ("tlp", "statement", "ntfs-ext", "archive-ext"):
                    top = {"type": nm, "id": "%s--%s" % (nm, V.uuid_text(rng, 4)), "created": "2020-01-01T00:00:00.000Z", "modified": "2020-01-01T00:00:00.000Z"}
                    st7, r7 = parse_outcome(top, (lambda o: o), allow_custom=True, version=v)
                    ctx.ev()
                    if st7 == "class" and not isinstance(r7, dict):
                        ctx.violation("registration-leaks-into-other-category", "a top-level object of built-in marking/extension type %r parsed to %s" % (nm, type(r7).__name__), {"input": top, "version": v})
    if ctx.want_sample():
        ctx.sample({"history": steps, "registered": [list(k) for k in model]})


def common_probes(rng, kind, ver):
    """(property, value) pairs for the properties every object of that kind has, valid and invalid alike"""
    u = lambda v_: V.uuid_text(rng, v_)
    ts = "2020-01-01T00:00:00.000Z"
    md = lambda v_: "marking-definition--" + u(v_)
    out = [("object_marking_refs", [md(4)]), ("object_marking_refs", [md(5)]), ("object_marking_refs", [md(1)]), ("object_marking_refs", [md(4), md(3)]),
           ("object_marking_refs", ["identity--" + u(4)]), ("object_marking_refs", []), ("object_marking_refs", md(5)),
           ("object_marking_refs", ["marking-definition--00000000-0000-0000-0000-000000000000"]), ("object_marking_refs", ["marking-definition--not-a-uuid"]),
           ("object_marking_refs", [md(4).upper().replace("MARKING-DEFINITION", "marking-definition")]),
           ("granular_markings", [{"marking_ref": md(5), "selectors": ["type"]}]), ("granular_markings", [{"marking_ref": md(4), "selectors": ["type"]}]),
           ("granular_markings", [{"marking_ref": "identity--" + u(4), "selectors": ["type"]}]), ("granular_markings", [{"selectors": ["type"]}]),
           ("granular_markings", [{"marking_ref": md(4), "selectors": []}]), ("granular_markings", [])]
    if ver == "2.1":
        out += [("granular_markings", [{"lang": "en", "selectors": ["type"]}]), ("granular_markings", [{"lang": "en", "marking_ref": md(4), "selectors": ["type"]}]),
                ("extensions", {}), ("extensions", {"x-stixmon-unregistered-ext": {"a": 1}}), ("extensions", []), ("extensions", "e")]
    if kind == "object":
        out += [("created_by_ref", "identity--" + u(4)), ("created_by_ref", "identity--" + u(5)), ("created_by_ref", "identity--" + u(1)),
                ("created_by_ref", md(4)), ("created_by_ref", "identity--00000000-0000-0000-0000-000000000000"), ("created_by_ref", "identity"),
                ("created_by_ref", ["identity--" + u(4)]), ("created_by_ref", 5),
                ("labels", ["a"]), ("labels", []), ("labels", "a"), ("labels", [1]), ("labels", [""]), ("labels", [["a"]]),
                ("revoked", True), ("revoked", "true"), ("revoked", "yes"), ("revoked", 1), ("revoked", []),
                ("external_references", [{"source_name": "s", "external_id": "1"}]), ("external_references", [{"source_name": "s"}]),
                ("external_references", [{"external_id": "1"}]), ("external_references", [{"source_name": "capec", "external_id": "1"}]),
                ("external_references", [{"source_name": "s", "url": "u", "hashes": {"MD5": "0" * 32}}]), ("external_references", [{"source_name": "s", "url": "u", "hashes": {"MD5": "zz"}}]),
                ("external_references", {"source_name": "s", "external_id": "1"}), ("external_references", []),
                ("created", "2020-01-01T00:00:00Z"), ("created", "2020-01-01T00:00:00.123456Z"), ("created", "2020-01-01"), ("created", 5),
                ("modified", "2019-01-01T00:00:00.000Z"), ("modified", "2021-01-01T00:00:00.5Z"), ("modified", "junk"),
                ("id", "identity--" + u(4)), ("x_not_declared", 1)]
        if ver == "2.1":
            out += [("confidence", 0), ("confidence", 100), ("confidence", 101), ("confidence", -1), ("confidence", "5"), ("confidence", 5.5), ("confidence", True),
                    ("lang", "en"), ("lang", 5), ("lang", ""), ("spec_version", "2.0"), ("spec_version", "2.2"), ("spec_version", 2.1)]
    else:
        out += [("defanged", True), ("defanged", "true"), ("defanged", "junk"), ("defanged", 1), ("spec_version", "2.0"), ("spec_version", "2.2"),
                ("created", ts), ("x_not_declared", 1)]
    return out


def common_property_parity(ctx, rng, kind, ver, name, d, w):
    """The properties every object has are declared anew by the custom-type builders: they must be judged as on a built-in type."""
    import stix2
    if kind == "object":
        twin = {"type": "identity", "id": "identity--" + V.uuid_text(rng, 4), "created": d["created"], "modified": d["modified"], "name": "n", "identity_class": "individual"}
    else:
        twin = {"type": "domain-name", "id": "domain-name--" + V.uuid_text(rng, 4), "value": "example.com"}
    if ver == "2.1":
        twin["spec_version"] = "2.1"
    probes = common_probes(rng, kind, ver)
    for prop, val in rng.sample(probes, 12):
        res = []
        for subject in (d, twin):
            dd = json.loads(json.dumps(subject))
            if prop == "id" and subject is d:
                dd[prop] = val                      # an id of another type: refused on both (the twin gets a foreign one too)
            elif prop == "id":
                dd[prop] = "x-other--" + val.split("--")[1]
            else:
                dd[prop] = val
            st, r = parse_outcome(dd, (lambda o: o), allow_custom=False, version=ver)
            if st == "class" and not isinstance(r, dict):
                try:
                    res.append(("accepted", json.loads(r.serialize()).get(prop)))
                except family():
                    res.append(("refused-on-serialize", None))
            else:
                res.append(("refused", None))
        ctx.ev()
        ctx.count("common_property_parity_probes")
        ctx.see("common properties probed", prop)
        if res[0][0] == "accepted":
            ctx.count("common_property_parity_accepted")
        if res[0][0] != res[1][0] or (res[0][0] == "accepted" and not compare.generic_equal(res[0][1], res[1][1])):
            ctx.violation("custom-type-common-property-judged-differently:" + prop,
                          "%s custom %s %r with %s=%r is %s (%r), the built-in %s with the same value is %s (%r)" % (
                              ver, kind, name, prop, val, res[0][0], res[0][1], twin["type"], res[1][0], res[1][1]),
                          dict(w, property=prop, value=val, custom=res[0][0], builtin=res[1][0], builtin_type=twin["type"]))
            return


def check_parse(ctx, rng, kind, ver, name, cls, w):
    """exactly that class for exactly that version"""
    d, extract = instance(kind, ver, name, rng)
    st, r = parse_outcome(d, extract, allow_custom=False, version=ver)
    ctx.ev()
    ctx.count("parses")
    if st != "class" or type(r) is not cls:
        ctx.violation("registered-type-does-not-parse-to-its-class", "%s %s %r: strict parse (version=%s) gave %s" % (
            ver, kind, name, ver, "refusal: " + str(r)[:120] if st == "refused" else type(r).__name__), dict(w, input=d))
        return
    st2, r2 = parse_outcome(d, extract, allow_custom=False)      # version detected from content
    ctx.ev()
    if st2 != "class" or type(r2) is not cls:
        ctx.violation("registered-type-does-not-parse-to-its-class", "%s %s %r: strict parse without version gave %s" % (ver, kind, name, st2), dict(w, input=d))
    # round trip of an instance keeps the class (registered custom types enjoy the same guarantees)
    try:
        import stix2
        with warnings.catch_warnings():
            warnings.simplefilter("ignore")
            top = stix2.parse(json.loads(json.dumps(d)), allow_custom=False, version=ver)
            back = stix2.parse(top.serialize(), allow_custom=False)
        ctx.ev()
        if type(extract(back)) is not cls or not compare.generic_equal(json.loads(back.serialize()), json.loads(top.serialize())):
            ctx.violation("registered-type-round-trip", "instance of %r does not survive serialize/parse" % name, dict(w, input=d))
    except family() as e:
        ctx.violation("registered-type-round-trip", "instance of %r: round trip raised %s" % (name, type(e).__name__), dict(w, input=d, exception=repr(e)))
    if kind == "object" or (kind == "observable" and ver == "2.1"):
        common_property_parity(ctx, rng, kind, ver, name, d, w)
    # a marking definition pairs a registered definition type with an object of exactly its class, also when the definition is
    # given as a library object
    if kind == "marking":
        import stix2
        mod = stix2.v20 if ver == "2.0" else stix2.v21
        for lab, dt, dfn, want in (("own class", name, lambda: cls(prop_one="v"), "accepted"),
                                   ("statement object under the custom type", name, lambda: mod.StatementMarking("s"), "refused"),
                                   ("custom object under 'statement'", "statement", lambda: cls(prop_one="v"), "refused")):
            ctx.ev()
            ctx.count("marking_pairings")
            try:
                with warnings.catch_warnings():
                    warnings.simplefilter("ignore")
                    md = mod.MarkingDefinition(definition_type=dt, definition=dfn())
                    text = md.serialize()
                got = "accepted"
            except family():
                got = "refused"
            if got != want:
                ctx.violation("marking-type-and-definition-class-mismatch-accepted" if want == "refused" else "registered-marking-refused",
                              "%s MarkingDefinition(definition_type=%r, definition=<%s>) was %s" % (ver, dt, lab, got), dict(w, pairing=lab))
            elif got == "accepted":
                st9, r9 = parse_outcome(json.loads(text), (lambda o_: o_["definition"]), allow_custom=False, version=ver)
                if st9 != "class" or type(r9) is not cls:
                    ctx.violation("registered-type-round-trip", "a marking definition of the registered type %r built from an object does not parse back to its class" % name, dict(w, text=text[:500]))
    # a name registered as a marking or an extension is not thereby a top-level object type (category-exact lookup)
    if kind in ("marking", "extension") and looks_up("object", ver, name) is None and looks_up("observable", ver, name) is None:
        top = {"type": name, "id": "%s--%s" % (name, V.uuid_text(rng, 4)), "created": "2020-01-01T00:00:00.000Z", "modified": "2020-01-01T00:00:00.000Z", "prop_one": "v"}
        if ver == "2.1":
            top["spec_version"] = "2.1"
        st5, r5 = parse_outcome(top, (lambda o: o), allow_custom=True, version=ver)
        ctx.ev()
        ctx.count("cross_category_probes")
        if st5 == "class" and not isinstance(r5, dict):
            ctx.violation("registration-leaks-into-other-category", "a top-level object of type %r (registered only as %s) parsed to %s" % (name, kind, type(r5).__name__), dict(w, input=top))
        st6, r6 = parse_outcome(top, (lambda o: o), allow_custom=False, version=ver)
        if st6 == "class":
            ctx.violation("registration-leaks-into-other-category", "strict parse accepted a top-level object of type %r (registered only as %s)" % (name, kind), dict(w, input=top))
    # ... nor is a name registered as an object, observable or marking thereby an extension type: as a key of `extensions` it is an
    # unregistered extension, which strict mode refuses
    if kind != "extension" and looks_up("extension", ver, name) is None:
        import stix2
        body = {"prop_one": "v"}
        if ver == "2.1":
            host = {"type": "file", "spec_version": "2.1", "id": "file--" + V.uuid_text(rng, 4), "name": "f", "extensions": {name: body}}
            hget = (lambda o: o["extensions"][name])
        else:
            host = {"type": "observed-data", "id": "observed-data--" + V.uuid_text(rng, 4), "created": "2020-01-01T00:00:00.000Z", "modified": "2020-01-01T00:00:00.000Z",
                    "first_observed": "2020-01-01T00:00:00Z", "last_observed": "2020-01-01T00:00:00Z", "number_observed": 1,
                    "objects": {"0": {"type": "file", "name": "f", "extensions": {name: body}}}}
            hget = (lambda o: o["objects"]["0"]["extensions"][name])
        st8, r8 = parse_outcome(host, hget, allow_custom=False, version=ver)
        ctx.ev()
        ctx.count("cross_category_probes")
        if st8 == "class":
            ctx.violation("registration-leaks-into-other-category", "strict parse accepted the extension key %r (registered only as %s); its value became %s" % (name, kind, type(r8).__name__),
                          dict(w, input=host))
    # the other version must not know the name (unless registered there too)
    other = "2.0" if ver == "2.1" else "2.1"
    if looks_up(kind, other, name) is None and kind in ("object",):
        d2 = {k: v for k, v in d.items() if k != "spec_version"}
        if other == "2.1":
            d2["spec_version"] = "2.1"
        st3, r3 = parse_outcome(d2, extract, allow_custom=False, version=other)
        ctx.ev()
        if st3 == "class" and isinstance(r3, cls):
            ctx.violation("registration-leaks-into-other-version", "%r registered for %s only parsed to its class under version %s" % (name, ver, other), dict(w, input=d2))
        st4, r4 = parse_outcome(d2, (lambda o: o), allow_custom=True, version=other)
        if st4 == "class" and isinstance(r4, cls):
            ctx.violation("registration-leaks-into-other-version", "%r registered for %s only parsed (lenient) to its class under version %s" % (name, ver, other), dict(w, input=d2))


def wl_toplevel(ctx, rng, i):
    """A registered toplevel-property-extension: its properties are the host's own, in every form the extension value can take
    (dictionary, instance of the registered class) and along every way the library itself re-builds the host (new version, revoke,
    deep copy, serialize/parse)."""
    import copy
    import stix2
    from stix2 import properties as P
    ename = "extension-definition--" + V.uuid_text(rng, 4)
    pa, pb = "rank_%d" % (i % 7), "tier_%d" % (i % 5)

    class Ext(object):
        extension_type = "toplevel-property-extension"
    try:
        with warnings.catch_warnings():
            warnings.simplefilter("ignore")
            cls = stix2.v21.CustomExtension(ename, [(pa, P.IntegerProperty(required=True)), (pb, P.StringProperty())])(Ext)
    except family() as e:
        ctx.violation("valid-registration-refused", "registering a toplevel-property-extension raised %s" % type(e).__name__, {"name": ename, "exception": repr(e)})
        return
    host_cls, base = rng.choice([(stix2.v21.Identity, {"name": "n"}), (stix2.v21.File, {"name": "f"}), (stix2.v21.Campaign, {"name": "c"})])
    w = {"extension": ename, "host": host_cls.__name__, "properties": [pa, pb]}
    forms = {"dictionary": lambda: {"extension_type": "toplevel-property-extension"}, "instance of the registered class": lambda: cls()}
    made = {}
    for fname, mk in forms.items():
        ctx.ev()
        try:
            with warnings.catch_warnings():
                warnings.simplefilter("ignore")
                h = host_cls(extensions={ename: mk()}, **dict(base, **{pa: 3, pb: "x"}))
        except family() as e:
            ctx.violation("toplevel-extension-property-refused", "a property of a registered toplevel-property-extension was refused when the extension is given as %s: %s" % (fname, str(e)[:120]),
                          dict(w, form=fname, exception=repr(e)))
            continue
        made[fname] = h
        if h.has_custom or h.get(pa) != 3:
            ctx.violation("toplevel-extension-property-counted-as-custom", "host built with the extension given as %s: has_custom=%s, %s=%r" % (fname, h.has_custom, pa, h.get(pa)), dict(w, form=fname))
    for fname, h in made.items():
        routes = [("serialize/parse", lambda: stix2.parse(h.serialize())), ("deep copy", lambda: copy.deepcopy(h))]
        if "modified" in h:
            routes += [("new_version", lambda: h.new_version(**{pb: "y"})), ("revoke", lambda: h.revoke())]
        for rname, fn in routes:
            ctx.ev()
            ctx.count("toplevel_rebuilds")
            try:
                with warnings.catch_warnings():
                    warnings.simplefilter("ignore")
                    r = fn()
            except family() as e:
                ctx.violation("toplevel-extension-property-refused", "%s of a host carrying a registered toplevel-property-extension (built from %s) raised %s: %s" % (rname, fname, type(e).__name__, str(e)[:100]),
                              dict(w, form=fname, route=rname, exception=repr(e)))
                continue
            if r.has_custom or r.get(pa) != 3 or not isinstance(r["extensions"][ename], cls):
                ctx.violation("toplevel-extension-property-counted-as-custom", "after %s: has_custom=%s, %s=%r, extension class %s" % (rname, r.has_custom, pa, r.get(pa), type(r["extensions"][ename]).__name__),
                              dict(w, form=fname, route=rname))
    # a refused object registration that names a new-object extension leaves no extension behind; the corrected retry works
    ename2 = "extension-definition--" + V.uuid_text(rng, 4)
    tname = "x-stixmon-c19-%s-ext%d" % (ctx.seed, i)
    kind2 = rng.choice(["object", "observable"])
    dec2 = stix2.v21.CustomObject if kind2 == "object" else stix2.v21.CustomObservable
    bad_name = rng.choice(["a b", "fo", "Foo_bar", "foo-bar"])
    for attempt, props, extname in (("bad property name", [(bad_name, P.StringProperty())], ename2), ("extension_name that is no extension definition id", [("prop_one", P.StringProperty())], "x-stixmon-not-an-id-ext"),
                                    ("extension_name that is taken", [("prop_one", P.StringProperty())], ename),
                                    ("extension_name that breaks the naming rules", [("prop_one", P.StringProperty())],
                                     rng.choice(["extension-definition--" + V.uuid_text(rng, 4).upper().replace("0", "A", 1) + "B"[:0], "x-stixmon--not-an-extension", "extension-definition--" + "a" * 250,
                                                 "Extension-Definition--" + V.uuid_text(rng, 4), "extension-definition--" + V.uuid_text(rng, 4) + "\n"]))):
        ctx.ev()
        ctx.count("registration_attempts")
        try:
            with warnings.catch_warnings():
                warnings.simplefilter("ignore")
                dec2(tname, props, extension_name=extname)(type("Body", (object,), {}))
            ctx.violation("invalid-registration-accepted", "registering %r with %s was accepted" % (tname, attempt), dict(w, type=tname, attempt=attempt))
        except family():
            pass
        except Exception as e:
            ctx.violation("registration-raised-outside-family", "registering %r with %s raised %s" % (tname, attempt, type(e).__name__), dict(w, type=tname, attempt=attempt, exception=repr(e)))
        left = [n for n in (extname,) if n != ename and looks_up("extension", "2.1", n) is not None] + [tname for c in ("object", "observable") if looks_up(c, "2.1", tname) is not None]
        if extname == ename and looks_up("extension", "2.1", ename) is not cls:
            left.append("(the earlier registration of %s was replaced)" % ename)
        if left:
            ctx.violation("failed-registration-changed-registry", "a refused registration (%s) left %r registered" % (attempt, left), dict(w, type=tname, attempt=attempt, left=left))
    try:
        with warnings.catch_warnings():
            warnings.simplefilter("ignore")
            dec2(tname, [("prop_one", P.StringProperty())], extension_name=ename2)(type("Body", (object,), {}))
        if looks_up("extension", "2.1", ename2) is None or looks_up(kind2, "2.1", tname) is None:
            ctx.violation("valid-registration-incomplete", "a valid registration with extension_name did not register both names", dict(w, type=tname))
    except family() as e:
        ctx.violation("valid-registration-refused", "the corrected retry of a refused registration raised %s: %s" % (type(e).__name__, str(e)[:100]), dict(w, type=tname, exception=repr(e)))
    # a property the extension does not define stays custom
    ctx.ev()
    try:
        host_cls(extensions={ename: {"extension_type": "toplevel-property-extension"}}, **dict(base, **{pa: 3, "x_not_in_extension": 1}))
        ctx.violation("toplevel-extension-admits-undeclared-property", "a property the registered toplevel extension does not declare was accepted in strict mode", w)
    except family():
        pass
    # a second registered toplevel-property-extension: using both on one object does not make either vouch for the other's properties
    ename3 = "extension-definition--" + V.uuid_text(rng, 4)
    pc3 = "zone_%d" % (i % 3)
    try:
        with warnings.catch_warnings():
            warnings.simplefilter("ignore")
            stix2.v21.CustomExtension(ename3, [(pc3, P.StringProperty())])(type("Ext3", (object,), {"extension_type": "toplevel-property-extension"}))
            tl = {"extension_type": "toplevel-property-extension"}
            order = [ename, ename3] if i % 2 == 0 else [ename3, ename]
            for route in ("constructor", "parse"):
                kwb = dict(base, extensions={k: dict(tl) for k in order}, **{pa: 3, pc3: "z"})
                both = host_cls(**kwb) if route == "constructor" else stix2.parse(json.dumps(dict(json.loads(host_cls(**kwb).serialize()))))
                if both.has_custom:
                    ctx.violation("toplevel-extension-property-counted-as-custom", "a host with two registered toplevel extensions is flagged custom", dict(w, route=route))
        ctx.ev()
        ctx.count("two_toplevel_extension_uses")
        for mine, theirs, pname, pval, need in ((ename, ename3, pc3, "z", {pa: 3}), (ename3, ename, pa, 3, {})):
            try:
                with warnings.catch_warnings():
                    warnings.simplefilter("ignore")
                    host_cls(extensions={mine: dict(tl)}, **dict(base, **dict(need, **{pname: pval})))
                ctx.violation("registration-altered-by-use", "after an object carried the toplevel extensions %s and %s together, %s alone admits the other's property %r in strict mode" % (
                    ename[-4:], ename3[-4:], mine[-4:], pname), dict(w, other_extension=theirs, property=pname))
            except family():
                pass
    except family() as e:
        ctx.violation("valid-registration-refused", "using two registered toplevel-property-extensions together raised %s: %s" % (type(e).__name__, str(e)[:100]), dict(w, exception=repr(e)))
    # one Python class decorated for two types, each with an extension of its own (and then for a third without one): every registration
    # stays what it was when it was made
    try:
        with warnings.catch_warnings():
            warnings.simplefilter("ignore")
            shared_body = type("SharedBody", (object,), {})
            names = ["x-stixmon-c19-%s-twice%d-%s" % (ctx.seed, i, c_) for c_ in "abc"]
            exts = ["extension-definition--" + V.uuid_text(rng, 4) for _ in range(2)]
            dec3 = stix2.v21.CustomObject if i % 2 == 0 else stix2.v21.CustomObservable
            cls_a = dec3(names[0], [("prop_one", P.StringProperty())], extension_name=exts[0])(shared_body)
            first = list(cls_a(prop_one="v").get("extensions", {}))
            cls_b = dec3(names[1], [("prop_one", P.StringProperty())], extension_name=exts[1])(shared_body)
            cls_c = dec3(names[2], [("prop_one", P.StringProperty())])(shared_body)
            ctx.ev()
            ctx.count("classes_decorated_repeatedly")
            for lab, c_, want in (("first type, after the second was registered", cls_a, [exts[0]]), ("second type", cls_b, [exts[1]]), ("third type (declared without an extension)", cls_c, [])):
                got_e = list(c_(prop_one="v").get("extensions", {}))
                if got_e != want:
                    ctx.violation("existing-registration-altered-by-later-one", "one class decorated for several types: objects of the %s carry extensions %s, expected %s (the first type's were %s when it was registered)" % (
                        lab, [x[-6:] for x in got_e], [x[-6:] for x in want], [x[-6:] for x in first]), dict(w, types=names, extensions=exts, which=lab))
                    break
    except family() as e:
        ctx.violation("valid-registration-refused", "decorating one class for several types raised %s: %s" % (type(e).__name__, str(e)[:100]), dict(w, exception=repr(e)))
    # a custom type with lists of every plain property class: its objects are accepted and round-trip like built-in ones
    lname = "x-stixmon-c19-%s-lists%d" % (ctx.seed, i)
    try:
        with warnings.catch_warnings():
            warnings.simplefilter("ignore")
            lcls = stix2.v21.CustomObject(lname, [("stamps", P.ListProperty(P.TimestampProperty())), ("flags", P.ListProperty(P.BooleanProperty())), ("ratios", P.ListProperty(P.FloatProperty())),
                                                  ("blobs", P.ListProperty(P.HexProperty())), ("bins", P.ListProperty(P.BinaryProperty())), ("counts", P.ListProperty(P.IntegerProperty()))])(type("L", (object,), {}))
            vals = {"stamps": ["2020-01-01T00:00:00Z", "2021-02-03T04:05:06.789Z"], "flags": [True, False], "ratios": [1.5, 2.0], "blobs": ["ab12"], "bins": ["YWJj"], "counts": [1, 2]}
            k = rng.choice(sorted(vals))
            ctx.ev()
            ctx.count("list_property_objects")
            lo = lcls(**{k: vals[k]})
            back = stix2.parse(lo.serialize())
            if type(back) is not lcls or back != lo or json.loads(back.serialize())[k] != vals[k]:
                ctx.violation("custom-type-round-trip", "an object of a custom type with a list of %s does not round-trip" % k, dict(w, type=lname, property=k, text=lo.serialize()))
    except family() as e:
        ctx.violation("custom-type-list-property-refused", "a custom type's ListProperty value was refused: %s" % str(e)[:140], dict(w, type=lname, exception=repr(e)[:300]))
    # a 2.0 custom object type whose name a 2.1 custom observable takes later: each version's content still reads as its own
    xname = "x-stixmon-c19-%s-xv%d" % (ctx.seed, i)
    try:
        with warnings.catch_warnings():
            warnings.simplefilter("ignore")
            c20 = stix2.v20.CustomObject(xname, [("prop_one", P.StringProperty())])(type("X20", (object,), {}))
            o20 = c20(prop_one="a")
            t20 = o20.serialize()
            before = type(stix2.parse(t20))
            c21 = stix2.v21.CustomObservable(xname, [("prop_one", P.StringProperty())], ["prop_one"])(type("X21", (object,), {}))
            o21 = c21(prop_one="a")
            ctx.ev()
            ctx.count("cross_version_same_name")
            for lab, text, want in (("2.0 object", t20, c20), ("2.1 observable", o21.serialize(), c21)):
                st, r = parse_outcome(json.loads(text), (lambda o: o))
                if st != "class" or type(r) is not want:
                    ctx.violation("registration-not-version-scoped", "after %r was registered as a 2.0 object and as a 2.1 observable, content of the %s (no version named) reads as %s" % (
                        xname, lab, type(r).__name__ if st == "class" else "refused: " + str(r)[:100]), dict(w, name=xname, content=lab, text=text, before_second_registration=before.__name__))
    except family() as e:
        ctx.violation("valid-registration-refused", "registering one name as a 2.0 object and a 2.1 observable raised %s: %s" % (type(e).__name__, str(e)[:100]), dict(w, name=xname))
    ctx.nontrivial("toplevel", host_cls.__name__, i % 35)
    ctx.count("toplevel_cases")


WORKLOADS = [
    Workload("history", wl_history, quick=120, thorough=20000),
    Workload("toplevel-extension", wl_toplevel, quick=30, thorough=1500),
]


def floors(m, tier):
    c = m["counters"]
    out = []
    if c.get("steps", 0) < 800:
        out.append("fewer than 800 registration steps")
    if c.get("common_property_parity_probes", 0) < 1000 or c.get("common_property_parity_accepted", 0) < 300:
        out.append("fewer than 1000 common-property probes of custom types against built-in twins (or fewer than 300 accepted ones)")
    if c.get("well_named_properties_registered", 0) < 50:
        out.append("fewer than 50 registrations with look-alike but well-formed property names")
    if c.get("names_parsed_before_registration", 0) < 50:
        out.append("fewer than 50 names met in content before their registration")
    if c.get("parses", 0) < 500:
        out.append("fewer than 500 parse checks")
    if c.get("refusals", 0) < 200:
        out.append("fewer than 200 refusals observed")
    kinds = m["seen"].get("step kinds", set())
    for k in KINDS:
        for v in VERS:
            if "fresh:%s:%s" % (k, v) not in kinds:
                out.append("no fresh %s registration for %s" % (k, v))
    return out[:6]


MANIFEST = {
    "text": ("Registration histories over all four decorators and both versions (fresh, duplicate, built-in, other-version, "
             "invalid type and property names) are shadowed by a dict model of the registries; after each step registry lookups "
             "and strict/lenient parses under both versions must show exactly the model's class for exactly the chosen version, and "
             "instances must round-trip.  Exploration over ~10^3 (quick) / ~10^4 (thorough) steps in long-lived processes (registrations accumulate)."),
    "note": "naming rules limited to those listed in the assumptions; cross-category shadowing not judged",
    "technique": "runtime monitoring: dict reference model of the registries over recorded registration/parse histories",
}
