"""C15 -- timestamps are written in canonical form, truncated, order-preserving.

Events: format_datetime(parse_into_datetime(x, precision, constraint)), format_datetime(x),
and timestamp properties of real objects' serialisations.
Oracle: stixmon.oracles.ts (integer arithmetic; no strftime, no datetime arithmetic).
"""
import datetime as dt
import json

from ..ctx import Workload
from ..oracles import ts

ID = "C15"
LEVEL = "exploration"
SHARDS = {"quick": 4, "thorough": 16}
RULE = ("datetimes/dates over years 1-9999 x UTC offsets (15-minute grid, pytz zones incl. sub-minute LMT offsets) x "
        "naive/aware x microsecond patterns (d*10^k, 999999, random) and accepted strings with 0-9 fractional digits, "
        "each under all 3 precisions x 2 constraints.  Non-trivial: a non-zero sub-second part, a non-zero UTC offset or "
        "a year < 1000.  distinct = distinct (instant, offset, precision, constraint, input form)")
ASSUMPTIONS = [
    "stixmon/oracles/ts.py implements the proleptic Gregorian calendar correctly (cross-checked against datetime in selftest)",
    "inputs whose UTC instant falls outside years 1-9999 are not generated (not representable)",
    "non-canonical strings that strptime happens to accept are only required to come out canonical and stable, not to denote a particular instant",
]
PRECISIONS = ["any", "second", "millisecond"]
CONSTRAINTS = ["exact", "min"]
PC = [(p, c) for p in PRECISIONS for c in CONSTRAINTS]
BATCH = 40

US_PATTERNS = [0, 1, 9, 10, 99, 100, 999, 1000, 1001, 9999, 10000, 99999, 100000, 123000, 123400, 123450, 123456,
               500000, 499999, 999000, 999499, 999500, 999999, 1999, 900000, 90000, 9000, 900, 90]
YEARS = [1, 2, 9, 10, 99, 100, 999, 1000, 1582, 1899, 1900, 1969, 1970, 1999, 2000, 2016, 2024, 2038, 2100, 9998, 9999]
ZONES = ["US/Eastern", "Europe/Amsterdam", "Asia/Kathmandu", "Pacific/Kiritimati", "Pacific/Niue", "Australia/Lord_Howe",
         "America/St_Johns", "Africa/Monrovia", "Asia/Kolkata", "UTC"]


def lib():
    from stix2 import utils
    return utils


def gen_naive(rng):
    y = rng.choice(YEARS) if rng.random() < 0.5 else rng.randrange(1, 10000)
    mo = rng.randrange(1, 13)
    dmax = 31 if mo in (1, 3, 5, 7, 8, 10, 12) else 30 if mo != 2 else (29 if ts.is_leap(y) else 28)
    d = rng.choice([1, dmax, rng.randrange(1, dmax + 1)])
    h, mi, s = rng.choice([(0, 0, 0), (23, 59, 59), (rng.randrange(24), rng.randrange(60), rng.randrange(60))])
    us = rng.choice(US_PATTERNS) if rng.random() < 0.6 else rng.randrange(1000000)
    return dt.datetime(y, mo, d, h, mi, s, us)


def gen_input(rng):
    """(value, form, offset description)"""
    import pytz
    n = gen_naive(rng)
    r = rng.random()
    if r < 0.25:
        return n, "naive", "naive"
    if r < 0.4:
        return n.replace(tzinfo=dt.timezone.utc), "aware", "+00:00"
    if r < 0.75:
        m = rng.randrange(-56, 57) * 15
        return n.replace(tzinfo=dt.timezone(dt.timedelta(minutes=m))), "aware", "%+d min" % m
    if r < 0.9:
        z = rng.choice(ZONES)
        try:
            return pytz.timezone(z).localize(n), "aware-pytz", z
        except Exception:
            return n, "naive", "naive"
    if r < 0.93:
        return n.replace(tzinfo=pytz.utc), "aware", "pytz.utc"
    if r < 0.96:
        # offsets with seconds and a sub-second part: the precision is that of the UTC value
        off = dt.timedelta(seconds=rng.randrange(-86399, 86400), microseconds=rng.choice([0, 1, 500, 999, 500500, rng.randrange(1000000)]))
        return n.replace(tzinfo=dt.timezone(off)), "aware-subsecond-offset", "%s" % off
    if r < 0.985:
        # a local time that occurs twice (end of daylight saving time): fold says which of the two instants is meant
        try:
            import zoneinfo
            zone, y, mo, d, h = rng.choice([("Europe/Berlin", 2021, 10, 31, 2), ("America/New_York", 2021, 11, 7, 1), ("Australia/Sydney", 2022, 4, 3, 2),
                                            ("Europe/London", 1999, 10, 31, 1)])
            x = dt.datetime(y, mo, d, h, rng.randrange(60), rng.randrange(60), n.microsecond, tzinfo=zoneinfo.ZoneInfo(zone), fold=rng.choice([0, 1]))
            return x, "aware-zoneinfo-fold%d" % x.fold, zone
        except Exception:
            return n, "naive", "naive"
    return n.date(), "date", "date"


def with_metadata(rng, x):
    """the same instant as a STIXdatetime that already carries (possibly different) precision metadata, e.g. a timestamp
    taken from another object's property"""
    from stix2.utils import STIXdatetime
    return STIXdatetime(x, precision=rng.choice(PRECISIONS), precision_constraint=rng.choice(CONSTRAINTS))


def in_range(us):
    return 0 <= us <= ts.MAX_US


def classify_text_mismatch(got, exp):
    if isinstance(got, str) and exp[0] == "0" and got == exp.lstrip("0") and exp[:4] != "0000":
        return "year-not-zero-padded"
    if isinstance(got, str) and ts.parse_text(got) is None:
        return "not-canonical-form"
    if isinstance(got, str):
        g, e = ts.text_instant(got), ts.text_instant(exp)
        if g == e:
            return "fraction-digit-count"
        if g is not None and g > e:
            return "rounded-up-or-later-instant"
        return "earlier-instant"
    return "not-a-string"


def judge(ctx, x, form, off, p, c, x_us):
    u = lib()
    ctx.ev()
    try:
        parsed = u.parse_into_datetime(x, p, c)
        got = u.format_datetime(parsed)
    except Exception as e:
        ctx.violation("raised-on-valid-input", "parse_into_datetime/format_datetime raised %s on a valid %s" % (type(e).__name__, form),
                      {"input": repr(x), "precision": p, "constraint": c, "exception": repr(e)})
        return None
    exp = ts.format_us(x_us, p, c)
    if got != exp:
        key = classify_text_mismatch(got, exp)
        ctx.violation(key, "timestamp written as %r, expected %r" % (got, exp),
                      {"input": repr(x), "form": form, "offset": off, "precision": p, "constraint": c, "got": got, "expected": exp})
        return got
    # the same value through the property class that every timestamp slot of every object uses
    ctx.ev()
    try:
        import stix2.properties as SP
        via_prop = u.format_datetime(SP.TimestampProperty(precision=p, precision_constraint=c).clean(x, False)[0])
        ctx.count("via_property_class")
        if via_prop != exp:
            ctx.violation(classify_text_mismatch(via_prop, exp), "a %s/%s timestamp property given %s writes %r, expected %r" % (p, c, form, via_prop, exp),
                          {"input": repr(x), "form": form, "offset": off, "precision": p, "constraint": c, "got": via_prop, "expected": exp, "route": "TimestampProperty.clean"})
    except Exception as e:
        ctx.violation("raised-on-valid-input", "TimestampProperty(%s/%s).clean raised %s on a valid %s" % (p, c, type(e).__name__, form),
                      {"input": repr(x), "precision": p, "constraint": c, "exception": repr(e)})
    # the clauses restated directly on the output (so they are checked even if oracle and output agree by construction)
    o = ts.text_us(got)
    unit = 1000000 if (p, c) == ("second", "exact") else 1000 if (p, c) == ("millisecond", "exact") else 1
    if not (o is not None and o <= x_us < o + unit and ts.digits_ok(got, p, c)):
        ctx.violation("truncation-or-digits", "output %r violates truncation/digit rule" % got,
                      {"input": repr(x), "precision": p, "constraint": c, "got": got})
    # fixed point: read back and write again
    ctx.ev()
    try:
        again = u.format_datetime(u.parse_into_datetime(got, p, c))
        if again != got:
            ctx.violation("fixed-point", "write-read-write changed %r into %r" % (got, again),
                          {"first": got, "second": again, "precision": p, "constraint": c})
    except Exception as e:
        key = "year-not-zero-padded" if ts.parse_text(got) is None and exp[0] == "0" else "own-output-unreadable"
        ctx.violation(key, "library cannot read back its own output %r" % got,
                      {"output": got, "precision": p, "constraint": c, "exception": repr(e)})
    return got


def wl_datetimes(ctx, rng, i):
    u = lib()
    for _ in range(BATCH):
        x, form, off = gen_input(rng)
        try:
            x_us = ts.datetime_us(x)
        except Exception:
            ctx.skip("utcoffset failed")
            continue
        if not in_range(x_us):
            ctx.skip("UTC instant outside years 1-9999")
            continue
        nontriv = x_us % 1000000 != 0 or off not in ("naive", "+00:00", "date", "pytz.utc", "UTC") or x.year < 1000
        for p, c in PC:
            got = judge(ctx, x, form, off, p, c, x_us)
            if form != "date":
                # the value arrives as a STIXdatetime with metadata of its own (same or different); only the target's counts
                xm = with_metadata(rng, x)
                judge(ctx, xm, "stixdatetime[%s/%s]" % (xm.precision.name.lower(), xm.precision_constraint.name.lower()), off, p, c, x_us)
                ctx.count("stixdatetime_inputs")
            if nontriv:
                ctx.nontrivial(x_us, off, p, c, form)
            ctx.see("input forms", form)
            ctx.see("precision/constraint", p + "/" + c)
        ctx.see("year digits", str(len(str(x.year))))
        ctx.see("microsecond trailing zeros", str(6 - len(str(x_us % 1000000).rstrip("0"))) if x_us % 1000000 else "none")
        # format_datetime on a STIXdatetime that carries precision metadata but was NOT truncated beforehand
        # (public class; this is the path on which format_datetime itself must truncate, never round)
        if form != "date":
            for p, c in PC:
                ctx.ev()
                try:
                    got = u.format_datetime(u.STIXdatetime(x, precision=p, precision_constraint=c))
                except Exception as e:
                    ctx.violation("raised-on-valid-input", "format_datetime(STIXdatetime(...)) raised %s" % type(e).__name__,
                                  {"input": repr(x), "precision": p, "constraint": c, "exception": repr(e)})
                    continue
                exp = ts.format_us(x_us, p, c)
                ctx.count("direct_stixdatetime")
                # a copy of the value is written like the value
                try:
                    import copy as _copy
                    sd = u.STIXdatetime(x, precision=p, precision_constraint=c)
                    import pickle as _pickle
                    for how, cp in (("deepcopy", _copy.deepcopy(sd)), ("deepcopy of a holder", _copy.deepcopy({"v": [sd]})["v"][0]),
                                    ("copy.copy", _copy.copy(sd)), ("pickle round trip (protocol %d)" % (ctx.counters.get("evaluations", 0) % 6),
                                                                    _pickle.loads(_pickle.dumps(sd, ctx.counters.get("evaluations", 0) % 6))),
                                    ("pickle round trip of a holder", _pickle.loads(_pickle.dumps({"v": [sd]}))["v"][0])):
                        ctx.count("copies_written")
                        gc = u.format_datetime(cp)
                        if gc != exp:
                            ctx.violation(classify_text_mismatch(gc, exp) + (":shallow-copy-or-pickle" if how.startswith(("copy.copy", "pickle")) else ""),
                                          "a %s of a %s/%s timestamp is written %r, the original %r" % (how, p, c, gc, exp),
                                          {"input": repr(x), "precision": p, "constraint": c, "got": gc, "expected": exp, "route": how})
                            break
                except Exception as e:
                    ctx.violation("raised-on-valid-input", "copying a STIXdatetime raised %s" % type(e).__name__, {"input": repr(x), "exception": repr(e)})
                if got != exp:
                    ctx.violation(classify_text_mismatch(got, exp), "format_datetime(STIXdatetime(%s/%s)) gave %r, expected %r" % (p, c, got, exp),
                                  {"input": repr(x), "precision": p, "constraint": c, "got": got, "expected": exp, "route": "STIXdatetime direct"})
        # both instants of a local time that occurs twice, written one after the other: equal as datetimes (comparison and hash ignore
        # fold within one zone object), an hour apart as instants -- each is written as the instant it denotes
        if form.startswith("aware-zoneinfo-fold"):
            twin = x.replace(fold=1 - x.fold)
            for p, c in PC[:3] + [("any", "exact")]:
                for val in (x, twin):
                    for how, arg in (("plain datetime", val), ("STIXdatetime", u.STIXdatetime(val, precision=p, precision_constraint=c))):
                        ctx.ev()
                        ctx.count("fold_twins_written")
                        try:
                            g2 = u.format_datetime(arg)
                        except Exception as e:
                            ctx.violation("raised-on-valid-input", "format_datetime raised %s on a %s in a zone with daylight saving time" % (type(e).__name__, how), {"input": repr(val), "exception": repr(e)})
                            continue
                        arg_us = ts.datetime_us(arg)
                        e2 = ts.format_us(arg_us, p, c) if how == "STIXdatetime" else ts.format_us(arg_us, "any", "exact")
                        if g2 != e2:
                            ctx.violation(classify_text_mismatch(g2, e2) + ":fold-twin", "the %s %r (fold=%d) is written %r, the instant it denotes is %r" % (how, val, val.fold, g2, e2),
                                          {"input": repr(val), "fold": val.fold, "route": how, "precision": p, "constraint": c, "got": g2, "expected": e2})
        # an object whose timestamp slot picks its precision from the value given (2.0 marking-definition.created): what it writes
        # is read back and written again unchanged
        if form != "date" and ctx.counters.get("evaluations", 0) % 7 == 0:
            try:
                import stix2
                # the value as it is, as the library's own timestamp object carrying any precision metadata (taken from another
                # object's property, from get_timestamp(), from parse_into_datetime()), as text, or left to the clock (None / [] = absent)
                xm = with_metadata(rng, x)
                for label, cv in (("datetime", x), ("stixdatetime[%s/%s]" % (xm.precision.name.lower(), xm.precision_constraint.name.lower()), xm),
                                  ("text", ts.format_us(x_us, "any")), ("absent:" + rng.choice(["None", "[]"]), None)):
                    if label.startswith("absent:"):
                        cv = None if label.endswith("None") else []
                    md = stix2.v20.MarkingDefinition(definition_type="statement", definition={"statement": "s"}, created=cv)
                    first = md.serialize()
                    second = stix2.parse(first, version="2.0").serialize()
                    # (an object that went through pickle -- to another process, say -- writes what the original writes; objects whose
                    # class cannot be pickled at all are not the subject)
                    import pickle as _pickle
                    if cv is not None and cv != []:
                        idn = stix2.v20.Identity(name="n", identity_class="individual", created=cv, modified=cv)
                        try:
                            unpickled = _pickle.loads(_pickle.dumps(idn)).serialize()
                        except Exception:
                            unpickled = None
                            ctx.skip("object not picklable")
                        ctx.count("pickled_objects")
                        if unpickled is not None and unpickled != idn.serialize():
                            ctx.violation("fixed-point:pickled-object", "a 2.0 identity writes %s, after a pickle round trip %s" % (
                                idn.serialize()[idn.serialize().find('"created"'):][:45], unpickled[unpickled.find('"created"'):][:45]),
                                {"input": repr(cv), "given_as": label, "first": idn.serialize(), "second": unpickled, "route": "pickle.loads(pickle.dumps(v20.Identity))"})
                            break
                    ctx.ev()
                    ctx.count("object_fixed_points")
                    ctx.see("2.0 statement marking created given as", label.split(":")[0].split("[")[0])
                    if first != second:
                        ctx.violation("fixed-point", "2.0 marking-definition built with created=%r (%s) writes %s, and after reading back %s" % (
                            cv, label, first[first.find('"created"'):first.find('"created"') + 45], second[second.find('"created"'):second.find('"created"') + 45]),
                            {"input": repr(cv), "given_as": label, "first": first, "second": second, "route": "v20.MarkingDefinition"})
                        break
            except Exception as e:
                if not isinstance(e, ValueError):
                    ctx.violation("raised-on-valid-input", "2.0 marking-definition with created=%r raised %s" % (x, type(e).__name__), {"input": repr(x), "exception": repr(e)})
        # direct formatting of a plain datetime or date (no precision metadata -> ANY); the JSON encoders send both here
        if True:
            ctx.ev()
            try:
                got = u.format_datetime(x)
                exp = ts.format_us(x_us)
                if got != exp:
                    ctx.violation(classify_text_mismatch(got, exp), "format_datetime(plain datetime) gave %r, expected %r" % (got, exp),
                                  {"input": repr(x), "got": got, "expected": exp})
            except Exception as e:
                ctx.violation("raised-on-valid-input", "format_datetime raised on a plain datetime", {"input": repr(x), "exception": repr(e)})
        # monotonicity against the next microsecond and a random later instant
        for delta in (1, rng.choice([999, 1000, 999999, 1000000, rng.randrange(1, 10 ** 9)])):
            y_us = x_us + delta
            if form == "date" or not in_range(y_us) or not in_range(ts.datetime_us(x.replace(tzinfo=None)) + delta):
                continue
            try:
                if x.tzinfo is not None and x.utcoffset() is not None:
                    # a later *instant*: arithmetic on the UTC value (local arithmetic ignores fold and zone transitions)
                    y = (x.astimezone(dt.timezone.utc) + dt.timedelta(microseconds=delta)).astimezone(x.tzinfo)
                else:
                    y = x + dt.timedelta(microseconds=delta)
                if ts.datetime_us(y) != y_us:
                    continue
            except (OverflowError, ValueError):
                continue
            for p, c in PC:
                ctx.ev()
                try:
                    gx = u.format_datetime(u.parse_into_datetime(x, p, c))
                    gy = u.format_datetime(u.parse_into_datetime(y, p, c))
                except Exception:
                    continue  # reported by judge()
                ix, iy = ts.text_instant(gx), ts.text_instant(gy)
                if ix is None or iy is None:
                    continue  # reported by judge()
                ctx.count("monotone_pairs")
                if ix > iy:
                    ctx.violation("order-reversed", "later instant written as earlier text",
                                  {"x": repr(x), "y": repr(y), "out_x": gx, "out_y": gy, "precision": p, "constraint": c})
        if ctx.want_sample() and nontriv and form.startswith("aware"):
            ctx.sample({"input": repr(x), "offset": off, "outputs": {
                "%s/%s" % (p, c): u.format_datetime(u.parse_into_datetime(x, p, c)) for p, c in PC},
                "oracle": {"%s/%s" % (p, c): ts.format_us(x_us, p, c) for p, c in PC}})


def wl_strings(ctx, rng, i):
    u = lib()
    for _ in range(BATCH):
        n = gen_naive(rng)
        nd = rng.choice([0, 1, 2, 3, 3, 4, 5, 6, 6, 7, 9, 12])
        base = "%04d-%02d-%02dT%02d:%02d:%02d" % (n.year, n.month, n.day, n.hour, n.minute, n.second)
        if nd:
            frac = "".join(rng.choice("0123456789") for _ in range(nd)) if rng.random() < 0.7 else \
                rng.choice(["0" * nd, "9" * nd, ("1" + "0" * nd)[:nd], ("0" * nd + "1")[-nd:]])
            text = base + "." + frac + "Z"
        else:
            text = base + "Z"
        x_us = ts.text_us(text)
        ctx.see("string fraction digits", str(nd))
        for p, c in PC:
            try:
                u.parse_into_datetime(text, p, c)
            except Exception:
                # acceptance of valid text is C03's subject; C15 speaks about *accepted* strings
                ctx.skip("string with %s fractional digits refused by parse_into_datetime" % ("<=6" if nd <= 6 else ">6"))
                continue
            judge(ctx, text, "string", "Z", p, c, x_us)
            if nd:
                ctx.nontrivial(text, p, c)
    # strings outside the canonical form that the reader may accept: output must still be canonical and stable
    for text in ["2020-1-5T1:2:3Z", "2020-01-05T01:02:03.5Z ", "2020-01-05T01:02:03.Z", "2020-01-05t01:02:03z",
                 "2020-01-05T01:02:03.1234567Z", "0999-01-01T00:00:00Z", "999-01-01T00:00:00Z", "+2020-01-05T01:02:03Z",
                 "2020-01-05T01:02:03Z\n", " 2020-01-05T01:02:03Z", "2020-01-05T01:02:60Z", "2020-02-30T00:00:00Z",
                 "２０２０-01-05T01:02:03Z"]:
        for p, c in PC:
            ctx.ev()
            try:
                got = u.format_datetime(u.parse_into_datetime(text, p, c))
            except Exception:
                ctx.count("noncanonical_refused")
                continue
            ctx.count("noncanonical_accepted")
            if ts.parse_text(got) is None or not ts.digits_ok(got, p, c):
                exp_like = "0" if text.startswith(("0999", "999")) else "x"
                ctx.violation("year-not-zero-padded" if exp_like == "0" and ts.parse_text("0" + got) is not None else "not-canonical-form",
                              "accepted %r but wrote non-canonical %r" % (text, got), {"input": text, "got": got, "precision": p, "constraint": c})


# pure by their documentation: a sample of the calls is repeated in a fresh interpreter, in reverse order (stixmon/echo.py)
ECHO = ['stix2.utils:format_datetime', 'stix2.utils:parse_into_datetime']
WORKLOADS = [
    Workload("datetimes", wl_datetimes, quick=500, thorough=40000),
    Workload("strings", wl_strings, quick=150, thorough=12000),
    __import__("stixmon.ambient", fromlist=["workload"]).workload("C15"),
]


def floors(m, tier):
    c = m["counters"]
    out = []
    if c.get("evaluations", 0) < 30000:
        out.append("fewer than 30000 evaluations (%d)" % c.get("evaluations", 0))
    if len(m["seen"].get("precision/constraint", ())) < 6:
        out.append("not all 6 precision/constraint combinations observed")
    if len(m["seen"].get("year digits", ())) < 4:
        out.append("not all year magnitudes observed")
    if c.get("monotone_pairs", 0) < 5000:
        out.append("fewer than 5000 ordered pairs compared")
    return out


MANIFEST = {
    "text": ("Every timestamp the real format_datetime/parse_into_datetime pair writes for generated datetimes, dates and "
             "strings (all six precision/constraint combinations) is compared with an integer-arithmetic formatter, and the "
             "truncation, digit-count, fixed-point and order clauses are asserted on the same outputs; the ambient layer "
             "additionally watches every timestamp printed while the repository's own suite runs (thorough tier). Echo monitor: a sample of the format/parse calls is repeated in a fresh interpreter in reverse order and must answer alike."),
    "note": "trusts stixmon/oracles/ts.py (selftested against datetime); explores a sample of the 3e17 instants, weighted to digit/year/offset boundaries",
    "technique": "runtime monitoring: differential oracle (integer-arithmetic timestamp codec) on every call/return; echo monitor (pure calls repeated in a fresh interpreter)",
}
