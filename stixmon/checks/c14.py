"""C14 -- a requested spec version is honoured everywhere and never alters strictness.

Events: for a dictionary d and version v in {None, "2.0", "2.1"}: the outcome (class of the resulting
object, 'dict', or refusal) of the direct parse and of the same d through every public entry point
that takes a version parameter (parse_observable, memory store/source/sink construction, add, load_from_file,
filesystem sink add, filesystem source get/all_versions/query over files written beforehand).
Oracle: every entry point's outcome equals the direct parse's outcome for the same (allow_custom, version).
"""
import json
import os
import shutil
import tempfile
import warnings

from ..ctx import Workload
from ..oracles import ts as tsor
from ..gen.objects import ObjGen
from ..oracles import validator
from ..spec import model as M

ID = "C14"
LEVEL = "exploration"
SHARDS = {"quick": 4, "thorough": 16}
RULE = ("one generated object per type per spec version, in its own form and (for types both versions define) presented under "
        "the other version, each with a valid identifier and with identifiers only relaxed mode admits (nil UUID, wrong variant, "
        "wrong version nibble for 2.0), x version in {None, 2.0, 2.1} x 16 entry points.  Non-trivial: every (dictionary, version, "
        "entry point) triple; distinct = distinct (type, form, id kind, version, entry point, outcome)")
ASSUMPTIONS = [
    "memory stores and the filesystem source are created with allow_custom=True (their default), so the reference is the direct parse with allow_custom=True and the same version",
    "MemorySink has no public read API: only accept/refuse is compared for it",
    "bundle members keep their own version by specification; bundles are used only for the 'recognised as V when no version is named' clause",
]
VERSIONS = [None, "2.0", "2.1"]
BAD_IDS = {
    "nil-uuid": "00000000-0000-0000-0000-000000000000",
    "bad-variant": "d83fce45-ef58-4c6c-23f4-1fbc32e98c6e",
    "version-1-uuid": "d83fce45-ef58-1c6c-a3f4-1fbc32e98c6e",
}


def cname(o):
    import stix2.base
    if isinstance(o, stix2.base._STIXBase):
        return type(o).__module__.replace("stix2.", "") + "." + type(o).__name__
    if isinstance(o, dict):
        return "dict"
    if o is None:
        return "none"
    return type(o).__name__


def outcome(fn):
    try:
        with warnings.catch_warnings():
            warnings.simplefilter("ignore")
            return cname(fn())
    except Exception as e:
        return "refused"


def without_generated_ids(written, given):
    """Two interpretations of one dictionary are compared as written content; identifiers the library had to invent (an
    observable without id and without id-contributing properties gets a random UUIDv4) differ between any two calls."""
    w = json.loads(json.dumps(written))
    if isinstance(w, dict):
        if "id" not in given:
            w.pop("id", None)
        objs, gobjs = w.get("objects"), given.get("objects")
        if isinstance(objs, dict) and isinstance(gobjs, dict):
            for k, o in objs.items():
                if isinstance(o, dict) and isinstance(gobjs.get(k), dict) and "id" not in gobjs[k]:
                    o.pop("id", None)
    return w


def write_fs(root, d, legacy=False, bundlified=False):
    """Lay d out the way FileSystemSink would (type/id/modified.json or type/id.json).  legacy=True: the older flat layout
    type/id.json for a versioned object, next to another object of the same type in the versioned layout (both are documented
    as readable)."""
    tdir = os.path.join(root, d["type"])
    if legacy and "modified" in d:
        os.makedirs(tdir, exist_ok=True)
        with open(os.path.join(tdir, d["id"] + ".json"), "w", encoding="utf-8") as f:
            json.dump(d, f)
        sib = dict(d)
        sib["id"] = d["type"] + "--11111111-2222-4333-8444-555555555555"
        return write_fs(root, sib)
    if "modified" in d:
        odir = os.path.join(tdir, d["id"])
        os.makedirs(odir, exist_ok=True)
        path = os.path.join(odir, "".join(c for c in d["modified"] if c.isdigit()) + ".json")
    else:
        os.makedirs(tdir, exist_ok=True)
        path = os.path.join(tdir, d["id"] + ".json")
    with open(path, "w", encoding="utf-8") as f:
        if bundlified:
            wrapper = {"type": "bundle", "id": "bundle--d83fce45-ef58-4c6c-a3f4-1fbc32e98c6e", "objects": [d]}
            if bundlified == "several":
                # a hand-made file: the object asked for comes first, others follow
                sib = dict(d)
                sib["id"] = d["type"] + "--11111111-2222-4333-8444-555555555555"
                wrapper["objects"] = [d, sib, dict(sib, id=d["type"] + "--11111111-2222-4333-8444-666666666666")]
            if "spec_version" not in d:
                wrapper["spec_version"] = "2.0"      # what a 2.0 bundle written by the sink carries
            json.dump(wrapper, f)
        else:
            json.dump(d, f)
    return path


def entry_points(d, v, tmp):
    import stix2
    from stix2 import Filter
    sid = d["id"]
    eps = []

    def mem_store_ctor():
        return stix2.MemoryStore(stix_data=[dict(d)], version=v).get(sid)

    def mem_store_ctor_bundleform():
        return stix2.MemoryStore(stix_data=dict(d), version=v).get(sid)

    def mem_source_ctor():
        return stix2.MemorySource(stix_data=[dict(d)], version=v).get(sid)

    def mem_sink_ctor():
        stix2.MemorySink(stix_data=[dict(d)], version=v)
        return None

    def mem_store_add():
        s = stix2.MemoryStore()
        s.add(dict(d), version=v)
        return s.get(sid)

    def mem_store_add_list():
        s = stix2.MemoryStore()
        s.add([dict(d)], version=v)
        return s.get(sid)

    def mem_sink_add():
        stix2.MemorySink().add(dict(d), version=v)
        return None

    def mem_load_file():
        p = os.path.join(tmp, "one.json")
        with open(p, "w") as f:
            json.dump(d, f)
        s = stix2.MemoryStore()
        s.load_from_file(p, version=v)
        return s.get(sid)

    def mem_source_load_file():
        p = os.path.join(tmp, "two.json")
        with open(p, "w") as f:
            json.dump({"type": "bundle", "id": "bundle--d83fce45-ef58-4c6c-a3f4-1fbc32e98c6e", "objects": [d]} if "spec_version" in d or True else d, f)
        s = stix2.MemorySource()
        s.load_from_file(p, version=v)
        return s.get(sid)

    def fs_dir():
        p = tempfile.mkdtemp(dir=tmp)
        return p

    def fs_sink_add():
        root = fs_dir()
        stix2.FileSystemSink(root, allow_custom=True).add(dict(d), version=v)
        # what was written must be what the direct parse would serialise
        files = [os.path.join(dp, f) for dp, _, fs in os.walk(root) for f in fs]
        with open(files[0], encoding="utf-8") as f:
            written = json.load(f)
        return ("written", written)

    BUN = {"type": "bundle", "id": "bundle--d83fce45-ef58-4c6c-a3f4-1fbc32e98c6e"}

    def mem_store_add_bundle_dict():
        s = stix2.MemoryStore()
        s.add(dict(BUN, objects=[dict(d)]), version=v)
        return s.get(sid)

    def fs_sink_add_bundle_dict():
        root = fs_dir()
        stix2.FileSystemSink(root, allow_custom=True).add(dict(BUN, objects=[dict(d)]), version=v)
        files = [os.path.join(dp, f) for dp, _, fs in os.walk(root) for f in fs]
        with open(files[0], encoding="utf-8") as f:
            written = json.load(f)
        return ("written", written)

    def mem_store_add_bundle20_dict():
        s = stix2.MemoryStore()
        s.add(dict(BUN, spec_version="2.0", objects=[dict(d)]), version=v)
        return s.get(sid)

    def mem_store_ctor_bundle20_dict():
        return stix2.MemoryStore(stix_data=dict(BUN, spec_version="2.0", objects=[dict(d)]), version=v).get(sid)

    def mem_load_bundle20_file():
        p = os.path.join(tmp, "three.json")
        with open(p, "w") as f:
            json.dump(dict(BUN, spec_version="2.0", objects=[d]), f)
        s = stix2.MemoryStore()
        s.load_from_file(p, version=v)
        return s.get(sid)

    def fs_sink_add_bundle20_dict():
        root = fs_dir()
        stix2.FileSystemSink(root, allow_custom=True).add(dict(BUN, spec_version="2.0", objects=[dict(d)]), version=v)
        files = [os.path.join(dp, f) for dp, _, fs in os.walk(root) for f in fs]
        with open(files[0], encoding="utf-8") as f:
            written = json.load(f)
        return ("written", written)

    def fs_sink_add_bundle_text():
        root = fs_dir()
        stix2.FileSystemSink(root, allow_custom=True).add(json.dumps(dict(BUN, objects=[dict(d)])), version=v)
        files = [os.path.join(dp, f) for dp, _, fs in os.walk(root) for f in fs]
        with open(files[0], encoding="utf-8") as f:
            written = json.load(f)
        return ("written", written)

    def fs_sink_add_bundle_text_layout():
        # the same text as another JSON writer lays it out: blanks around ':' and ',', indentation, members in another order
        root = fs_dir()
        members = dict(reversed(list(dict(BUN, objects=[dict(d)]).items())))
        text = "\n  " + json.dumps(members, indent=3, separators=(" , ", " : ")) + "\n"
        stix2.FileSystemSink(root, allow_custom=True).add(text, version=v)
        files = [os.path.join(dp, f) for dp, _, fs in os.walk(root) for f in fs]
        with open(files[0], encoding="utf-8") as f:
            written = json.load(f)
        return ("written", written)

    def fs_bundlified_get():
        # a file as FileSystemSink(bundlify=True) writes it: the object wrapped in a bundle
        root = fs_dir()
        write_fs(root, d, bundlified=True)
        return stix2.FileSystemSource(root).get(sid, version=v)

    def fs_bundlified_several_get():
        root = fs_dir()
        write_fs(root, d, bundlified="several")
        return stix2.FileSystemSource(root).get(sid, version=v)

    def fs_bundlified_query():
        root = fs_dir()
        write_fs(root, d, bundlified=True)
        r = stix2.FileSystemSource(root).query([Filter("id", "=", sid)], version=v)
        return r[0] if r else None

    def fs_store_add_get():
        root = fs_dir()
        st = stix2.FileSystemStore(root, allow_custom=True)
        st.sink.add(dict(d), version=v)
        return st.source.get(sid, version=v)

    def fs_source_get():
        root = fs_dir()
        write_fs(root, d)
        return stix2.FileSystemSource(root).get(sid, version=v)

    def fs_source_all_versions():
        root = fs_dir()
        write_fs(root, d)
        r = stix2.FileSystemSource(root).all_versions(sid, version=v)
        return r[0] if r else None

    def fs_source_query():
        root = fs_dir()
        write_fs(root, d)
        r = stix2.FileSystemSource(root).query([Filter("type", "=", d["type"])], version=v)
        return r[0] if r else None

    def fs_legacy_get():
        root = fs_dir()
        write_fs(root, d, legacy=True)
        return stix2.FileSystemSource(root).get(sid, version=v)

    def fs_legacy_query():
        root = fs_dir()
        write_fs(root, d, legacy=True)
        r = [x for x in stix2.FileSystemSource(root).query([Filter("id", "=", sid)], version=v)]
        return r[0] if r else None

    import collections
    other = {"2.0": "2.1", "2.1": "2.0", None: "2.0"}[v]

    def mem_add_ordered():
        s = stix2.MemoryStore()
        s.add(collections.OrderedDict(d), version=v)
        return s.get(sid)

    def mem_add_ordered_bundle():
        s = stix2.MemoryStore()
        s.add(collections.OrderedDict(BUN, objects=[collections.OrderedDict(d)]), version=v)
        return s.get(sid)

    def fs_add_ordered():
        root = fs_dir()
        stix2.FileSystemSink(root, allow_custom=True).add(collections.OrderedDict(d), version=v)
        files = [os.path.join(dp, f) for dp, _, fs in os.walk(root) for f in fs]
        with open(files[0], encoding="utf-8") as f:
            return ("written", json.load(f))

    def fs_add_ordered_bundle():
        root = fs_dir()
        stix2.FileSystemSink(root, allow_custom=True).add(collections.OrderedDict(BUN, objects=[dict(d)]), version=v)
        files = [os.path.join(dp, f) for dp, _, fs in os.walk(root) for f in fs]
        with open(files[0], encoding="utf-8") as f:
            return ("written", json.load(f))

    def after_other(read):
        # history: the same content was first added with the other version named (if that was accepted at all); the operation
        # which names v comes last, and what the store answers afterwards is its reading
        def run():
            s = stix2.MemoryStore()
            try:
                s.add(dict(d), version=other)
            except Exception:
                pass
            s.add(dict(d), version=v)
            if read == "get":
                return s.get(sid)
            r = s.all_versions(sid) if read == "all_versions" else s.query([Filter("id", "=", sid)])
            if len(r) > 1:
                raise AssertionError("one version added twice is held %d times" % len(r))
            return r[0] if r else None
        return run

    def fs_after_other_reads(read, same_source):
        # history: the file was first read with no version named and with the other version named (whatever came of it), through
        # the same source object or another one; the read which names v comes last and is answered as if it were the first
        def run():
            root = fs_dir()
            write_fs(root, d)
            src = stix2.FileSystemSource(root)
            for v0 in (None, other):
                for first in (lambda: src.get(sid, version=v0), lambda: src.all_versions(sid, version=v0), lambda: src.query([Filter("id", "=", sid)], version=v0)):
                    try:
                        first()
                    except Exception:
                        pass
            if not same_source:
                src = stix2.FileSystemSource(root)
            if read == "get":
                return src.get(sid, version=v)
            r = src.all_versions(sid, version=v) if read == "all_versions" else src.query([Filter("id", "=", sid)], version=v)
            return r[0] if r else None
        return run

    if v is not None:
        eps += [("FileSystemSource reads with no / the other version, then %s(version) [%s]" % (rd, "same source" if same else "another source"), fs_after_other_reads(rd, same), "class")
                for rd in ("get", "all_versions", "query") for same in (True, False)]
    us = tsor.text_us(d["modified"]) if isinstance(d.get("modified"), str) else None
    if v is not None and us is not None and us % 1000 == 0:
        # (only where both readings keep the same modified time: a 2.0 reading cuts microseconds off, which makes another version)
        eps += [("MemoryStore.add(d, other version) then add(d, version): get", after_other("get"), "class"),
                ("MemoryStore.add(d, other version) then add(d, version): all_versions", after_other("all_versions"), "class"),
                ("MemoryStore.add(d, other version) then add(d, version): query", after_other("query"), "class")]
    eps += [("MemoryStore.add(OrderedDict, version)", mem_add_ordered, "class"), ("FileSystemSink.add(OrderedDict, version)", fs_add_ordered, "written")]
    if d.get("type") != "bundle":
        eps += [("MemoryStore.add(OrderedDict bundle, version)", mem_add_ordered_bundle, "class"),
                ("FileSystemSink.add(OrderedDict bundle, version)", fs_add_ordered_bundle, "written")]
    eps += [("MemoryStore(stix_data=[d], version)", mem_store_ctor, "class"), ("MemorySource(stix_data=[d], version)", mem_source_ctor, "class"),
            ("MemorySink(stix_data=[d], version)", mem_sink_ctor, "accept"), ("MemoryStore.add(d, version)", mem_store_add, "class"),
            ("MemoryStore.add([d], version)", mem_store_add_list, "class"), ("MemorySink.add(d, version)", mem_sink_add, "accept"),
            ("MemoryStore.load_from_file(path, version)", mem_load_file, "class"),
            ("MemorySource.load_from_file(bundle path, version)", mem_source_load_file, "class"),
            ("FileSystemSink.add(d, version)", fs_sink_add, "written"), ("FileSystemSink.add + FileSystemSource.get(version)", fs_store_add_get, "class"),
            ("FileSystemSource.get(id, version)", fs_source_get, "class"), ("FileSystemSource.all_versions(id, version)", fs_source_all_versions, "class"),
            ("FileSystemSource.query(filters, version)", fs_source_query, "class")]
    if d.get("type") != "bundle":
        # a bundle given as a dictionary is a list of objects to the sinks (the memory sink documents it so): the named
        # version is for them
        eps += [("MemoryStore.add(bundle dict, version)", mem_store_add_bundle_dict, "class"),
                ("FileSystemSink.add(bundle dict, version)", fs_sink_add_bundle_dict, "written"),
                ("FileSystemSink.add(bundle JSON text, version)", fs_sink_add_bundle_text, "written"),
                ("FileSystemSink.add(bundle JSON text in another layout, version)", fs_sink_add_bundle_text_layout, "written"),
                ("FileSystemSource.get(id, version) [bundlified file]", fs_bundlified_get, "class"),
                ("FileSystemSource.query(id, version) [bundlified file]", fs_bundlified_query, "class"),
                ("FileSystemSource.get(id, version) [bundle file with several objects]", fs_bundlified_several_get, "class")]
        if v is not None and "spec_version" not in d:
            # the wrapper's own spec_version property does not outrank the version the caller names
            eps += [("MemoryStore.add(bundle dict with spec_version, version)", mem_store_add_bundle20_dict, "class"),
                    ("MemoryStore(stix_data=bundle dict with spec_version, version)", mem_store_ctor_bundle20_dict, "class"),
                    ("MemoryStore.load_from_file(bundle file with spec_version, version)", mem_load_bundle20_file, "class"),
                    ("FileSystemSink.add(bundle dict with spec_version, version)", fs_sink_add_bundle20_dict, "written")]
    if "modified" in d:
        eps += [("FileSystemSource.get(id, version) [legacy flat file]", fs_legacy_get, "class"),
                ("FileSystemSource.query(id, version) [legacy flat file]", fs_legacy_query, "class")]
    return eps


def subjects():
    out = []
    for ver in ("2.0", "2.1"):
        for t in ObjGen(None, ver).creatable_types():
            if t == "bundle":
                continue
            out.append((ver, t))
    return out


SUBJECTS = subjects()


def wl_dicts(ctx, rng, i):
    import stix2
    ver, t = SUBJECTS[i % len(SUBJECTS)]
    rnd = i // len(SUBJECTS)
    g = ObjGen(rng, ver, hostile=False, ts_max_digits=3, openvocab_custom=False, extensions=False)
    o = g.make(t, "min" if rnd % 2 == 0 else "random", granular=False)
    if validator.validate(o, ver):
        ctx.skip("generator error")
        return
    variants = [("valid-id", o)]
    for name, u in BAD_IDS.items():
        if name == "version-1-uuid" and ver != "2.0":
            continue
        if t == "marking-definition" and o.get("definition_type") == "tlp":
            continue
        oo = dict(o)
        oo["id"] = "%s--%s" % (t, u)
        variants.append((name, oo))
    tmp = tempfile.mkdtemp(prefix="stixmon-c14-")
    try:
        for idkind, d in variants:
            # history: the same content (and so the same identifier text) was first read under the more lenient version
            outcome(lambda: stix2.parse(dict(d), allow_custom=True, version="2.1"))
            outcome(lambda: stix2.v21.Identity(name="p", created_by_ref="identity--" + d["id"].split("--", 1)[1]))
            # a version value the library does not know is refused -- it must not silently switch validation off
            for bogus in ("21", "2.2", "v21", 2.1, "2.10"):
                for lab, fn in (("parse", lambda: stix2.parse(dict(d), allow_custom=True, version=bogus)),
                                ("MemoryStore.add", lambda: stix2.MemoryStore().add(dict(d), version=bogus)),
                                ("parse_observable", lambda: stix2.parse_observable(dict(d), [], allow_custom=True, version=bogus))):
                    if idkind != "valid-id" and lab != "parse":
                        continue
                    r = outcome(fn)
                    ctx.ev()
                    ctx.count("unsupported_version_probes")
                    if r != "refused":
                        ctx.violation("unsupported-version-accepted", "%s with version=%r did not refuse (%s)" % (lab, bogus, r), {"input": d, "version": repr(bogus), "entry_point": lab})
            if idkind == "valid-id":
                # ... neither does a spec_version in the content that names no version the library knows
                for junk in ("2.2", 2.1, "21", ""):
                    r = outcome(lambda: stix2.parse(dict(d, spec_version=junk), allow_custom=True))
                    ctx.ev()
                    ctx.count("unsupported_version_probes")
                    if r != "refused" and junk != "":
                        ctx.violation("unsupported-version-accepted", "parse of content whose spec_version is %r did not refuse (%s)" % (junk, r), {"input": dict(d, spec_version=junk), "entry_point": "parse (version detected)"})
            for v in VERSIONS:
                ref = outcome(lambda: stix2.parse(dict(d), allow_custom=True, version=v))
                if idkind == "version-1-uuid" and v == "2.0" and ref != "refused":
                    # 2.0 identifiers are UUIDv4; naming 2.0 never relaxes that, whatever was read before
                    ctx.violation("strictness-relaxed:uuid-version", "a non-UUIDv4 identifier was accepted with version='2.0' named (after the same content had been read as 2.1)",
                                  {"input": d, "version": v, "id_kind": idkind, "outcome": ref})
                ctx.see("direct outcomes", "%s/%s/%s" % (idkind, v, "refused" if ref == "refused" else "accepted"))
                # the strict direct parse and parse_observable as further reference points
                strict = outcome(lambda: stix2.parse(dict(d), allow_custom=False, version=v))
                ctx.ev()
                if strict != "refused" and ref == "refused":
                    ctx.violation("strict-accepts-what-custom-refuses", "allow_custom=True refused what strict mode accepts",
                                  {"input": d, "version": v})
                if M.model(ver).types[t]["cat"] == "sco":
                    po = outcome(lambda: stix2.parse_observable(dict(d), [], allow_custom=True, version=v))
                    ctx.ev()
                    ctx.nontrivial(t, ver, idkind, v, "parse_observable", po)
                    if po != ref:
                        ctx.violation("entry-point-disagrees:parse_observable", "parse_observable(version=%r) gave %s, direct parse gave %s" % (v, po, ref),
                                      {"input": d, "version": v, "id_kind": idkind, "entry_point": "parse_observable", "got": po, "direct_parse": ref})
                ref_written = None
                if ref not in ("refused", "dict"):
                    with warnings.catch_warnings():
                        warnings.simplefilter("ignore")
                        ref_written = json.loads(stix2.parse(dict(d), allow_custom=True, version=v).serialize())
                for name, fn, mode in entry_points(d, v, tmp):
                    ctx.ev()
                    try:
                        with warnings.catch_warnings():
                            warnings.simplefilter("ignore")
                            r = fn()
                        if mode == "written":
                            got = "accepted"
                            got_written = r[1]
                        else:
                            got = cname(r) if mode == "class" else "accepted"
                    except Exception as e:
                        got = "refused"
                    ctx.see("entry points", name)
                    ctx.nontrivial(t, ver, idkind, v, name, got)
                    if mode == "class":
                        ok = (got == ref)
                    else:
                        ok = (got == "refused") == (ref == "refused")
                    if ok and mode == "written" and got != "refused" and ref_written is not None and \
                            without_generated_ids(got_written, d) != without_generated_ids(ref_written, d):
                        ok = False
                        got = "wrote different content"
                    if not ok:
                        short = name.split("(")[0]
                        ctx.violation("entry-point-disagrees:" + short, "%s with version=%r on a %s %s (%s): %s, but direct parse: %s" % (
                            name, v, ver, t, idkind, got, ref),
                            {"input": d, "version": v, "id_kind": idkind, "entry_point": name, "got": got, "direct_parse": ref,
                             "direct_strict_parse": strict})
        if ctx.want_sample():
            ctx.sample({"dictionary": o, "id_kinds": [k for k, _ in variants], "versions": [str(v) for v in VERSIONS], "entry_points": 13})
    finally:
        shutil.rmtree(tmp, ignore_errors=True)


def wl_produced(ctx, rng, i):
    """With no version named, content the library produced for version V is recognised as version V."""
    import stix2
    ver, t = SUBJECTS[i % len(SUBJECTS)]
    g = ObjGen(rng, ver, hostile=False, ts_max_digits=3, openvocab_custom=False)
    o = g.make(t, "random", granular=False)
    if validator.validate(o, ver):
        ctx.skip("generator error")
        return
    try:
        with warnings.catch_warnings():
            warnings.simplefilter("ignore")
            obj = stix2.parse(dict(o), allow_custom=False, version=ver)
            text = obj.serialize()
    except Exception:
        ctx.skip("base refused (C03's subject)")
        return
    want = cname(obj)
    d = json.loads(text)
    tmp = tempfile.mkdtemp(prefix="stixmon-c14-")
    try:
        checks = [("parse(text)", lambda: stix2.parse(text)), ("parse(dict)", lambda: stix2.parse(d))]
        b = {"type": "bundle", "id": "bundle--d83fce45-ef58-4c6c-a3f4-1fbc32e98c6e", "objects": [d]}
        if ver == "2.0":
            b["spec_version"] = "2.0"
        checks.append(("parse(bundle).objects[0]", lambda: stix2.parse(json.dumps(b), allow_custom=True)["objects"][0]))
        for name, fn, mode in entry_points(d, None, tmp):
            if mode == "class":
                checks.append((name, fn))
        for name, fn in checks:
            got = outcome(fn)
            ctx.ev()
            ctx.nontrivial(t, ver, name)
            if got != want:
                ctx.violation("produced-content-not-recognised:" + name.split("(")[0], "%s %s written by the library came back as %s through %s" % (ver, t, got, name),
                              {"text": text[:2000], "entry_point": name, "expected_class": want, "got": got})
        ctx.count("produced_checked")
    finally:
        shutil.rmtree(tmp, ignore_errors=True)


def wl_nested_objects(ctx, rng, i):
    """Content given as a dictionary whose nested parts are library objects already -- built under the same or under the other version: the
    named version reaches them like the dictionaries they stand for."""
    import stix2
    built_under = ["2.0", "2.1"][i % 2]
    v = ["2.0", "2.1", None][(i // 2) % 3]
    t, props = [("file", {"name": "f.txt"}), ("domain-name", {"value": "example.com"}), ("ipv4-addr", {"value": "198.51.100.7"}),
                ("file", {"name": "g.txt", "parent_directory_ref": "1" if built_under == "2.0" else "directory--5b3b0b3c-0a4e-4f0f-9c57-0d7f7a1b2c77"})][(i // 6) % 4]
    nj = dict({"type": t}, **props)
    try:
        with warnings.catch_warnings():
            warnings.simplefilter("ignore")
            if built_under == "2.0":
                nested = stix2.parse_observable(dict(nj), {"1": "directory"}, version="2.0")
            else:
                nested = stix2.parse(dict(nj, spec_version="2.1"), version="2.1")
            as_json = json.loads(nested.serialize())
    except Exception as e:
        ctx.skip("nested object not constructible (%s)" % type(e).__name__)
        return
    od = {"type": "observed-data", "id": "observed-data--5b3b0b3c-0a4e-4f0f-9c57-0d7f7a1b2c%02x" % (i % 250), "created": "2020-01-01T00:00:00.000Z", "modified": "2020-01-01T00:00:00.000Z",
          "first_observed": "2020-01-01T00:00:00Z", "last_observed": "2020-01-01T00:00:00Z", "number_observed": 1}
    if (i // 24) % 2:
        od["spec_version"] = "2.1"
    other = {"type": "directory", "path": "/tmp"} if built_under == "2.0" else {"type": "directory", "spec_version": "2.1", "id": "directory--5b3b0b3c-0a4e-4f0f-9c57-0d7f7a1b2c77", "path": "/tmp"}

    def nested_class(fn):
        try:
            with warnings.catch_warnings():
                warnings.simplefilter("ignore")
                r = fn()
            el = r["objects"]["0"]
            return "%s.%s" % (type(el).__module__.replace("stix2.", ""), type(el).__name__) if not isinstance(el, dict) else "dict"
        except Exception:
            return "refused"
    kw = {} if v is None else {"version": v}
    for strict in (True, False):
        ref = nested_class(lambda: stix2.parse(dict(od, objects={"0": dict(as_json), "1": dict(other)}), allow_custom=not strict, **kw))
        for name, fn in (("parse(dictionary holding library objects, version)", lambda: stix2.parse(dict(od, objects={"0": nested, "1": dict(other)}), allow_custom=not strict, **kw)),
                         ("MemoryStore.add(dictionary holding library objects, version)",
                          lambda: (lambda s_: (s_.add(dict(od, objects={"0": nested, "1": dict(other)}), **kw), s_.get(od["id"]))[1])(stix2.MemoryStore(allow_custom=not strict)))):
            got = nested_class(fn)
            ctx.ev()
            ctx.count("nested_object_cases")
            ctx.nontrivial("nested", built_under, str(v), t, strict, name.split("(")[0], got)
            ctx.see("entry points", name)
            if got != ref:
                ctx.violation("entry-point-disagrees:nested-library-object", "%s with version=%r (%s): the contained %s built under %s came out as %s; the same content as plain JSON: %s" % (
                    name, v, "strict" if strict else "lenient", t, built_under, got, ref),
                    {"container": od, "nested_json": as_json, "built_under": built_under, "version": v, "strict": strict, "got": got, "as_plain_json": ref})


WORKLOADS = [
    Workload("nested-library-objects", wl_nested_objects, quick=96, thorough=96),
    Workload("dicts", wl_dicts, quick=lambda: len(SUBJECTS), thorough=lambda: len(SUBJECTS) * 100),
    Workload("produced", wl_produced, quick=lambda: len(SUBJECTS) * 2, thorough=lambda: len(SUBJECTS) * 200),
]


def floors(m, tier):
    c = m["counters"]
    out = []
    if c.get("evaluations", 0) < 5000:
        out.append("fewer than 5000 outcomes compared")
    if len(m["seen"].get("entry points", ())) < 13:
        out.append("not all 13 store entry points observed")
    d = m["seen"].get("direct outcomes", set())
    if not any(x.startswith("nil-uuid") and x.endswith("refused") for x in d):
        out.append("the direct parse never refused a relaxed-only identifier: strictness clause not exercised")
    if not any(x.startswith("valid-id") and x.endswith("accepted") for x in d):
        out.append("the direct parse never accepted a valid object")
    return out


MANIFEST = {
    "text": ("The same dictionary is pushed through the direct parser and through every store/source/sink operation that takes a "
             "version argument, for version None/2.0/2.1 and for identifiers that only relaxed validation admits; the observed "
             "outcome (resulting class, kept-as-dict, refusal, file content written) must match the direct parse.  A version argument "
             "routed to the wrong parameter shows up as a class or strictness disagreement.  Exploration over all types of both versions."),
    "note": "reference = the library's own direct parse (differential between entry points), so a defect common to all entry points is C02/C03's to catch",
    "technique": "runtime monitoring: differential oracle across entry points on recorded outcomes (class / refusal / written file)",
}
