"""C18 -- federated sources and relationship navigation equal a scan of the data.

Events: a population partitioned over 1-4 member sources (memory and filesystem, overlapping copies, split versions),
attached in every order; get / all_versions / query / relationships / related_to / creator_of through
CompositeDataSource, each single store, and Environment(store=...) / Environment(source=..., sink=...).
Oracle: list model of the union (newest instant wins regardless of order; each distinct (id, instant) once; composite
filters applied to every member); navigation results equal a scan of the stored relationship objects.
ObjectFactory defaults are checked against a dict-merge model over sequences of create() calls.
"""
import itertools
import json
import os
import shutil
import tempfile
import warnings

from ..ctx import Workload
from ..gen import values as V
from ..gen.objects import ObjGen
from ..oracles import compare
from ..oracles import ts as tsor
from ..oracles.storemodel import ListModel, Unjudged, evaluate, version_instant
from .c12 import TS_PROPS, fdesc, gen_filter, key, norm, to_lib

ID = "C18"
LEVEL = "exploration"
SHARDS = {"quick": 8, "thorough": 16}
RULE = ("populations of identities, domain objects and relationships (several versions, dangling and self-referencing "
        "relationships) partitioned over 1-4 member sources with overlapping copies and versions split between members, attached in "
        "every order (all permutations up to 3 members, 6 sampled for 4); every id looked up, every object navigated with every "
        "combination of relationship_type / source_only / target_only / extra filters; composite-attached filters; environments.  "
        "Non-trivial: an answer that needs data from two members or depends on member order; "
        "distinct = distinct (partition shape, attachment order, operation, options)")
ASSUMPTIONS = [
    "relationship navigation is defined by a scan of stored relationship objects of type 'relationship' (all stored versions), as the DataSource documentation describes",
    "answers are compared as sets of (id, modified instant); duplicates of one (id, version) are reported separately",
    "semantically unsettled filter/value combinations are skipped (see C12)",
]


def setup(ctx):
    pass


def population(rng):
    import stix2
    g = ObjGen(rng, "2.1", hostile=False, ts_max_digits=3, openvocab_custom=False, extensions=False, year_range=(2016, 2022))
    objs = []
    idents = [g.make("identity", "min") for _ in range(2)]
    nodes = []
    for t in rng.sample(["malware", "tool", "campaign", "threat-actor", "attack-pattern", "indicator"], 4):
        o = g.make(t, "random", granular=False)
        o.pop("revoked", None)
        if rng.random() < 0.8:
            o["created_by_ref"] = rng.choice(idents)["id"] if rng.random() < 0.85 else g.new_id("identity")
        else:
            o.pop("created_by_ref", None)
        nodes.append(o)
    rels = []
    all_nodes = nodes + idents
    for _ in range(rng.choice([3, 4, 6])):
        a, b = rng.choice(all_nodes), rng.choice(all_nodes)
        if rng.random() < 0.15:
            b = a                      # a relationship from an object to itself is one relationship
        r = {"type": "relationship", "spec_version": "2.1", "id": g.new_id("relationship"), "created": "2019-01-01T00:00:00.000Z",
             "modified": "2019-01-01T00:00:00.000Z", "relationship_type": rng.choice(["uses", "targets", "related-to", "uses"]),
             "source_ref": a["id"], "target_ref": b["id"] if rng.random() < 0.85 else g.new_id("tool")}
        rels.append(r)
    # a sighting must never count as a relationship
    sight = {"type": "sighting", "spec_version": "2.1", "id": g.new_id("sighting"), "created": "2019-01-01T00:00:00.000Z",
             "modified": "2019-01-01T00:00:00.000Z", "sighting_of_ref": nodes[0]["id"]}
    if rng.random() < 0.5:
        # an identifier written with upper-case hexadecimal digits (legal), the only one of its type: wherever it is referred to as well
        o_up = rng.choice(nodes)
        old_id = o_up["id"]
        new_id = old_id.split("--", 1)[0] + "--" + old_id.split("--", 1)[1].upper()
        if new_id != old_id:
            for o_ in idents + nodes + rels + [sight]:
                for k_, v_ in list(o_.items()):
                    if v_ == old_id:
                        o_[k_] = new_id
    versions = []
    for o in idents + nodes + rels + [sight]:
        base = tsor.text_us(o["modified"])
        for vi in range(rng.choice([1, 1, 2, 3])):
            ov = dict(o)
            ov["modified"] = tsor.format_us(base + vi * rng.choice([1, 1000, 10 ** 6]), "millisecond", "min")
            if vi and o["type"] == "relationship" and rng.random() < 0.3:
                ov["relationship_type"] = "related-to"
            if vi and "name" in ov:
                ov["name"] = "%s v%d" % (str(ov["name"])[:12], vi)
            try:
                with warnings.catch_warnings():
                    warnings.simplefilter("ignore")
                    versions.append(stix2.parse(json.dumps(ov)))
            except Exception:
                break
    return versions


def scan_relationships(items, obj_id, relationship_type, source_only, target_only):
    out = []
    for j in items:
        if j["type"] != "relationship":
            continue
        if relationship_type and j.get("relationship_type") != relationship_type:
            continue
        if (not target_only and j.get("source_ref") == obj_id) or (not source_only and j.get("target_ref") == obj_id):
            out.append(j)
    return out


def scan_related(items, obj_id, relationship_type, source_only, target_only, filters):
    ids = set()
    for r in scan_relationships(items, obj_id, relationship_type, source_only, target_only):
        ids.update((r["source_ref"], r["target_ref"]))
    ids.discard(obj_id)
    return [j for j in evaluate(filters, items, TS_PROPS) if j["id"] in ids]


def keys(objs):
    return [key(norm(x)) for x in objs]


def judge_set(ctx, label, got_objs, exp_items, case, mech_hint=None):
    ctx.ev()
    gk = keys(got_objs)
    ek = {key(j) for j in exp_items}
    if set(gk) != ek:
        missing, extra = ek - set(gk), set(gk) - ek
        ctx.violation(mech_hint or ("federation-mismatch:" + label.split("(")[0]), "%s: %d expected, %d returned (missing %d, unexpected %d)" % (label, len(ek), len(set(gk)), len(missing), len(extra)),
                      dict(case, operation=label, missing=[list(map(str, k)) for k in sorted(missing, key=str)[:4]],
                           unexpected=[list(map(str, k)) for k in sorted(extra, key=str)[:4]]))
        return False
    if len(gk) != len(set(gk)):
        ctx.violation("duplicate-versions:" + label.split("(")[0], "%s returned the same (id, version) more than once" % label, dict(case, operation=label, returned=len(gk), distinct=len(set(gk))))
        return False
    return True


def _fresh_union(stix2, members):
    c = stix2.CompositeDataSource()
    c.add_data_sources([m_[1].source for m_ in members])
    return c


def exercise(ctx, rng, name, src, model, case, full=True, env=None):
    """All read operations on one source-like object against the list model `model`."""
    items = model.items
    ids = model.ids()
    probe_ids = ids if full else rng.sample(ids, min(len(ids), 5))
    for sid in probe_ids:
        ctx.ev()
        with warnings.catch_warnings():
            warnings.simplefilter("ignore")
            g = src.get(sid)
        exp = model.latest(sid)
        if g is None or version_instant(norm(g)) != version_instant(exp):
            ctx.violation("get-not-newest-across-members", "%s.get(%s) returned %s, newest stored instant is %s" % (
                name, sid, None if g is None else norm(g).get("modified"), exp.get("modified")),
                dict(case, operation="get", id=sid, returned=None if g is None else norm(g).get("modified"), all_modified=[x.get("modified") for x in model.versions(sid)]))
        with warnings.catch_warnings():
            warnings.simplefilter("ignore")
            av = src.all_versions(sid)
        judge_set(ctx, "%s.all_versions(%s)" % (name, sid.split("--")[0]), av, model.versions(sid), dict(case, id=sid))
    absent = "identity--00000000-aaaa-4aaa-8aaa-000000000000"
    with warnings.catch_warnings():
        warnings.simplefilter("ignore")
        if src.get(absent) is not None or src.all_versions(absent):
            ctx.violation("absent-id-found", "%s returned something for an id that was never stored" % name, case)
        judge_set(ctx, "%s.query()" % name, src.query(), items, case)
    # navigation
    subjects = [j for j in (model.latest(s) for s in probe_ids) if j["type"] not in ("relationship", "sighting")]
    for j in subjects:
        sid = j["id"]
        obj_arg = rng.choice([sid, j])
        for rt in (None, "uses", "related-to"):
            for so, to in ((False, False), (True, False), (False, True)):
                with warnings.catch_warnings():
                    warnings.simplefilter("ignore")
                    rels = src.relationships(obj_arg, relationship_type=rt, source_only=so, target_only=to)
                exp = scan_relationships(items, sid, rt, so, to)
                ctx.ev()
                ctx.count("navigations")
                if len(keys(rels)) != len(set(keys(rels))):
                    ctx.violation("relationships-duplicates", "%s.relationships(%s, source_only=%s, target_only=%s) lists the same relationship version more than once" % (name, sid.split("--")[0], so, to),
                                  dict(case, operation="relationships", id=sid, relationship_type=rt, source_only=so, target_only=to, returned=len(keys(rels)), distinct=len(set(keys(rels)))))
                if set(keys(rels)) != {key(x) for x in exp}:
                    ctx.violation("relationships-mismatch", "%s.relationships(%s, type=%s, source_only=%s, target_only=%s): %d expected, %d returned" % (
                        name, sid.split("--")[0], rt, so, to, len(exp), len(set(keys(rels)))),
                        dict(case, operation="relationships", id=sid, relationship_type=rt, source_only=so, target_only=to))
                flts = []
                if rng.random() < 0.4:
                    flts = [gen_filter(rng, model)]
                try:
                    exp_rel = scan_related(items, sid, rt, so, to, flts)
                except Unjudged:
                    flts = []
                    exp_rel = scan_related(items, sid, rt, so, to, flts)
                with warnings.catch_warnings():
                    warnings.simplefilter("ignore")
                    try:
                        rel_objs = src.related_to(obj_arg, relationship_type=rt, source_only=so, target_only=to, filters=[to_lib(f) for f in flts] or None)
                    except Exception as e:
                        ctx.violation("navigation-raised", "%s.related_to raised %s" % (name, type(e).__name__), dict(case, exception=repr(e), filters=[fdesc(f) for f in flts]))
                        continue
                ctx.ev()
                ctx.count("navigations")
                if set(keys(rel_objs)) != {key(x) for x in exp_rel}:
                    members = case.get("members", 1)
                    ctx.violation("composite-related-to-per-member" if members > 1 and len(set(keys(rel_objs))) < len(exp_rel) else "related-to-mismatch",
                                  "%s.related_to(%s, type=%s, source_only=%s, target_only=%s, filters=%s): %d expected, %d returned" % (
                                      name, sid.split("--")[0], rt, so, to, [fdesc(f) for f in flts], len(exp_rel), len(set(keys(rel_objs)))),
                                  dict(case, operation="related_to", id=sid, relationship_type=rt, source_only=so, target_only=to, filters=[fdesc(f) for f in flts],
                                       expected_ids=sorted({x["id"] for x in exp_rel}), returned_ids=sorted({k[0] for k in keys(rel_objs)})))
        # creator_of
        with warnings.catch_warnings():
            warnings.simplefilter("ignore")
            c = (env or src).creator_of(j)
        ctx.ev()
        ref = j.get("created_by_ref")
        expc = model.latest(ref) if ref else None
        if (c is None) != (expc is None) or (c is not None and key(norm(c)) != key(expc)):
            ctx.violation("creator-of-mismatch", "%s.creator_of(%s) returned %s, expected %s" % (name, sid.split("--")[0], None if c is None else norm(c).get("modified"), None if expc is None else expc.get("modified")),
                          dict(case, operation="creator_of", id=sid, created_by_ref=ref))


def wl_partition(ctx, rng, i):
    import stix2
    versions = population(rng)
    nmem = rng.choice([1, 2, 2, 3, 3, 4])
    tmp = tempfile.mkdtemp(prefix="stixmon-c18-")
    try:
        members, contents = [], []
        for m in range(nmem):
            if rng.random() < 0.65:
                st = stix2.MemoryStore()
                kind = "memory"
            else:
                st = stix2.FileSystemStore(tempfile.mkdtemp(dir=tmp), allow_custom=True)
                kind = "filesystem"
            members.append((kind, st))
            contents.append(ListModel())
        union = ListModel()
        for v in versions:
            j = norm(v)
            union.add(j)
            where = [m for m in range(nmem) if rng.random() < 0.45] or [rng.randrange(nmem)]
            for m in where:
                if contents[m].add(j):
                    members[m][1].add(v)
        layout = "+".join(k for k, _ in members)
        case = {"members": nmem, "layout": layout, "versions": len(union.items), "ids": len(union.ids())}
        perms = list(itertools.permutations(range(nmem)))
        if len(perms) > 6:
            perms = rng.sample(perms, 6)
        for pi, perm in enumerate(perms):
            cds = stix2.CompositeDataSource()
            cds.add_data_sources([members[m][1].source for m in perm])
            c2 = dict(case, attachment_order=list(perm))
            exercise(ctx, rng, "CompositeDataSource", cds, union, c2, full=(pi == 0))
            ctx.nontrivial(layout, perm, "composite")
            # composite-attached filters reach every member
            for round_ in range(4):
                try:
                    f = gen_filter(rng, union)
                    if round_ == 3:
                        # a filter which tells the versions of one object apart and lets an older one through only
                        multi = [sid for sid in union.ids() if len(union.versions(sid)) >= 2 and "name" in union.versions(sid)[0]]
                        if not multi:
                            continue
                        vs = sorted(union.versions(rng.choice(multi)), key=version_instant)
                        f = ("name", "=", rng.choice(vs[:-1])["name"])
                        ctx.count("version_discriminating_filters")
                    q = [gen_filter(rng, union)] if rng.random() < 0.5 else []
                    exp = evaluate([f] + q, union.items, TS_PROPS)
                except Unjudged:
                    continue
                cds.filters.add(to_lib(f))
                try:
                    with warnings.catch_warnings():
                        warnings.simplefilter("ignore")
                        res = cds.query([to_lib(x) for x in q])
                        judge_set(ctx, "CompositeDataSource.query(with attached filter)", res, exp, dict(c2, attached=fdesc(f), query=[fdesc(x) for x in q]))
                        # ... and to its relationship navigation
                        passing = evaluate([f], union.items, TS_PROPS)
                        for sid in rng.sample(union.ids(), min(3, len(union.ids()))):
                            rels = cds.relationships(sid)
                            ctx.ev()
                            ctx.count("attached_filter_navigations")
                            if set(keys(rels)) != {key(x) for x in scan_relationships(passing, sid, None, False, False)}:
                                ctx.violation("composite-filter-not-applied-to-member:relationships", "composite with attached filter %s: relationships() differs from a scan of what the filter lets through" % (fdesc(f),),
                                              dict(c2, attached=fdesc(f), id=sid, returned=len(rels)))
                                break
                        for sid in rng.sample(union.ids(), min(4, len(union.ids()))):
                            g = cds.get(sid)
                            av = cds.all_versions(sid)
                            ctx.ev()
                            ctx.count("attached_filter_lookups")
                            bad = [x for x in ([g] if g is not None else []) + list(av) if not evaluate([f], [norm(x)], TS_PROPS)]
                            # lookup by id under the filter: the newest of the versions it lets through, however they are spread over the members
                            letthrough = evaluate([f], union.versions(sid), TS_PROPS)
                            if letthrough and not bad:
                                newest = max(letthrough, key=version_instant)
                                if g is None or key(norm(g)) != key(newest):
                                    ctx.violation("composite-get-not-newest-passing", "composite with attached filter %s: get(%s) answered %s, the newest version the filter lets through is %s (members: %s)" % (
                                        fdesc(f), sid, "nothing" if g is None else norm(g).get("modified"), newest.get("modified"), layout),
                                        dict(c2, attached=fdesc(f), id=sid, passing=[x.get("modified") for x in letthrough]))
                                    break
                            if bad:
                                ctx.violation("composite-filter-not-applied-to-member:" + ("get" if g is not None and not evaluate([f], [norm(g)], TS_PROPS) else "all_versions"),
                                              "composite with attached filter %s returned an object that fails it (members: %s)" % (fdesc(f), layout),
                                              dict(c2, attached=fdesc(f), id=sid, failing=norm(bad[0])))
                                break
                except Exception as e:
                    ctx.violation("navigation-raised", "composite query with attached filter raised %s" % type(e).__name__, dict(c2, exception=repr(e), attached=fdesc(f)))
                finally:
                    # navigation calls the composite refuses (contradictory options, an object without an id, an absent object):
                    # refused or not, they leave the members as they were
                    some_id = union.ids()[0] if union.ids() else "identity--00000000-0000-4000-8000-000000000000"
                    for bad_call in (lambda: cds.relationships(some_id, source_only=True, target_only=True), lambda: cds.related_to(some_id, source_only=True, target_only=True),
                                     lambda: cds.relationships({"type": "identity"}), lambda: cds.related_to({"type": "identity"}), lambda: cds.creator_of({"type": "identity"}),
                                     lambda: cds.relationships(None), lambda: cds.related_to(None, relationship_type="uses")):
                        try:
                            with warnings.catch_warnings():
                                warnings.simplefilter("ignore")
                                bad_call()
                        except Exception:
                            ctx.count("refused_navigation_calls")
                    cds.filters.remove(to_lib(f))
                    for m in perm:
                        try:
                            with warnings.catch_warnings():
                                warnings.simplefilter("ignore")
                                got_m = members[m][1].query([])
                            ctx.ev()
                            if set(keys(got_m)) != {key(x) for x in contents[m].items}:
                                ctx.violation("composite-filter-left-on-member", "after refused navigation calls on a composite with attached filter %s, member %d (%s) queried on its own returns %d of its %d objects" % (
                                    fdesc(f), m, members[m][0], len(set(keys(got_m))), len(contents[m].items)), dict(c2, attached=fdesc(f), member=m))
                                break
                        except Exception as e:
                            ctx.violation("navigation-raised", "member query after refused navigation raised %s" % type(e).__name__, dict(c2, exception=repr(e)))
                            break
        # a member with a filter of its own under a composite with another: the member's answers satisfy both, the other members' the
        # composite's -- whatever kind of source the member is
        if nmem >= 1:
            try:
                own, shared = gen_filter(rng, union), gen_filter(rng, union)
                chosen = rng.randrange(nmem)
                exp_items = {}
                for m in range(nmem):
                    flt = [shared, own] if m == chosen else [shared]
                    for x in evaluate(flt, contents[m].items, TS_PROPS):
                        exp_items[key(x)] = x
                cds = stix2.CompositeDataSource()
                cds.add_data_sources([members[m][1].source for m in range(nmem)])
                cds.filters.add(to_lib(shared))
                members[chosen][1].source.filters.add(to_lib(own))
                try:
                    with warnings.catch_warnings():
                        warnings.simplefilter("ignore")
                        res = cds.query()
                    ctx.count("member_own_filter_cases")
                    judge_set(ctx, "CompositeDataSource(filter) over a %s member with its own filter" % members[chosen][0], res, list(exp_items.values()),
                              dict(case, composite_filter=fdesc(shared), member_filter=fdesc(own), member=chosen, member_kind=members[chosen][0]),
                              mech_hint="member-with-own-filter-ignores-composite-filter")
                    for sid in rng.sample(union.ids(), min(3, len(union.ids()))):
                        got_av = {key(norm(x)) for x in cds.all_versions(sid)}
                        exp_av = {k_ for k_, x in exp_items.items() if x["id"] == sid}
                        ctx.ev()
                        if got_av != exp_av:
                            ctx.violation("member-with-own-filter-ignores-composite-filter", "composite (filter %s) over a %s member with own filter %s: all_versions(%s) gave %d, expected %d" % (
                                fdesc(shared), members[chosen][0], fdesc(own), sid, len(got_av), len(exp_av)), dict(case, id=sid, member_kind=members[chosen][0]))
                            break
                finally:
                    members[chosen][1].source.filters.remove(to_lib(own))
            except Unjudged:
                pass
        # membership history: members detached and re-attached (also twice, also while absent); the composite answers as the
        # union of whatever is attached *now*
        if nmem >= 2:
            cds = stix2.CompositeDataSource()
            srcs = [members[m][1].source for m in range(nmem)]
            cds.add_data_sources(srcs)
            attached = set(range(nmem))
            ops = []
            for _ in range(6):
                m = rng.randrange(nmem)
                op = rng.choice(["remove", "add", "add", "remove-then-add"])
                try:
                    if op == "remove" and m in attached and len(attached) > 1:
                        cds.remove_data_source(srcs[m].id)
                        attached.discard(m)
                    elif op == "add":
                        cds.add_data_source(srcs[m])          # attaching an attached member again changes nothing
                        attached.add(m)
                    elif op == "remove-then-add" and m in attached:
                        cds.remove_data_sources([srcs[m].id])
                        cds.add_data_sources([srcs[m]])
                    else:
                        continue
                except Exception as e:
                    ctx.violation("navigation-raised", "composite membership change %s raised %s" % (op, type(e).__name__), dict(case, exception=repr(e), operations=ops))
                    break
                ops.append("%s %d" % (op, m))
                now = ListModel()
                for a in sorted(attached):
                    for j in contents[a].items:
                        now.add(j)
                c4 = dict(case, membership_operations=list(ops), attached_now=sorted(attached))
                try:
                    with warnings.catch_warnings():
                        warnings.simplefilter("ignore")
                        ok = judge_set(ctx, "CompositeDataSource.query() after membership changes", cds.query(), now.items, c4, mech_hint="composite-membership-history")
                        if len(cds.get_all_data_sources()) != len(attached):
                            ctx.violation("composite-membership-history", "get_all_data_sources() lists %d members, %d are attached" % (len(cds.get_all_data_sources()), len(attached)), c4)
                        if ok and now.ids():
                            sid = rng.choice(now.ids())
                            g = cds.get(sid)
                            if g is None or version_instant(norm(g)) != version_instant(now.latest(sid)):
                                ctx.violation("composite-membership-history", "get() after membership changes is not the newest attached version", dict(c4, id=sid))
                    ctx.count("membership_changes")
                except Exception as e:
                    ctx.violation("navigation-raised", "composite query after membership change raised %s" % type(e).__name__, dict(c4, exception=repr(e)))
                    break
        # nested federation: an inner composite over the members, itself a member of an outer composite that carries a filter;
        # after queries through the outer one, the inner composite (used directly, or under a second unfiltered parent) must
        # still answer as the plain union
        try:
            f = gen_filter(rng, union)
            exp_f = evaluate([f], union.items, TS_PROPS)
        except Unjudged:
            f = None
        if f is not None:
            inner = stix2.CompositeDataSource()
            inner.add_data_sources([m_[1].source for m_ in members])
            outer = stix2.CompositeDataSource()
            outer.add_data_source(inner)
            outer.filters.add(to_lib(f))
            c3 = dict(case, nesting="outer(filter %s) -> inner -> members" % (fdesc(f),))
            try:
                with warnings.catch_warnings():
                    warnings.simplefilter("ignore")
                    judge_set(ctx, "outer CompositeDataSource.query()", outer.query(), exp_f, c3)
                    some = rng.choice(union.ids())
                    outer.related_to(some)
                    # lookups by id through the filtered parent: the versions its filter lets through, the newest of them
                    for sid in [some] + rng.sample(union.ids(), min(2, len(union.ids()))):
                        exp_v = evaluate([f], union.versions(sid), TS_PROPS)
                        got_v = {key(norm(x)) for x in outer.all_versions(sid)}
                        ctx.ev()
                        ctx.count("nested_lookups")
                        if got_v != {key(x) for x in exp_v}:
                            ctx.violation("nested-composite-filter-not-applied:all_versions", "outer composite (filter %s) over an inner composite: all_versions(%s) gave %d version(s), %d pass the filter" % (
                                fdesc(f), sid, len(got_v), len(exp_v)), dict(c3, id=sid))
                            break
                        g = outer.get(sid)
                        if exp_v:
                            newest = max(exp_v, key=version_instant)
                            if g is None or key(norm(g)) != key(newest):
                                ctx.violation("nested-composite-filter-not-applied:get", "outer composite (filter %s) over an inner composite: get(%s) answered %s, newest passing is %s" % (
                                    fdesc(f), sid, "nothing" if g is None else norm(g).get("modified"), newest.get("modified")), dict(c3, id=sid))
                                break
                        elif g is not None:
                            ctx.violation("nested-composite-filter-not-applied:get", "outer composite (filter %s) over an inner composite: get(%s) answered a version the filter excludes" % (
                                fdesc(f), sid), dict(c3, id=sid, returned=norm(g)))
                            break
                    judge_set(ctx, "inner CompositeDataSource.query() after use through a filtered parent", inner.query(), union.items, c3,
                              mech_hint="composite-filters-leak-into-nested-composite")
                    g = inner.get(some)
                    if g is None or version_instant(norm(g)) != version_instant(union.latest(some)):
                        ctx.violation("composite-filters-leak-into-nested-composite", "inner composite get() changed after use through a filtered parent", dict(c3, id=some))
                    outer2 = stix2.CompositeDataSource()
                    outer2.add_data_source(inner)
                    judge_set(ctx, "second unfiltered parent .query()", outer2.query(), union.items, c3, mech_hint="composite-filters-leak-into-nested-composite")
                    judge_set(ctx, "outer CompositeDataSource.query() again", outer.query(), exp_f, c3)
                ctx.count("nested_federations")
            except Exception as e:
                ctx.violation("navigation-raised", "nested composite raised %s" % type(e).__name__, dict(c3, exception=repr(e)))
            # an inner composite with a filter of its own, attached before a sibling source, under an outer composite with another
            # filter: the inner filter is the inner composite's business only
            if nmem >= 2:
                try:
                    f2 = gen_filter(rng, union)
                    k = rng.randrange(1, nmem)
                    left, right = ListModel(), ListModel()
                    for a in range(k):
                        for j in contents[a].items:
                            left.add(j)
                    for a in range(k, nmem):
                        for j in contents[a].items:
                            right.add(j)
                    exp_nested = {key(j) for j in evaluate([f, f2], left.items, TS_PROPS)} | {key(j) for j in evaluate([f], right.items, TS_PROPS)}
                    inner2 = stix2.CompositeDataSource()
                    inner2.add_data_sources([members[a][1].source for a in range(k)])
                    inner2.filters.add(to_lib(f2))
                    outer3 = stix2.CompositeDataSource()
                    outer3.add_data_source(inner2)
                    outer3.add_data_sources([members[a][1].source for a in range(k, nmem)])
                    outer3.filters.add(to_lib(f))
                    c5 = dict(case, nesting="outer(filter %s) -> [inner(filter %s) over %d member(s), %d sibling member(s)]" % (fdesc(f), fdesc(f2), k, nmem - k))
                    with warnings.catch_warnings():
                        warnings.simplefilter("ignore")
                        got = outer3.query()
                    ctx.ev()
                    ctx.count("nested_sibling_federations")
                    if set(keys(got)) != exp_nested:
                        ctx.violation("composite-filters-leak-to-sibling", "outer composite over [filtered inner composite, sibling]: %d expected, %d returned" % (len(exp_nested), len(set(keys(got)))), c5)
                    else:
                        again = outer3.query()
                        if set(keys(again)) != exp_nested:
                            ctx.violation("composite-filters-leak-to-sibling", "the second identical query through the outer composite differs from the first", c5)
                        # lookups by id: under the inner composite both filters count, beside it only the outer one
                        for sid in rng.sample(union.ids(), min(3, len(union.ids()))):
                            exp_v = {k_ for k_ in exp_nested if k_[0] == sid}
                            got_v = {key(norm(x)) for x in outer3.all_versions(sid)}
                            ctx.ev()
                            ctx.count("nested_lookups")
                            if got_v != exp_v:
                                ctx.violation("nested-composite-filter-not-applied:all_versions", "outer composite (filter %s) over [inner composite (filter %s), sibling]: all_versions(%s) gave %d version(s), expected %d" % (
                                    fdesc(f), fdesc(f2), sid, len(got_v), len(exp_v)), dict(c5, id=sid))
                                break
                except Unjudged:
                    pass
                except Exception as e:
                    ctx.violation("navigation-raised", "nested composite with sibling raised %s" % type(e).__name__, dict(case, exception=repr(e)))
        # each single member against its own content; environments
        for m, (kind, st) in enumerate(members):
            if contents[m].items:
                exercise(ctx, rng, "%sStore" % kind.capitalize(), st, contents[m], dict(case, member=m, members=1), full=False)
        m = rng.randrange(nmem)
        if contents[m].items:
            env = stix2.Environment(store=members[m][1])
            exercise(ctx, rng, "Environment(store)", env, contents[m], dict(case, member=m, members=1), full=False, env=env)
            env2 = stix2.Environment(source=members[m][1].source, sink=members[m][1].sink)
            exercise(ctx, rng, "Environment(source, sink)", env2, contents[m], dict(case, member=m, members=1), full=False, env=env2)
            ctx.count("environments")
        # an environment over a composite of all members, given filters through its own add_filter / add_filters: what it answers
        # is the filtered union (the newest version the filters let through for a lookup by id)
        try:
            fa, fb = gen_filter(rng, union), gen_filter(rng, union)
            cds_e = stix2.CompositeDataSource()
            cds_e.add_data_sources([m_[1].source for m_ in members])
            env3 = stix2.Environment(source=cds_e)
            how = rng.choice(["add_filter x2", "add_filters(list)", "add_filter + query argument"])
            if how == "add_filter x2":
                env3.add_filter(to_lib(fa))
                env3.add_filter(to_lib(fb))
                arg = None
            elif how == "add_filters(list)":
                env3.add_filters([to_lib(fa), to_lib(fb)])
                arg = None
            else:
                env3.add_filter(to_lib(fa))
                arg = [to_lib(fb)]
            c6 = dict(case, environment="Environment(source=composite of %d)" % nmem, filters=[fdesc(fa), fdesc(fb)], given=how)
            exp_e = evaluate([fa, fb], union.items, TS_PROPS)
            with warnings.catch_warnings():
                warnings.simplefilter("ignore")
                judge_set(ctx, "Environment(source=composite).query() with filters given by %s" % how, env3.query(arg) if arg else env3.query(), exp_e, c6,
                          mech_hint="environment-filter-not-applied")
                if arg is None:
                    for sid in rng.sample(union.ids(), min(3, len(union.ids()))):
                        g = env3.get(sid)
                        letthrough = evaluate([fa, fb], union.versions(sid), TS_PROPS)
                        ctx.ev()
                        if letthrough:
                            newest = max(letthrough, key=version_instant)
                            if g is None or key(norm(g)) != key(newest):
                                ctx.violation("environment-filter-not-applied", "environment with filters %s, %s: get(%s) answered %s, the newest version they let through is %s" % (
                                    fdesc(fa), fdesc(fb), sid, "nothing" if g is None else norm(g).get("modified"), newest.get("modified")), dict(c6, id=sid))
                                break
                        elif g is not None:
                            ctx.violation("environment-filter-not-applied", "environment with filters %s, %s: get(%s) answered a version neither lets through" % (
                                fdesc(fa), fdesc(fb), sid), dict(c6, id=sid, returned=norm(g)))
                            break
                # the members themselves are none the wiser
                judge_set(ctx, "a fresh composite over the same members after the environment was filtered", _fresh_union(stix2, members).query(), union.items, c6,
                          mech_hint="environment-filter-leaks-into-members")
            ctx.count("environment_filter_cases")
        except Unjudged:
            pass
        except Exception as e:
            ctx.violation("navigation-raised", "environment over a composite with filters raised %s" % type(e).__name__, dict(case, exception=repr(e)))
        ctx.count("partitions")
        ctx.see("layouts", layout)
        if ctx.want_sample():
            ctx.sample({"layout": layout, "versions": len(union.items), "per_member": [len(c.items) for c in contents], "orders_tried": [list(p) for p in perms]})
    finally:
        shutil.rmtree(tmp, ignore_errors=True)


def wl_factory(ctx, rng, i):
    """ObjectFactory / Environment.create against a dict-merge model, over a sequence of calls on one factory."""
    import stix2
    ident = "identity--" + V.uuid_text(rng, 4)
    d_refs = [{"source_name": "default-src", "external_id": "d1"}]
    d_marks = [stix2.TLP_GREEN.id]
    list_append = rng.random() < 0.6
    defaults = {}
    kwargs = {"list_append": list_append}
    if rng.random() < 0.8:
        kwargs["created_by_ref"] = defaults["created_by_ref"] = ident
    if rng.random() < 0.6:
        kwargs["created"] = "2019-05-05T05:05:05.000Z"
        defaults["created"] = defaults["modified"] = "2019-05-05T05:05:05.000Z"
    if rng.random() < 0.7:
        kwargs["external_references"] = json.loads(json.dumps(d_refs))
        defaults["external_references"] = json.loads(json.dumps(d_refs))
    if rng.random() < 0.7:
        kwargs["object_marking_refs"] = list(d_marks)
        defaults["object_marking_refs"] = list(d_marks)
    single_default = "object_marking_refs" in kwargs and rng.random() < 0.3
    if single_default:
        kwargs["object_marking_refs"] = d_marks[0]          # one marking where a list is accepted
    via_setters = rng.random() < 0.35
    if via_setters:
        # the same defaults given after construction through the setters (the environment passes them to its factory)
        factory = stix2.ObjectFactory(list_append=list_append)
        maker = stix2.Environment(factory=factory) if rng.random() < 0.5 else factory
        for k_, setter in (("created_by_ref", "set_default_creator"), ("created", "set_default_created"),
                           ("external_references", "set_default_external_refs"), ("object_marking_refs", "set_default_object_marking_refs")):
            if k_ in kwargs:
                getattr(maker, setter)(kwargs[k_])
        ctx.count("factory_defaults_via_setters")
    else:
        factory = stix2.ObjectFactory(**kwargs)
        maker = stix2.Environment(factory=factory) if rng.random() < 0.5 else factory
    for call in range(4):
        kw = {"name": "made %d" % call, "identity_class": "individual", "id": "identity--" + V.uuid_text(rng, 4)}
        if "created" not in defaults:
            kw["created"] = kw["modified"] = "2020-02-02T02:02:02.000Z"
        if rng.random() < 0.5:
            kw["external_references"] = rng.choice([[{"source_name": "call-src", "external_id": "c%d" % call}], {"source_name": "single", "external_id": "s"}, None])
        if rng.random() < 0.5:
            kw["object_marking_refs"] = rng.choice([[stix2.TLP_RED.id], stix2.TLP_AMBER.id, None])
        if rng.random() < 0.3:
            kw["created_by_ref"] = "identity--" + V.uuid_text(rng, 4)
        exp = json.loads(json.dumps(defaults))
        for k, v in kw.items():
            if k in ("external_references", "object_marking_refs") and k in exp and list_append:
                if v is None:
                    del exp[k]
                else:
                    exp[k] = list(exp[k]) + (v if isinstance(v, list) else [v])
            else:
                exp[k] = v
        exp = {k: v for k, v in exp.items() if v is not None}
        ctx.ev()
        ctx.count("factory_calls")
        try:
            with warnings.catch_warnings():
                warnings.simplefilter("ignore")
                got = maker.create(stix2.v21.Identity, **json.loads(json.dumps(kw)))
                want = stix2.v21.Identity(**json.loads(json.dumps(exp)))
        except Exception as e:
            ctx.skip("factory case refused (%s)" % type(e).__name__)
            continue
        gj, wj = norm(got), norm(want)
        if not compare.generic_equal(gj, wj):
            ctx.violation("factory-defaults-mismatch", "ObjectFactory.create call %d differs from the dict-merge model (list_append=%s)" % (call, list_append),
                          {"factory_defaults": defaults, "list_append": list_append, "call": call, "kwargs": kw, "got": gj, "expected": wj,
                           "defaults_given": "setters" if via_setters else "constructor", "single_marking_default": single_default})
            break
        ctx.nontrivial("factory", list_append, sorted(defaults), sorted(k for k in kw if k in ("external_references", "object_marking_refs", "created_by_ref")), call)


def wl_versionless(ctx, rng, i):
    """One member holds an id in versions, another holds the same id as content without any version information (an unvalidated
    dictionary with neither modified nor created; a flat file): whatever the composite answers, it answers in every member order."""
    import stix2
    u = V.uuid_text(rng, 4)
    t = "x-unregistered"
    sid = "%s--%s" % (t, u)
    nver = rng.choice([1, 2, 3])
    base = V.instant_us(rng, 2015, 2022)
    base -= base % 1000
    versions = [{"type": t, "id": sid, "created": tsor.format_us(base - 10 ** 6, "millisecond", "min"), "modified": tsor.format_us(base + k * rng.choice([1000, 10 ** 6]), "millisecond", "min"), "name": "v%d" % k}
                for k in range(nver)]
    if rng.random() < 0.3:
        for v in versions:
            del v["modified"]            # versions told apart by created only
        versions = versions[:1]
    bare = {"type": t, "id": sid, "name": "no version information"}
    tmp = tempfile.mkdtemp(prefix="stixmon-c18-")
    try:
        def member(kind, content, k):
            if kind == "memory":
                return stix2.MemorySource([json.loads(json.dumps(x)) for x in content], allow_custom=True)
            d = tempfile.mkdtemp(dir=tmp)
            stix2.FileSystemSink(d, allow_custom=True).add([json.loads(json.dumps(x)) for x in content])
            return stix2.FileSystemSource(d, allow_custom=True)
        kinds = (rng.choice(["memory", "memory", "filesystem"]), rng.choice(["memory", "memory", "filesystem"]))
        extra = rng.random() < 0.4
        answers = {}
        layouts = [("versions-first", [0, 1]), ("bare-first", [1, 0])] if not extra else \
            [("bare-in-the-middle", [0, 1, 2]), ("bare-first", [1, 0, 2]), ("bare-last", [2, 0, 1]), ("newest-first-bare-last", [2, 0, 1][::-1][::-1]), ("bare-first-newest-next", [1, 2, 0])]
        for label, order in layouts:
            try:
                with warnings.catch_warnings():
                    warnings.simplefilter("ignore")
                    parts = [member(kinds[0], versions[:max(1, nver - 1)] if extra else versions, 0), member(kinds[1], [bare], 1)] + ([member("memory", versions[-1:], 2)] if extra else [])
                    cds = stix2.CompositeDataSource()
                    cds.add_data_sources([parts[k] for k in order])
                    g = cds.get(sid)
                    answers[label] = ("answer", None if g is None else json.dumps(norm(g), sort_keys=True))
            except Exception as e:
                answers[label] = ("raised", type(e).__name__)
            ctx.ev()
            ctx.count("versionless_member_lookups")
        ctx.nontrivial("versionless", kinds, nver, extra, "modified" in versions[0])
        if len(set(answers.values())) > 1:
            ctx.violation("get-depends-on-member-order:version-less-member", "CompositeDataSource.get(%s) answers differently in different member orders when one member holds the id without version information: %s" % (
                sid, {k: (v[0], (v[1] or "")[:80]) for k, v in answers.items()}), {"versions": versions, "bare": bare, "member_kinds": kinds, "answers": answers})
    finally:
        shutil.rmtree(tmp, ignore_errors=True)


def wl_late(ctx, rng, i):
    """Members that grow while the composite is in use: queries first (also of types whose directory exists but holds nothing, or only
    objects without versions), then additions through the members' own sinks, then the same questions again -- the answers follow the
    data, not what was seen on the first visit."""
    import stix2
    from stix2 import Filter
    tmp = tempfile.mkdtemp(prefix="stixmon-c18-")
    try:
        fsdir = os.path.join(tmp, "fs")
        os.makedirs(fsdir)
        pre = rng.choice(["empty-type-directories", "only-unversioned", "nothing", "one-versioned"])
        fs = stix2.FileSystemStore(fsdir, allow_custom=True)
        mem = stix2.MemoryStore(allow_custom=True)
        ts = lambda k: tsor.format_us(tsor.text_us("2020-01-01T00:00:00Z") + k * 86400 * 10 ** 6, "millisecond", "min")     # noqa: E731
        ident = {"type": "identity", "spec_version": "2.1", "id": "identity--" + V.uuid_text(rng, 4), "created": ts(0), "modified": ts(0), "name": "who", "identity_class": "individual"}
        ind = {"type": "indicator", "spec_version": "2.1", "id": "indicator--" + V.uuid_text(rng, 4), "created": ts(0), "modified": ts(1), "name": "ind v1", "pattern": "[file:name = 'a']",
               "pattern_type": "stix", "pattern_version": "2.1", "valid_from": ts(0), "created_by_ref": ident["id"]}
        mal = {"type": "malware", "spec_version": "2.1", "id": "malware--" + V.uuid_text(rng, 4), "created": ts(0), "modified": ts(0), "name": "mal", "is_family": False}
        rel = {"type": "relationship", "spec_version": "2.1", "id": "relationship--" + V.uuid_text(rng, 4), "created": ts(0), "modified": ts(0), "relationship_type": "indicates",
               "source_ref": ind["id"], "target_ref": mal["id"]}
        unv = {"type": "x-unregistered", "id": "x-unregistered--" + V.uuid_text(rng, 4), "name": "no versions"}
        ver = {"type": "x-unregistered", "id": "x-unregistered--" + V.uuid_text(rng, 4), "created": ts(0), "modified": ts(2), "name": "versioned"}
        held = []
        if pre == "empty-type-directories":
            for t in ("indicator", "relationship", "malware", "identity", "x-unregistered"):
                os.makedirs(os.path.join(fsdir, t))
                if rng.random() < 0.5:
                    open(os.path.join(fsdir, t, ".gitkeep"), "w").close()
        elif pre == "only-unversioned":
            fs.add(json.loads(json.dumps(unv)))
            held.append((unv, "fs"))
            os.makedirs(os.path.join(fsdir, "indicator"), exist_ok=True)
        elif pre == "one-versioned":
            fs.add(json.loads(json.dumps(ident)))
            held.append((ident, "fs"))
        cds = stix2.CompositeDataSource()
        members = [fs.source, mem.source]
        rng.shuffle(members)
        cds.add_data_sources(members)
        env = stix2.Environment(source=cds)
        asker = rng.choice([("composite", cds), ("environment", env), ("filesystem member", fs)])

        def questions(stage):
            src = asker[1]
            vis = [j for j, place in held if asker[0] != "filesystem member" or place == "fs"]
            model_ids = {}
            for j in vis:
                model_ids.setdefault(j["id"], []).append(j)
            with warnings.catch_warnings():
                warnings.simplefilter("ignore")
                for j in [ident, ind, mal, rel, unv, ver]:
                    exp = sorted((x.get("modified") or "") for x in model_ids.get(j["id"], []))
                    got_all = sorted((norm(x).get("modified") or "") for x in src.all_versions(j["id"]))
                    g = src.get(j["id"])
                    ctx.ev(2)
                    ctx.count("late_lookups")
                    if got_all != exp:
                        ctx.violation("answers-lag-behind-additions:all_versions", "%s.all_versions(%s) %s: %s, the members hold %s" % (asker[0], j["id"].split("--")[0], stage, got_all, exp),
                                      {"asker": asker[0], "stage": stage, "before": pre, "id": j["id"], "got": got_all, "held": exp})
                    want = exp[-1] if exp else None
                    gm = None if g is None else (norm(g).get("modified") or "")
                    if gm != want:
                        ctx.violation("answers-lag-behind-additions:get", "%s.get(%s) %s: %s, the newest held is %s" % (asker[0], j["id"].split("--")[0], stage, gm, want),
                                      {"asker": asker[0], "stage": stage, "before": pre, "id": j["id"], "got": gm, "held": exp})
                for t in ("indicator", "relationship", "x-unregistered"):
                    expn = len([x for x in vis if x["type"] == t])
                    gotn = len(src.query([Filter("type", "=", t)]))
                    ctx.ev()
                    if gotn != expn:
                        ctx.violation("answers-lag-behind-additions:query", "%s.query(type=%s) %s: %d objects, the members hold %d" % (asker[0], t, stage, gotn, expn),
                                      {"asker": asker[0], "stage": stage, "before": pre, "type": t})
                if True:
                    exp_rel = sorted(x["id"] for x in vis if x["type"] == "relationship" and ind["id"] in (x["source_ref"], x["target_ref"]))
                    got_rel = sorted(norm(x)["id"] for x in src.relationships(ind["id"]))
                    exp_to = sorted({x["target_ref"] for x in vis if x["type"] == "relationship" and x["source_ref"] == ind["id"]} & {x["id"] for x in vis})
                    got_to = sorted(norm(x)["id"] for x in src.related_to(ind["id"]))
                    ctx.ev(2)
                    if got_rel != exp_rel or got_to != exp_to:
                        ctx.violation("answers-lag-behind-additions:navigation", "%s relationships / related_to of the indicator %s: %s / %s, a scan gives %s / %s" % (asker[0], stage, got_rel, got_to, exp_rel, exp_to),
                                      {"asker": asker[0], "stage": stage, "before": pre})
        questions("before the additions")
        # additions, spread over the members
        for j in rng.sample([ident, ind, mal, rel, ver], 5):
            if any(x is j for x, _ in held):
                continue
            to_mem = rng.random() < 0.3
            (mem if to_mem else fs).add(json.loads(json.dumps(j)))
            held.append((j, "mem" if to_mem else "fs"))
            if rng.random() < 0.4:
                questions("between the additions")
        ind2 = dict(ind, modified=ts(5), name="ind v2")
        to_mem = rng.random() < 0.3
        (mem if to_mem else fs).add(json.loads(json.dumps(ind2)))
        held.append((ind2, "mem" if to_mem else "fs"))
        questions("after the additions")
        ctx.nontrivial("late", pre, asker[0], sorted(place for _, place in held))
        ctx.count("late_histories")
    finally:
        shutil.rmtree(tmp, ignore_errors=True)


WORKLOADS = [
    Workload("late-additions", wl_late, quick=48, thorough=1200),
    Workload("version-less-member", wl_versionless, quick=60, thorough=1500),
    Workload("partitions", wl_partition, quick=24, thorough=3000),
    Workload("factory", wl_factory, quick=150, thorough=3000),
]


def floors(m, tier):
    c = m["counters"]
    out = []
    if c.get("partitions", 0) < 20:
        out.append("fewer than 20 partitions")
    if c.get("navigations", 0) < 2000:
        out.append("fewer than 2000 navigation results judged")
    if c.get("attached_filter_lookups", 0) < 100:
        out.append("composite-attached filters checked on fewer than 100 lookups")
    if c.get("membership_changes", 0) < 30:
        out.append("fewer than 30 composite membership changes judged")
    if c.get("nested_federations", 0) < 10:
        out.append("fewer than 10 nested federations")
    if c.get("environment_filter_cases", 0) < 10:
        out.append("fewer than 10 environments with filters of their own")
    if c.get("factory_calls", 0) < 200:
        out.append("fewer than 200 factory calls")
    lay = m["seen"].get("layouts", set())
    if not any("filesystem" in x and "memory" in x for x in lay):
        out.append("no partition mixed memory and filesystem members")
    return out[:6]


MANIFEST = {
    "text": ("Object populations with several versions are spread over up to four member sources (memory and filesystem) with "
             "overlapping copies, the members are attached in every order, and every lookup, query and navigation call through the "
             "composite, each member and environments is compared with a list model of the union and a scan of its relationship "
             "objects; composite-attached filters are checked on every kind of answer; the default-property factory is compared "
             "with a dict-merge model over call sequences."),
    "note": "trusts the list model / naive evaluator (shared with C11/C12)",
    "technique": "runtime monitoring: union list model and relationship scan vs recorded federation/navigation results over all attachment orders",
}
