"""C07 -- data-marking operations form a consistent algebra over (selector, marking) pairs.

Events: histories of add/remove/set/clear (function form and method form) on an object, interleaved after every step
with the full query matrix (get_markings / is_marked x selector x inherited x descendants x marking_ref x lang).
Oracle: stixmon.oracles.markings (set model; ancestor/descendant on path segments).  Every mutating result must also
pass the C05 step oracle with non-marking content unchanged.
"""
import json
import warnings

from ..clock import FakeClock
from ..ctx import Workload
from ..gen import custom as gcustom
from ..gen import values as V
from ..gen.objects import ObjGen
from ..oracles import markings as MM
from ..oracles import ts as tsor
from ..oracles import validator
from ..spec import model as M
from .c05 import DELTAS, judge_step, to_json

ID = "C07"
LEVEL = "exploration"
SHARDS = {"quick": 4, "thorough": 16}
RULE = ("histories of 10 marking operations (add/remove/set/clear; object-level and granular; function and method form; marking "
        "ids, MarkingDefinition objects, language tags) on SDOs, SROs, marking definitions, 2.1 observables and plain dicts of "
        "both versions, whose selector universes contain top-level, nested and list-indexed paths and sibling names where one is a "
        "string prefix of the other (created/created_by_ref, labels.[1]/labels.[10], x_foo/x_foo_bar); after every step the whole "
        "query matrix is compared with the set model.  Non-trivial: every query after at least one operation; "
        "distinct = distinct (carrier, operation, selector shape, flags, outcome)")
ASSUMPTIONS = [
    "out of the deciding set (documentation ambiguous): is_marked with a list of markings, partial-presence remove, whether a no-op returns the same object, inherited=True combined with marking_ref=False when object-level markings exist",
    "documented refusals: MarkingNotFoundError for clear/set/remove on unmarked selectors, TypeNotVersionableError for mutations on non-versionable carriers, refusal of language markings on STIX 2.0 objects",
    "ancestor/descendant are relations on selector path segments",
]
TLP = list(M.TLP.values())


def family():
    from stix2.exceptions import STIXError
    return (STIXError, ValueError, TypeError)


def setup(ctx):
    gcustom.ensure_registered()
    clk = FakeClock()
    clk.install()
    ctx.state["clock"] = clk


def teardown(ctx):
    ctx.count("clock_consultations", ctx.state["clock"].calls)
    ctx.state["clock"].uninstall()


CARRIERS = [("2.1", "campaign", "sdo"), ("2.0", "campaign", "sdo"), ("2.1", "identity", "sdo"), ("2.0", "identity", "sdo"), ("2.1", "relationship", "sro"),
            ("2.0", "relationship", "sro"), ("2.1", "sighting", "sro"), ("2.1", "malware", "sdo"), ("2.0", "report", "sdo"), ("2.1", "note", "sdo"),
            ("2.1", "marking-definition", "marking"), ("2.0", "marking-definition", "marking"), ("2.1", "file", "sco"), ("2.1", "x-dict", "dict"),
            ("2.0", "x-dict", "dict"), ("2.1", "custom-props", "sdo"), ("2.0", "custom-props", "sdo"), ("2.1", "x-stixmon-widget", "sdo")]


def make_carrier(rng, ver, t, kind):
    g = ObjGen(rng, ver, hostile=False, ts_max_digits=3, openvocab_custom=False, extensions=False, year_range=(2000, 2030))
    if t == "x-dict":
        o = {"type": "x-unregistered", "id": g.new_id("x-unregistered"), "created": "2020-01-01T00:00:00.000Z", "modified": "2020-01-01T00:00:00.000Z",
             "created_by_ref": g.new_id("identity"), "name": "n", "labels": ["l%d" % k for k in range(11)],
             "x_foo": {"inner": "v", "items": ["a", "b"]}, "x_foo_bar": {"inner": "w"}, "foo": "f", "foo_bar": "fb",
             "x_opts": {"enabled": False, "count": 0, "note": ""}, "x_flags": [True, False, 0]}
        if ver == "2.1":
            o["spec_version"] = "2.1"
        return o
    if t == "custom-props":
        o = g.make("campaign", "random", granular=False, markings=False)
        o.update({"x_foo": {"inner": "v", "items": ["a", "b"]}, "x_foo_bar": {"inner": "w"},
                  "x_opts": {"enabled": False, "count": 0, "note": ""}, "x_flags": [True, False, 0]})
    elif t == "x-stixmon-widget":
        o = gcustom.widget(g)
        o["tags"] = ["t%d" % k for k in range(11)]
        o["enabled"] = False           # falsy targets: a selector addresses a property, whatever its value
        o["size"] = 0
    elif t == "file":
        o = {"type": "file", "spec_version": "2.1", "id": g.new_id("file"), "name": "n.exe", "name_enc": "UTF-8", "size": 5,
             "hashes": {"MD5": V.hash_value(rng, "MD5")}}
        return o
    else:
        o = g.make(t, "random", granular=False, markings=False)
    o.pop("object_marking_refs", None)
    o.pop("revoked", None)
    if t == "malware":
        o["is_family"] = False
        o.pop("name", None) if ver == "2.1" else None
    if ver == "2.1" and kind in ("sdo", "sro") and t in M.model(ver).types:
        o["confidence"] = 0
    if kind in ("sdo", "sro") or t == "marking-definition":
        if "created_by_ref" not in o:
            o["created_by_ref"] = g.new_id("identity")
        m = M.model(ver)
        tbl = m.types.get(o["type"])
        if tbl and "labels" in tbl["by_name"] and tbl["by_name"]["labels"]["of"]["k"] == "string":
            o["labels"] = ["l%d" % k for k in range(11)]
        if tbl and "external_references" in tbl["by_name"]:
            o["external_references"] = [{"source_name": "s0", "external_id": "e0"}, {"source_name": "s1", "url": "http://x"}]
    return o


def universe(o):
    cands = ["type", "id", "created", "created_by_ref", "modified", "name", "name_enc", "description", "labels", "labels.[0]", "labels.[1]", "labels.[10]",
             "tags", "tags.[1]", "tags.[10]", "external_references", "external_references.[0]", "external_references.[0].source_name",
             "external_references.[1]", "external_references.[1].source_name", "x_foo", "x_foo_bar", "x_foo.inner", "x_foo.items", "x_foo.items.[1]",
             "x_foo_bar.inner", "foo", "foo_bar", "relationship_type", "source_ref", "hashes", "size", "definition", "definition.statement",
             "is_family", "confidence", "enabled", "x_opts", "x_opts.enabled", "x_opts.count", "x_opts.note", "x_flags", "x_flags.[1]", "x_flags.[2]"]
    from ..oracles import paths as pathor
    return [s for s in cands if pathor.fits_syntax(pathor.split(s)) and pathor.resolve(o, pathor.split(s))[0]]


def lib_call(form, name, obj, *args, **kw):
    import stix2.markings as mk
    with warnings.catch_warnings():
        warnings.simplefilter("ignore")
        if form == "method" and hasattr(obj, name):
            return getattr(obj, name)(*args, **kw)
        return getattr(mk, name)(obj, *args, **kw)


def prefix_artifact(model, s, got, exp, inherited, descendants):
    """Is the disagreement explained by matching selectors as character prefixes instead of paths?"""
    ps = MM.segs(s)
    for (p, k, m) in model.G:
        sp, ss = ".".join(p), s
        if m in (got ^ exp):
            if inherited and ss.startswith(sp) and not (MM.is_ancestor(p, ps) or p == ps):
                return True
            if descendants and sp.startswith(ss) and not (MM.is_ancestor(ps, p) or p == ps):
                return True
    return False


def query_matrix(ctx, obj, model, uni, markings, ver, carrier, thin, rng):
    for s in [None] + uni:
        if s is None:
            ctx.ev()
            try:
                got = set(lib_call("function", "get_markings", obj))
                if got != set(model.O):
                    ctx.violation("object-level-get-mismatch", "get_markings(obj) gave %s, model %s" % (sorted(got), sorted(model.O)), {"object": to_json(obj)})
                for mkg in markings + [None]:
                    r = lib_call("function", "is_marked", obj, mkg)
                    e = (mkg in model.O) if mkg is not None else bool(model.O)
                    ctx.ev()
                    if bool(r) != e:
                        ctx.violation("object-level-is-marked-mismatch", "is_marked(obj, %r) gave %r, model %r" % (mkg, r, e), {"object": to_json(obj), "marking": mkg})
            except family() as e:
                ctx.violation("query-raised", "object-level query raised %s" % type(e).__name__, {"object": to_json(obj), "exception": repr(e)})
            continue
        for inh in (False, True):
            for desc in (False, True):
                for mr in (True, False):
                    for lg in (True, False):
                        if thin and (mr, lg) != (True, True) and rng.random() < 0.6:
                            continue
                        if inh and not mr and model.O:
                            ctx.skip("inherited + marking_ref=False with object-level markings (ambiguous)")
                            continue
                        ctx.ev()
                        ctx.count("queries")
                        try:
                            got = set(lib_call("function", "get_markings", obj, s, inherited=inh, descendants=desc, marking_ref=mr, lang=lg))
                        except family() as e:
                            ctx.violation("query-raised", "get_markings(%r) raised %s" % (s, type(e).__name__), {"object": to_json(obj), "selector": s, "exception": repr(e)})
                            continue
                        exp = model.get([s], inh, desc, mr, lg)
                        ctx.nontrivial(carrier, "get", len(MM.segs(s)), inh, desc, mr, lg, bool(exp))
                        if got != exp:
                            key = "marking-prefix-not-path" if prefix_artifact(model, s, got, exp, inh, desc) else "get-markings-mismatch"
                            ctx.violation(key, "get_markings(%r, inherited=%s, descendants=%s, marking_ref=%s, lang=%s) gave %s, set model says %s" % (
                                s, inh, desc, mr, lg, sorted(got), sorted(exp)),
                                {"object": to_json(obj), "selector": s, "flags": {"inherited": inh, "descendants": desc, "marking_ref": mr, "lang": lg},
                                 "got": sorted(got), "expected": sorted(exp)})
                # (also asked about: language tags which differ from a stored one in letter case only -- other strings, to every operation alike)
                respelt = sorted({v for m_ in markings if MM.kind_of(m_) == "lang" for v in (m_.upper(), m_.lower(), m_.title()) if v not in markings})
                for mkg in markings + respelt + [None]:
                    ctx.ev()
                    ctx.count("queries")
                    try:
                        r = bool(lib_call("function", "is_marked", obj, mkg, s, inherited=inh, descendants=desc))
                    except family() as e:
                        ctx.violation("query-raised", "is_marked(%r, %r) raised %s" % (mkg, s, type(e).__name__), {"object": to_json(obj), "selector": s, "exception": repr(e)})
                        continue
                    allm = model.get([s], inh, desc, True, True)
                    e = (mkg in allm) if mkg is not None else bool(allm)
                    if r != e:
                        if inh and r and not e and mkg is not None:
                            key = "is-marked-inherited-ignores-marking"
                        elif prefix_artifact(model, s, {mkg} if r else set(), {mkg} if e else set(), inh, desc) or (mkg is None and prefix_any(model, s, inh, desc)):
                            key = "marking-prefix-not-path"
                        else:
                            key = "is-marked-inconsistent"
                        ctx.violation(key, "is_marked(%r, %r, inherited=%s, descendants=%s) gave %r but the markings reported for it are %s" % (
                            mkg, s, inh, desc, r, sorted(allm)),
                            {"object": to_json(obj), "selector": s, "marking": mkg, "flags": {"inherited": inh, "descendants": desc}, "got": r, "expected": e})
    # multi-selector union
    if len(uni) >= 2:
        a, b = rng.sample(uni, 2)
        ctx.ev()
        try:
            got = set(lib_call("function", "get_markings", obj, [a, b]))
            if got != model.get([a, b]):
                ctx.violation("get-markings-mismatch", "get_markings([%r, %r]) is not the union" % (a, b), {"object": to_json(obj), "got": sorted(got), "expected": sorted(model.get([a, b]))})
        except family() as e:
            ctx.violation("query-raised", "get_markings(list) raised %s" % type(e).__name__, {"object": to_json(obj), "selectors": [a, b]})


def prefix_any(model, s, inh, desc):
    ps = MM.segs(s)
    for (p, k, m) in model.G:
        sp = ".".join(p)
        if inh and s.startswith(sp) and not (MM.is_ancestor(p, ps) or p == ps):
            return True
        if desc and sp.startswith(s) and not (MM.is_ancestor(ps, p) or p == ps):
            return True
    return False


def wl_history(ctx, rng, i):
    import stix2
    clk = ctx.state["clock"]
    ver, t, kind = CARRIERS[i % len(CARRIERS)]
    o = make_carrier(rng, ver, t, kind)
    uni = universe(o)
    if len(uni) < 3:
        ctx.skip("selector universe too small")
        return
    refs = [TLP[0], TLP[1], "marking-definition--" + V.uuid_text(rng, 4)]
    langs = ["en", "fr", "en-US"] if ver == "2.1" else []
    markings = refs + langs
    # construction-time markings
    init_g = []
    for _ in range(rng.choice([0, 1, 2, 3])):
        mkg = rng.choice(markings)
        gm = {"selectors": rng.sample(uni, rng.choice([1, 2]))}
        gm["marking_ref" if MM.kind_of(mkg) == "ref" else "lang"] = mkg
        init_g.append(gm)
    if init_g and "granular_markings" in (M.model(ver).types.get(o["type"], {}).get("by_name", {"granular_markings": 1})):
        o["granular_markings"] = init_g
    if rng.random() < 0.5 and not (kind == "sco" and False):
        o["object_marking_refs"] = rng.sample(refs, rng.choice([1, 2]))
    clk.set(tsor.text_us(o.get("modified", o.get("created", "2020-01-01T00:00:00Z"))) + 10 ** 6)
    try:
        with warnings.catch_warnings():
            warnings.simplefilter("ignore")
            obj = dict(o) if kind == "dict" else stix2.parse(json.dumps(o), allow_custom=True)
    except Exception as e:
        ctx.skip("carrier refused (%s: %s)" % (type(e).__name__, str(e)[:60]))
        return
    model = MM.MarkingModel(o.get("object_marking_refs", []), o.get("granular_markings", []))
    versionable = kind in ("sdo", "sro", "dict")
    carrier = "%s:%s" % (ver, t)
    thin = ctx.tier == "quick"
    query_matrix(ctx, obj, model, uni, markings, ver, carrier, thin, rng)
    nops = 10
    reuse = None
    for step in range(nops):
        prev = obj
        prev_j = to_json(prev)
        op = rng.choice(["add", "add", "remove", "set", "clear"])
        granular = rng.random() < 0.7
        sels = rng.sample(uni, rng.choice([1, 1, 2])) if granular else None
        ms = rng.sample(markings, rng.choice([1, 1, 2]))
        if not granular:
            ms = [m for m in ms if MM.kind_of(m) == "ref"] or [refs[0]]
        if op == "remove" and rng.random() < 0.7:
            # mostly remove something that is there
            if granular and model.G:
                p, k, mm = rng.choice(sorted(model.G))
                sels, ms = [".".join(p)], [mm]
            elif not granular and model.O:
                ms = [rng.choice(model.O)]
        if op in ("clear", "set") and granular and model.G and rng.random() < 0.7:
            sels = [".".join(rng.choice(sorted(model.G))[0])]
        # a list of markings the caller keeps and hands over again (to a later operation, on what is by then another object): the
        # model reckons with what the caller put into it, the library gets the list object itself
        shared = None
        if op in ("add", "set") and reuse is not None and rng.random() < 0.5 and (granular or all(MM.kind_of(m) == "ref" for m in reuse[1])) \
                and not (ver == "2.0" and any(MM.kind_of(m) == "lang" for m in reuse[1])):
            shared, ms = reuse[0], list(reuse[1])
            ctx.count("marking_lists_handed_over_again")
        switches = {}
        if op in ("clear", "set") and granular and rng.random() < 0.4:
            switches = {"marking_ref": rng.random() < 0.5, "lang": rng.random() < 0.5}
        form = "method" if rng.random() < 0.5 else "function"
        # what the model says
        m2 = model.copy()
        m2.partial = False
        exp = "ok"
        try:
            if op == "add":
                m2.add(ms, sels)
            elif op == "remove":
                if m2.remove(ms, sels) == "noop":
                    exp = "noop"
            elif op == "clear":
                if m2.clear(sels, **switches) == "noop":
                    exp = "noop"
            else:
                m2.set(ms, sels, **switches)
        except MM.NotFound:
            exp = "not-found"
        lang_on_20 = ver == "2.0" and granular and op in ("add", "set") and any(MM.kind_of(m) == "lang" for m in ms)
        # marking argument form: id, list of ids, or MarkingDefinition object
        marg = ms if len(ms) > 1 or rng.random() < 0.3 else ms[0]
        if shared is not None:
            marg = shared
        elif isinstance(marg, list) and op in ("add", "set") and (reuse is None or rng.random() < 0.3):
            marg = list(ms)
            reuse = (marg, tuple(ms))
        if not isinstance(marg, list) and marg in TLP[:2] and rng.random() < 0.3:
            marg = {TLP[0]: stix2.TLP_WHITE, TLP[1]: stix2.TLP_GREEN}[marg] if ver == "2.1" else {TLP[0]: stix2.v20.TLP_WHITE, TLP[1]: stix2.v20.TLP_GREEN}[marg]
        sarg = sels if sels is None or len(sels) > 1 or rng.random() < 0.3 else sels[0]
        prev_us = tsor.text_us(prev_j.get("modified", prev_j.get("created", "2020-01-01T00:00:00Z")))
        rel = rng.choice(list(DELTAS))
        clk.set(prev_us + DELTAS[rel])
        label = "%s_markings(%s%s)%s" % (op, "granular" if granular else "object-level", "" if not switches else ", %s" % switches, "/" + form)
        ctx.ev()
        ctx.count("operations")
        try:
            if op == "add":
                res = lib_call(form, "add_markings", prev, marg, sarg)
            elif op == "remove":
                res = lib_call(form, "remove_markings", prev, marg, sarg)
            elif op == "clear":
                res = lib_call(form, "clear_markings", prev, sarg, **switches)
            else:
                res = lib_call(form, "set_markings", prev, marg, sarg, **switches)
            outcome = "returned"
        except family() as e:
            outcome = "refused:" + type(e).__name__
            res = None
        ctx.see("operations", "%s:%s:%s" % (op, "granular" if granular else "object", outcome.split(":")[0]))
        w = {"carrier": carrier, "operation": label, "markings": ms, "selectors": sels, "before": prev_j, "model_expectation": exp, "outcome": outcome}
        if not versionable:
            if outcome == "returned" and res is not prev and (MM.pairs_of_json(to_json(res)) != model.G or set(to_json(res).get("object_marking_refs", [])) != set(model.O)):
                ctx.violation("non-versionable-carrier-mutated", "%s on a non-versionable %s returned a changed object" % (label, carrier), w)
            continue
        if lang_on_20:
            if outcome == "returned" and MM.pairs_of_json(to_json(res)) != model.G:
                # out of scope: how 2.0 treats language tags is not modelled; resynchronise
                model = MM.MarkingModel(to_json(res).get("object_marking_refs", []), to_json(res).get("granular_markings", []))
                obj = res
            ctx.skip("language marking on a 2.0 object")
            continue
        if exp == "not-found":
            if outcome == "returned":
                ctx.violation("missing-refusal:" + op, "%s returned although nothing matched (MarkingNotFoundError documented)" % label, dict(w, result=to_json(res)))
                model = MM.MarkingModel(to_json(res).get("object_marking_refs", []), to_json(res).get("granular_markings", []))
                obj = res
            continue
        if outcome != "returned":
            ctx.violation("unexpected-refusal:" + op, "%s on %s raised %s although the set model allows it" % (label, carrier, outcome), w)
            continue
        new_j = to_json(res)
        if m2.partial:
            ctx.skip("partial-presence remove (ambiguous)")
            model = MM.MarkingModel(new_j.get("object_marking_refs", []), new_j.get("granular_markings", []))
            obj = res
            continue
        gotG, gotO = MM.pairs_of_json(new_j), set(new_j.get("object_marking_refs", []))
        if gotG != m2.G or gotO != set(m2.O):
            ctx.violation("state-mismatch:" + op, "%s on %s: marking set after the operation differs from the set model" % (label, carrier),
                          dict(w, after=new_j, model_pairs=sorted([".".join(p), k, m] for p, k, m in m2.G), model_object_level=m2.O,
                               got_pairs=sorted([".".join(p), k, m] for p, k, m in gotG)))
            model = MM.MarkingModel(new_j.get("object_marking_refs", []), new_j.get("granular_markings", []))
        else:
            model = m2
        if res is not prev:
            eff = {}
            for k in ("object_marking_refs", "granular_markings"):
                if (k in new_j) != (k in prev_j) or new_j.get(k) != prev_j.get(k):
                    eff[k] = new_j.get(k)
            judge_step(ctx, label, prev_j, new_j, eff, ver, rel, {"form": "dict" if kind == "dict" else "object", "carrier": carrier})
            # original untouched
            if to_json(prev) != prev_j:
                ctx.violation("original-modified-by-marking-operation", "%s changed the object it was applied to" % label, {"before": prev_j, "after": to_json(prev)})
            ctx.count("versions_checked")
        elif exp != "noop" and (gotG != MM.pairs_of_json(prev_j) or True) and (m2.G != MM.pairs_of_json(prev_j) or set(m2.O) != set(prev_j.get("object_marking_refs", []))):
            ctx.violation("state-mismatch:" + op, "%s returned the same object although the marking set had to change" % label, w)
        obj = res
        query_matrix(ctx, obj, model, uni, markings, ver, carrier, thin, rng)
    if ctx.want_sample():
        ctx.sample({"carrier": carrier, "selector_universe": uni, "final_object": to_json(obj)})


# pure by their documentation: a sample of the calls is repeated in a fresh interpreter, in reverse order (stixmon/echo.py)
ECHO = ['stix2.markings:get_markings', 'stix2.markings:is_marked']
WORKLOADS = [
    Workload("history", wl_history, quick=lambda: len(CARRIERS) * 4, thorough=lambda: len(CARRIERS) * 400),
]


def floors(m, tier):
    c = m["counters"]
    out = []
    if c.get("queries", 0) < 20000:
        out.append("fewer than 20000 queries judged (%d)" % c.get("queries", 0))
    if c.get("operations", 0) < 300:
        out.append("fewer than 300 operations")
    if c.get("versions_checked", 0) < 100:
        out.append("fewer than 100 results checked as versions")
    ops = m["seen"].get("operations", set())
    for need in ("add:granular:returned", "remove:granular:returned", "clear:granular:returned", "set:granular:returned", "add:object:returned",
                 "remove:object:returned", "clear:object:returned", "set:object:returned", "clear:granular:refused", "remove:granular:refused"):
        if need not in ops:
            out.append("operation outcome %s never observed" % need)
    return out[:6]


MANIFEST = {
    "text": ("Random operation histories on marked objects of every carrier kind are shadowed by a reference set model of "
             "(selector, marking) pairs; after every operation the resulting marking set and the complete query matrix "
             "(get_markings / is_marked over every selector of the universe and every flag combination) must agree with the model, "
             "and every result must be a valid new version with untouched non-marking content (C05 step oracle under a steered clock). "
             "The algebraic laws of the property hold in the model by construction, so state agreement after every step implies them. Echo monitor: a sample of the get_markings / is_marked calls is repeated in a fresh interpreter in reverse order and must answer alike."),
    "note": "trusts the set model in stixmon/oracles/markings.py; ambiguous behaviours listed in the assumptions are resynchronised, not judged",
    "technique": "runtime monitoring: reference-model (set of pairs) checker over recorded operation/query histories; echo monitor (pure calls repeated in a fresh interpreter)",
}
