"""C12 -- queries return exactly the objects satisfying every filter.

Events: source.query(filters) through the three routes (query argument, attached with source.filters.add, handed down by a
CompositeDataSource), on a MemoryStore and a FileSystemStore holding the same population.
Oracle: naive evaluator (stixmon.oracles.storemodel) over the list model; plus the laws "adding a filter only shrinks" and
"a conjunction equals the intersection of its parts"; complete enumeration of the type/id optimiser alphabet.
"""
import datetime as dt
import itertools
import json
import os
import shutil
import tempfile
import warnings

from ..ctx import Workload
from ..gen import custom as gcustom
from ..gen import values as V
from ..gen.objects import ObjGen
from ..oracles import ts as tsor
from ..oracles.storemodel import ListModel, Unjudged, evaluate, version_instant
from ..spec import model as M

ID = "C12"
LEVEL = "exploration"
SHARDS = {"quick": 4, "thorough": 16}
RULE = ("populations of 12-20 stored objects (several types, several versions, both spec versions, a registered custom type) in "
        "a MemoryStore and a FileSystemStore; random filter sets of 1-3 filters over string, integer, boolean, timestamp (value as "
        "string and as datetime), list-valued properties and dotted paths into lists of embedded objects, all eight operators; and the "
        "complete enumeration of the type/id optimiser alphabet ({type,id} x {=,!=,in} x {present, absent, prefix-mismatching "
        "values, short lists}), every filter set up to size 2 (quick) / 3 (thorough); each through three routes.  "
        "Non-trivial: a filter set with a non-empty and non-total answer; distinct = distinct (filter set shape, route, store)")
ASSUMPTIONS = [
    "documented semantics: a filter on a list-valued property holds when any element satisfies it; dotted paths descend into embedded objects and lists",
    "out of the deciding set: order comparisons between different kinds (Python raises TypeError), '!=' on list-valued properties, 'contains' on non-list properties",
    "the list model holds the include-defaults serialisation of each stored object (defaulted properties such as revoked=false are queryable)",
]
TS_PROPS = {"created", "modified", "valid_from", "valid_until", "first_seen", "last_seen", "published", "first_observed", "last_observed", "seen",
            "start_time", "stop_time", "stamped_at", "collected", "seen_at"}
# an extension this process has no class for: its content stays a dictionary inside a library object, its timestamps stay text
FOREIGN_EXT = "extension-definition--9c7a1e52-3b64-4d0f-8a21-5e6f7d8c9b0a"


def setup(ctx):
    gcustom.ensure_registered()


def norm(x):
    with warnings.catch_warnings():
        warnings.simplefilter("ignore")
        if hasattr(x, "serialize"):
            return json.loads(x.serialize(include_optional_defaults=True))
    return json.loads(json.dumps(x, default=str))


def key(j):
    return (j["id"], version_instant(j))


def build_population(rng):
    import stix2
    items = []
    types21 = ["identity", "campaign", "malware", "indicator", "relationship", "threat-actor", "tool", "report", "attack-pattern", "vulnerability"]
    for k in range(rng.choice([8, 10, 12])):
        ver = "2.1" if rng.random() < 0.75 else "2.0"
        g = ObjGen(rng, ver, hostile=False, ts_max_digits=6, openvocab_custom=False, year_range=(2015, 2022), extensions=False)
        t = rng.choice(types21)
        o = g.make(t, "max" if rng.random() < 0.5 else "random", granular=False)
        if rng.random() < 0.3:
            o = gcustom.widget(g)
        base = tsor.text_us(o["modified"]) if "modified" in o else None
        if ver == "2.1" and "extensions" not in o and o["type"] != "x-widget" and rng.random() < 0.4:
            eus = V.instant_us(rng, 2015, 2022)
            eus -= eus % rng.choice([1, 1000, 10 ** 6, 10 ** 6])
            spell = lambda us: rng.choice([tsor.format_us(us, "any"), tsor.format_us(us, "millisecond", "min")])      # noqa: E731
            o["extensions"] = {FOREIGN_EXT: {"extension_type": "property-extension", "collected": spell(eus), "detail": {"seen_at": spell(eus + rng.choice([0, 1000, 10 ** 6]))},
                                             "stages": [{"seen_at": spell(eus)}, {"seen_at": spell(eus + 10 ** 6)}]}}
        nver = rng.choice([1, 1, 2, 3])
        for vi in range(nver):
            ov = dict(o)
            if base is not None:
                ov["modified"] = tsor.format_us(base + vi * rng.choice([1000, 10 ** 6, 86400 * 10 ** 6]), "millisecond", "min" if ver == "2.1" else "exact")
                if vi:
                    if "description" in ov or rng.random() < 0.5:
                        ov["description"] = "version %d" % vi
                    if "confidence" in ov:
                        ov["confidence"] = rng.randrange(0, 101)
                    if rng.random() < 0.3:
                        ov["revoked"] = True
            try:
                with warnings.catch_warnings():
                    warnings.simplefilter("ignore")
                    obj = stix2.parse(json.dumps(ov), allow_custom=False)
                items.append(obj)
            except Exception:
                break
            if ov.get("revoked"):
                break
    # objects of an unregistered type: the stores keep them as dictionaries, timestamps as text in assorted spellings
    for k in range(rng.choice([0, 2, 3])):
        g = ObjGen(rng, "2.1", hostile=False)
        base = V.instant_us(rng, 2015, 2022)
        base -= base % rng.choice([1, 1000, 10 ** 6])
        sid = g.new_id("x-unregistered")
        for vi in range(rng.choice([1, 2])):
            us = base + vi * rng.choice([1, 1000, 10 ** 6])
            full = tsor.format_us(us, "any")
            forms = [full, tsor.format_us(us, "millisecond", "min")]
            if "." in full and len(full.split(".")[1]) < 7:
                forms.append(full[:-1] + "0Z")
            d = {"type": "x-unregistered", "id": sid, "created": rng.choice([tsor.format_us(base - 10 ** 6, "any"), tsor.format_us(base - 10 ** 6, "millisecond", "min")]),
                 "modified": rng.choice(forms), "name": "kept as dictionary %d" % k, "labels": ["l1"], "confidence": rng.randrange(0, 101)}
            if rng.random() < 0.5:
                d["spec_version"] = "2.1"
            if rng.random() < 0.5:
                d["first_seen"] = rng.choice(forms)
            if rng.random() < 0.7:
                d["stamped_at"] = rng.choice(forms)          # a timestamp only dictionaries hold (no library object has the property)
            items.append(d)
        if k == 1 and rng.random() < 0.7:
            # ... and dictionaries whose type name goes on after a dot (the stores keep unregistered content as given): to a type / id
            # filter they are other types and other ids than the ones they begin with
            for suffix in (".v2", ".json"):
                dsid = "x-unregistered%s--%s" % (suffix, sid.split("--", 1)[1])
                items.append({"type": "x-unregistered" + suffix, "id": dsid, "created": "2020-01-01T00:00:00.000Z", "modified": "2020-01-01T00:00:00.000Z",
                              "name": "dotted type name", "labels": ["l1"], "confidence": 50})
        if k == 0:
            # ... and a name which looks like a timestamp written with other digits than ASCII ones: a string like any other
            lookalike = "\uff12\uff10\uff12\uff10-01-01T00:00:00Z" if rng.random() < 0.5 else "2020-01-01T00:00:0\u0660Z"
            items.append({"type": "x-unregistered", "id": g.new_id("x-unregistered"), "created": "2020-01-01T00:00:00.000Z", "modified": "2020-01-01T00:00:00.000Z",
                          "name": lookalike, "labels": ["l1"], "confidence": 1})
        if k == 0 and rng.random() < 0.6:
            # ... and one without `modified` (a flat file in the same type directory), stored and asked for first
            items.insert(0, {"type": "x-unregistered", "id": g.new_id("x-unregistered"), "name": "unversioned", "labels": ["l1"], "stixmon_first": True})
    return items


def value_pool(model, prop):
    """Values of a (possibly dotted) property occurring in the population, flattened."""
    out = []

    def walk(cur, parts):
        if not parts:
            if isinstance(cur, list):
                out.extend(x for x in cur if not isinstance(x, (dict, list)))
            elif not isinstance(cur, dict):
                out.append(cur)
            return
        if isinstance(cur, list):
            for e in cur:
                walk(e, parts)
        elif isinstance(cur, dict) and parts[0] in cur:
            walk(cur[parts[0]], parts[1:])
    for j in model.items:
        walk(j, prop.split("."))
    return out


PROPS = {
    "string": ["name", "description", "type", "id", "relationship_type", "created_by_ref", "source_ref", "identity_class", "pattern_type", "lang"],
    "int": ["confidence", "size"],
    "bool": ["revoked", "is_family", "enabled"],
    "ts": ["created", "modified", "valid_from", "first_seen", "published", "seen", "stamped_at",
           "extensions.%s.collected" % FOREIGN_EXT, "extensions.%s.detail.seen_at" % FOREIGN_EXT, "extensions.%s.stages.seen_at" % FOREIGN_EXT],
    "list": ["labels", "aliases", "object_marking_refs", "malware_types", "tags", "sectors", "object_refs", "goals"],
    "dotted": ["external_references.source_name", "external_references.external_id", "kill_chain_phases.phase_name",
               "kill_chain_phases.kill_chain_name", "external_references.hashes.MD5"],
}


def gen_filter(rng, model):
    kind = rng.choice(["string", "string", "int", "bool", "ts", "ts", "list", "dotted", "string"])
    prop = rng.choice(PROPS[kind])
    pool = value_pool(model, prop)
    present = rng.choice(pool) if pool and rng.random() < 0.8 else None
    if kind == "string":
        op = rng.choice(["=", "!=", "in", "<", ">", "<=", ">=", "="])
        v = present if present is not None else "zzz-no-such-value"
        if op == "in":
            v = [v] + ([rng.choice(pool)] if pool else []) + ["other"]
            if rng.random() < 0.3 and all(isinstance(x, str) and "_" not in x for x in v):
                v = rng.choice([",", " ", ""]).join(v[:2])          # a string: substring semantics; no shortcut can be derived from it
        if prop == "type" and isinstance(v, str) and "_" in v:
            v = "identity"
        return (prop, op, v)
    if kind == "int":
        op = rng.choice(["=", "!=", "<", ">", "<=", ">=", "in"])
        v = present if present is not None else rng.randrange(0, 101)
        if rng.random() < 0.2:
            v = float(v) + rng.choice([0.0, 0.5])
        if op == "in":
            v = [v, rng.randrange(0, 101)]
        return (prop, op, v)
    if kind == "bool":
        return (prop, rng.choice(["=", "!="]), rng.random() < 0.5)
    if kind == "ts":
        op = rng.choice(["=", "!=", "<", ">", "<=", ">=", "in"])
        base = tsor.text_us(present) if isinstance(present, str) and tsor.text_us(present) is not None else V.instant_us(rng, 2015, 2022)
        us = base + rng.choice([0, 0, 1, -1, 1000, -1000, 10 ** 6])
        spell = rng.choice(["any", "ms", "padded"])
        text = tsor.format_us(us, "any") if spell == "any" else tsor.format_us(us, "millisecond", "min") if spell == "ms" else \
            (tsor.format_us(us, "any")[:-1] + ("0Z" if "." in tsor.format_us(us, "any") and len(tsor.format_us(us, "any").split(".")[1]) < 7 else "Z"))
        if op == "in":
            lst = [text, tsor.format_us(us + 5, "any")]
            if prop == "stamped_at" and rng.random() < 0.6:
                # other strings among the listed values: none of them is that instant, and none makes the timestamps among them text
                lst.insert(rng.randrange(3), rng.choice(["never", "", "2020", "not a timestamp"]))
                return (prop, op, lst)
            if rng.random() < 0.4:
                # datetimes (also naive = UTC) among the listed values
                naive = dt.datetime(1, 1, 1) + dt.timedelta(microseconds=us)
                lst = [rng.choice([naive, naive.replace(tzinfo=dt.timezone.utc).astimezone(dt.timezone(dt.timedelta(minutes=90)))]), lst[1]]
            return (prop, op, lst)
        if rng.random() < 0.35:
            naive = dt.datetime(1, 1, 1) + dt.timedelta(microseconds=us)
            if rng.random() < 0.25:
                return (prop, op, naive)              # a naive datetime means UTC by the library's documented convention
            tz = dt.timezone(dt.timedelta(minutes=rng.choice([0, 60, -330])))
            return (prop, op, naive.replace(tzinfo=dt.timezone.utc).astimezone(tz))
        return (prop, op, text)
    if kind == "list":
        op = rng.choice(["=", "contains", "in", "contains"])
        v = present if present is not None else "zzz-no-such-element"
        if op == "in":
            v = [v, "other"]
        return (prop, op, v)
    op = rng.choice(["=", "!=", "in", "<", ">"])
    v = present if present is not None else "zzz"
    if op == "in":
        v = [v, "other"]
    if rng.random() < 0.15:
        # a path that goes on below a value without properties: holds for nothing
        return (rng.choice(["labels.foo", "name.first", "created.year", "type.x"]), rng.choice(["=", "in"]), v if op == "in" else [v] if False else (v if not isinstance(v, list) else v))
    return (prop, op, v)


def to_lib(f):
    from stix2 import Filter
    return Filter(f[0], f[1], f[2])


def fdesc(f):
    show = lambda x: "datetime:" + x.isoformat() if isinstance(x, dt.datetime) else x     # noqa: E731
    return [f[0], f[1], [show(x) for x in f[2]] if isinstance(f[2], (list, tuple)) else show(f[2])]


def run_routes(ctx, stores, filters, exp_keys, case, tag):
    """The three routes on each store, plus the composite over both."""
    import stix2
    libf = [to_lib(f) for f in filters]
    for name, src in stores:
        for route in ("argument", "attached", "composite"):
            ctx.ev()
            ctx.count("queries")
            try:
                with warnings.catch_warnings():
                    warnings.simplefilter("ignore")
                    if route == "argument":
                        res = src.query(list(libf))
                    elif route == "attached":
                        uniq = []                              # FilterSet.add drops duplicates (a filter whose value is a dict cannot be hashed)
                        for f_ in libf:
                            if f_ not in uniq:
                                uniq.append(f_)
                        src.filters.add(list(uniq))
                        try:
                            res = src.query()
                        finally:
                            src.filters.remove(list(uniq))
                    else:
                        cds = stix2.CompositeDataSource()
                        cds.add_data_source(src)
                        half = len(libf) // 2
                        cds.filters.add(libf[:half] or libf)
                        res = cds.query(libf[half:] if half else [])
            except Exception as e:
                ctx.violation("query-raised", "%s via %s raised %s: %s" % (name, route, type(e).__name__, str(e)[:160]),
                              dict(case, store=name, route=route, filters=[fdesc(f) for f in filters], exception=repr(e)))
                continue
            got = [norm(x) for x in res]
            gk = {key(j) for j in got}
            ctx.nontrivial(tag, name, route, [(f[0], f[1], type(f[2]).__name__) for f in filters]) if 0 < len(exp_keys) < case["population"] else None
            if gk != exp_keys:
                missing, extra = exp_keys - gk, gk - exp_keys
                mech = classify(filters, missing, extra, name)
                ctx.violation(mech, "%s.query via %s with %s: %d expected, %d returned (missing %d, unexpected %d)" % (
                    name, route, [fdesc(f) for f in filters], len(exp_keys), len(gk), len(missing), len(extra)),
                    dict(case, store=name, route=route, filters=[fdesc(f) for f in filters],
                         missing=[list(map(str, k)) for k in sorted(missing, key=str)[:4]], unexpected=[list(map(str, k)) for k in sorted(extra, key=str)[:4]]))
            elif len(gk) != len(got) and route != "composite":
                pass   # duplicates of one (id, version) in a single store are C11's business


def reuse_route(ctx, stores, filters, model, case):
    """The query is a FilterSet *object* that is handed to one source after another; the first source has a filter of its
    own attached.  Neither the second source's answer nor the caller's FilterSet may be affected by the first call."""
    import stix2
    from stix2.datastore.filters import FilterSet
    if len(stores) < 2:
        return
    (n1, s1), (n2, s2) = stores[0], stores[1]
    try:
        own = gen_own_filter(model)
        exp2 = {key(j) for j in evaluate(filters, model.items, TS_PROPS)}
        exp1 = {key(j) for j in evaluate(filters + [own], model.items, TS_PROPS)}
    except Unjudged:
        return
    fs_obj = FilterSet([to_lib(f) for f in filters])
    before = [tuple(f) for f in fs_obj]
    s1.filters.add(to_lib(own))
    try:
        with warnings.catch_warnings():
            warnings.simplefilter("ignore")
            r1 = {key(norm(x)) for x in s1.query(fs_obj)}
            r2 = {key(norm(x)) for x in s2.query(fs_obj)}
            cds = stix2.CompositeDataSource()
            cds.add_data_sources([s1, s2])
            fs2 = FilterSet([to_lib(f) for f in filters])
            rc = {key(norm(x)) for x in cds.query(fs2)}
    except Exception as e:
        ctx.violation("query-raised", "query with a FilterSet object raised %s" % type(e).__name__, dict(case, filters=[fdesc(f) for f in filters], exception=repr(e)))
        return
    finally:
        s1.filters.remove(to_lib(own))
    ctx.ev(3)
    ctx.count("filterset_reuse")
    w = dict(case, filters=[fdesc(f) for f in filters], attached_to_first_source=fdesc(own), first=n1, second=n2)
    if r1 != exp1:
        ctx.violation("query-result-mismatch", "%s with an attached filter and a FilterSet query: %d expected, %d returned" % (n1, len(exp1), len(r1)), w)
    if r2 != exp2:
        ctx.violation("filters-leak-between-sources", "%s asked after %s with the same FilterSet object: %d expected, %d returned" % (n2, n1, len(exp2), len(r2)), w)
    if rc != (exp1 | exp2):
        ctx.violation("filters-leak-between-sources", "composite over [%s with own filter, %s]: %d expected, %d returned" % (n1, n2, len(exp1 | exp2), len(rc)), w)
    if [tuple(f) for f in fs_obj] != before:
        ctx.violation("callers-filterset-modified", "the caller's FilterSet object was modified by query()", dict(w, before=len(before), after=len(list(fs_obj))))


def gen_own_filter(model):
    types = sorted({j["type"] for j in model.items})
    return ("type", "!=", types[0]) if types else ("type", "!=", "tool")


def classify(filters, missing, extra, store):
    if any(f[0] == "name" and (tsor.text_us(f[2]) is not None if isinstance(f[2], str) else isinstance(f[2], (list, tuple)) and any(isinstance(x, str) and tsor.text_us(x) is not None for x in f[2]))
           for f in filters):
        return "string-resembling-a-timestamp-compared-as-instant"
    if any(f[0] in TS_PROPS and f[1] == "in" for f in filters) and missing and not extra:
        if any(f[0] in TS_PROPS and f[1] == "in" and isinstance(f[2], (list, tuple)) and any(isinstance(x, str) and tsor.text_us(x) is None for x in f[2]) for f in filters):
            return "in-list-timestamps-among-other-strings"
        return "in-list-timestamp-strings"
    if any(f[0] in ("type", "id") for f in filters) and store.startswith("FileSystem"):
        return "filesystem-type-id-shortcut"
    return "query-result-mismatch"


def make_stores(rng, objs, tmp):
    import stix2
    fsdir = tempfile.mkdtemp(dir=tmp)
    mem = stix2.MemoryStore()
    fs = stix2.FileSystemStore(fsdir, allow_custom=True)
    model = ListModel()
    for o in objs:
        j = norm(o)
        if model.add(j):
            mem.add(o)
            fs.add(o)
            if isinstance(o, dict) and o.get("stixmon_first"):
                # history: the sources are asked while the type directory holds nothing but this flat file
                for src in (mem, fs):
                    try:
                        src.query([stix2.Filter("type", "=", o["type"])])
                        src.get(o["id"])
                    except Exception:
                        pass
    return mem, fs, model


def wl_random(ctx, rng, i):
    tmp = tempfile.mkdtemp(prefix="stixmon-c12-")
    try:
        objs = build_population(rng)
        if len(objs) < 5:
            ctx.skip("population too small")
            return
        mem, fs, model = make_stores(rng, objs, tmp)
        case = {"population": len(model.items), "types": sorted({j["type"] for j in model.items})}
        stores = [("MemoryStore", mem.source), ("FileSystemStore", fs.source)]
        # filters on a type / id which other stored types / ids merely begin with
        aimed = []
        for j in model.items:
            if "." in j["type"]:
                stem_t, stem_i = j["type"].split(".", 1)[0], j["id"].replace(j["type"], j["type"].split(".", 1)[0], 1)
                aimed += [[("type", "!=", stem_t)], [("id", "!=", stem_i)], [("type", "=", stem_t)], [("type", "in", [stem_t, "identity"])], [("id", "=", stem_i)]]
        if any(j.get("name", "").endswith("Z") and not j["name"].isascii() for j in model.items if isinstance(j.get("name"), str)):
            aimed += [[("name", "=", "2020-01-01T00:00:00Z")], [("name", "!=", "2020-01-01T00:00:00Z")], [("name", "in", ["2020-01-01T00:00:00Z", "2020-01-01T00:00:00.000Z"])]]
        # a timestamp property asked about with 'in' and datetime objects among the listed values (naive = UTC, or with an offset):
        # the same instants as the text
        ts_items = [j for j in model.items if isinstance(j.get("created"), str) and tsor.text_us(j["created"]) is not None]
        for j in rng.sample(ts_items, min(2, len(ts_items))):
            us = tsor.text_us(j["created"])
            naive = dt.datetime(1, 1, 1) + dt.timedelta(microseconds=us)
            aimed.append([("created", "in", [rng.choice([naive, naive.replace(tzinfo=dt.timezone.utc).astimezone(dt.timezone(dt.timedelta(minutes=-150)))]),
                                            "1999-01-01T00:00:00Z"])])
        rng.shuffle(aimed)
        for q in range(12 + min(5, len(aimed))):
            filters = [gen_filter(rng, model) for _ in range(rng.choice([1, 1, 2, 2, 3]))] if q < 12 else aimed[q - 12]
            try:
                exp = evaluate(filters, model.items, TS_PROPS)
                parts = [evaluate([f], model.items, TS_PROPS) for f in filters]
            except Unjudged as u:
                ctx.skip("unjudged: %s" % u)
                continue
            exp_keys = {key(j) for j in exp}
            # laws on the oracle side are trivial; on the library side they follow from equality with the oracle for the
            # whole set and for each part, so query the parts too
            run_routes(ctx, stores, filters, exp_keys, case, "random")
            reuse_route(ctx, stores if q % 2 else stores[::-1], filters, model, case)
            if len(filters) > 1:
                for f, p in zip(filters, parts):
                    run_routes(ctx, stores[:1] if q % 2 else stores[1:], [f], {key(j) for j in p}, case, "part")
            for f in filters:
                ctx.see("operators", f[1])
                ctx.see("property kinds", next((k for k, ps in PROPS.items() if f[0] in ps), "path-below-a-leaf"))
            ctx.count("filter_sets")
        if ctx.want_sample():
            ctx.sample({"population": case, "example_filters": [fdesc(f) for f in filters], "expected_matches": len(exp_keys)})
    finally:
        shutil.rmtree(tmp, ignore_errors=True)


# ---- optimiser alphabet: fixed population, complete enumeration -------------------------------------------------------------

def fixed_population():
    import stix2
    ids = {
        "identity": ["identity--11111111-1111-4111-8111-111111111111", "identity--22222222-2222-4222-8222-222222222222"],
        "malware": ["malware--33333333-3333-4333-8333-333333333333"],
        "marking-definition": ["marking-definition--44444444-4444-4444-8444-444444444444"],
        "domain-name": ["domain-name--55555555-5555-4555-8555-555555555555"],
    }
    objs = []
    for sid in ids["identity"]:
        for v in range(2):
            objs.append({"type": "identity", "spec_version": "2.1", "id": sid, "created": "2020-01-01T00:00:00.000Z",
                         "modified": "2020-01-0%dT00:00:00.000Z" % (v + 1), "name": "n%d" % v})
    objs.append({"type": "malware", "spec_version": "2.1", "id": ids["malware"][0], "created": "2020-01-01T00:00:00.000Z",
                 "modified": "2020-01-01T00:00:00.000Z", "name": "m", "is_family": False})
    objs.append({"type": "marking-definition", "spec_version": "2.1", "id": ids["marking-definition"][0], "created": "2020-01-01T00:00:00.000Z",
                 "definition_type": "statement", "definition": {"statement": "s"}})
    objs.append({"type": "domain-name", "spec_version": "2.1", "id": ids["domain-name"][0], "value": "example.com"})
    with warnings.catch_warnings():
        warnings.simplefilter("ignore")
        return [stix2.parse(o) for o in objs], ids


def alphabet(ids):
    i1, i2 = ids["identity"]
    mw = ids["malware"][0]
    absent_id = "identity--99999999-9999-4999-8999-999999999999"
    absent_type_id = "tool--99999999-9999-4999-8999-999999999999"
    A = [
        ("type", "=", "identity"), ("type", "=", "malware"), ("type", "=", "tool"), ("type", "!=", "identity"), ("type", "!=", "tool"),
        ("type", "in", ["identity", "malware"]), ("type", "in", ["tool"]), ("type", "in", ["identity"]), ("type", "=", "marking-definition"),
        ("type", "in", ["domain-name", "marking-definition", "tool"]),
        ("id", "=", i1), ("id", "=", mw), ("id", "=", absent_id), ("id", "=", absent_type_id), ("id", "!=", i1), ("id", "!=", absent_id),
        ("id", "in", [i1, i2]), ("id", "in", [i1, mw]), ("id", "in", [absent_id]), ("id", "in", [i2, absent_type_id]),
        ("id", "=", ids["marking-definition"][0]), ("id", "in", [ids["domain-name"][0], i1]), ("id", "!=", ids["domain-name"][0]),
        ("name", "=", "n1"),
        # 'in' with a string value: a substring test, from which no shortcut can be derived
        ("type", "in", "identity,malware"), ("id", "in", i1), ("id", "in", i1 + " " + mw),
        # a list where a single value belongs (equal to no type / id, so '!=' holds for everything), and values that are no text at all:
        # nothing a shortcut could be derived from
        ("type", "!=", ["identity", "malware"]), ("id", "!=", [i1, mw]), ("type", "=", ["identity"]), ("id", "=", 5), ("id", "in", [5]),
        ("type", "in", [1, 2]), ("type", "!=", {"a": 1}), ("id", "=", {"a": 1}),
        # holds for the older version of each identity only
        ("name", "=", "n0"),
        # values no directory entry can be named like: equal to no type / id
        ("type", "=", "a" * 300), ("id", "=", "identity--" + "a" * 300), ("type", "=", "a\x00b"), ("id", "in", ["identity--a\x00", i1]),
    ]
    return A


def wl_alphabet(ctx, rng, i):
    """case i = the i-th filter set of the enumeration"""
    st = ctx.state.get("alpha")
    if st is None:
        tmp = tempfile.mkdtemp(prefix="stixmon-c12a-")
        objs, ids = fixed_population()
        mem, fs, model = make_stores(rng, objs, tmp)
        A = alphabet(ids)
        maxk = 2 if ctx.tier == "quick" else 3
        sets = [c for k in range(1, maxk + 1) for c in itertools.combinations(range(len(A)), k)]
        st = ctx.state["alpha"] = {"tmp": tmp, "mem": mem, "fs": fs, "model": model, "A": A, "sets": sets}
    if i >= len(st["sets"]):
        return
    filters = [st["A"][k] for k in st["sets"][i]]
    model = st["model"]
    exp_keys = {key(j) for j in evaluate(filters, model.items, TS_PROPS)}
    case = {"population": len(model.items), "enumeration_index": i}
    run_routes(ctx, [("FileSystemStore", st["fs"].source), ("MemoryStore", st["mem"].source)], filters, exp_keys, case, "alphabet")
    ctx.count("alphabet_sets")
    # get / all_versions with attached filters: every answer must satisfy them
    if len(filters) == 1:
        from stix2 import Filter
        for name, src in (("FileSystemStore", st["fs"].source), ("MemoryStore", st["mem"].source)):
            lf = [to_lib(f) for f in filters]
            src.filters.add(lf)
            try:
                for sid in model.ids():
                    ctx.ev()
                    with warnings.catch_warnings():
                        warnings.simplefilter("ignore")
                        g = src.get(sid)
                        av = src.all_versions(sid)
                    for ans in ([g] if g is not None else []) + list(av):
                        if not evaluate(filters, [norm(ans)], TS_PROPS):
                            ctx.violation("attached-filter-ignored", "%s returned an object that fails its attached filter %s" % (name, fdesc(filters[0])),
                                          {"store": name, "filter": fdesc(filters[0]), "answer": norm(ans)})
                            break
                    latest = model.latest(sid)
                    if evaluate(filters, [latest], TS_PROPS) and g is None:
                        ctx.violation("attached-filter-hides-match", "%s.get(%s) returned nothing although the latest version satisfies the attached filter" % (name, sid),
                                      {"store": name, "filter": fdesc(filters[0]), "id": sid})
                    # "filters attached to a source apply to every one of its answers": the answer to get() is the newest of the
                    # versions the filters let through (what all_versions() shows), in every kind of source alike
                    passing = evaluate(filters, model.versions(sid), TS_PROPS)
                    if passing:
                        newest = max(passing, key=version_instant)
                        ctx.count("get_under_attached_filter")
                        if g is None or key(norm(g)) != key(newest):
                            ctx.violation("attached-filter-get-not-newest-passing", "%s.get(%s) under attached filter %s answered %s; the newest version passing the filter is %s" % (
                                name, sid, fdesc(filters[0]), "nothing" if g is None else norm(g).get("modified"), newest.get("modified")),
                                {"store": name, "filter": fdesc(filters[0]), "id": sid, "versions_passing": [v.get("modified") for v in passing]})
            finally:
                src.filters.remove(lf)
        # the same filter attached to a composite above the (itself unfiltered) source: it reaches every kind of answer of the member
        import stix2
        for name, src in (("FileSystemStore", st["fs"].source), ("MemoryStore", st["mem"].source)):
            cds = stix2.CompositeDataSource()
            cds.add_data_source(src)
            cds.filters.add([to_lib(f) for f in filters])
            for sid in model.ids():
                ctx.ev()
                ctx.count("composite_pushed_lookups")
                with warnings.catch_warnings():
                    warnings.simplefilter("ignore")
                    g = cds.get(sid)
                    av = cds.all_versions(sid)
                for ans in ([g] if g is not None else []) + list(av):
                    if not evaluate(filters, [norm(ans)], TS_PROPS):
                        ctx.violation("composite-filter-ignored-by-member", "a composite over %s with attached filter %s returned an object that fails it (%s)" % (
                            name, fdesc(filters[0]), "get" if ans is g else "all_versions"), {"store": name, "filter": fdesc(filters[0]), "answer": norm(ans)})
                        break
                passing = evaluate(filters, model.versions(sid), TS_PROPS)
                if {key(norm(x)) for x in av} != {key(x) for x in passing}:
                    ctx.violation("composite-filter-ignored-by-member", "a composite over %s with attached filter %s: all_versions(%s) gave %d versions, %d pass the filter" % (
                        name, fdesc(filters[0]), sid, len(av), len(passing)), {"store": name, "filter": fdesc(filters[0]), "id": sid})


def alphabet_size(tier):
    n = 40
    return n + n * (n - 1) // 2 + (n * (n - 1) * (n - 2) // 6 if tier == "thorough" else 0)


def teardown(ctx):
    st = ctx.state.get("alpha")
    if st:
        shutil.rmtree(st["tmp"], ignore_errors=True)


WORKLOADS = [
    Workload("random", wl_random, quick=60, thorough=5000),
    Workload("alphabet", wl_alphabet, quick=lambda: alphabet_size("quick"), thorough=lambda: alphabet_size("thorough"), exhaustive=True),
]


def floors(m, tier):
    c = m["counters"]
    out = []
    if c.get("queries", 0) < 3000:
        out.append("fewer than 3000 queries judged")
    if c.get("filterset_reuse", 0) < 200:
        out.append("FilterSet-object reuse exercised fewer than 200 times")
    if c.get("alphabet_sets", 0) < alphabet_size(tier):
        out.append("optimiser alphabet not completely enumerated (%d of %d)" % (c.get("alphabet_sets", 0), alphabet_size(tier)))
    ops = m["seen"].get("operators", set())
    for op in ("=", "!=", "in", "<", ">", "<=", ">=", "contains"):
        if op not in ops:
            out.append("operator %s never used" % op)
    return out[:6]


MANIFEST = {
    "text": ("Every query issued through the three routes by which filters reach a source is compared with a naive evaluation of "
             "the documented operator semantics over a list of what was stored; the filesystem source's type/id shortcuts are "
             "covered by complete enumeration of a 24-filter alphabet (all sets up to size 2 quick / 3 thorough = 300 / 2324 sets), "
             "and attached filters are also checked on get/all_versions.  Random filter sets add breadth over operators and property kinds."),
    "note": "trusts the naive evaluator in stixmon/oracles/storemodel.py; semantically unsettled filter/value combinations are skipped (counted in evidence)",
    "technique": "runtime monitoring: naive reference evaluator vs recorded query results; exhaustive enumeration of the optimiser alphabet",
}
