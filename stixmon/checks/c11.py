"""C11 -- memory and filesystem stores agree with a plain list over any history.

Events: history of add calls (object, dict, list, Bundle, bundle dict, JSON text where documented) into a MemoryStore,
a FileSystemStore over a fresh temporary directory and the list model; at quiescent points get / all_versions / query
for every id; then save_to_file -> fresh store load_from_file, and a second FileSystemStore opened on the same directory.
Oracle: stixmon.oracles.storemodel.ListModel (greatest modified *instant* wins; every distinct (id, instant) present with
the content that went in).
"""
import json
import os
import shutil
import tempfile
import warnings

from ..ctx import Workload
from ..gen import custom as gcustom
from ..gen import values as V
from ..gen.objects import ObjGen
from ..oracles import compare, validator
from ..oracles import ts as tsor
from ..oracles.storemodel import ListModel, version_instant

ID = "C11"
LEVEL = "exploration"
SHARDS = {"quick": 4, "thorough": 16}
RULE = ("histories of 20-30 additions: 2-4 ids x 1-4 versions each (instants 1 us / 1 ms / 1 s apart) added in shuffled order, in "
        "every documented input form (object, dict, list, Bundle object, bundle dict, JSON text for the filesystem sink), of "
        "versioned and unversioned types of both spec versions, a registered custom type, and unregistered custom objects kept "
        "as dictionaries whose timestamps use different spellings (...:00Z, ...:00.000Z, ...:00.5Z); identical re-adds; then "
        "get/all_versions/query for every id on both stores, after save/load and after reopening the directory.  "
        "Non-trivial: an id with >= 2 versions; distinct = distinct (store, type kind, number of versions, order pattern, input forms)")
ASSUMPTIONS = [
    "two different contents under one (id, modified) are not generated (the specification leaves consumer behaviour undefined)",
    "an identical re-add may be a no-op or an explicit refusal (DataSourceError), never a change",
    "every generated object is first parsed and re-serialised once; that normal form is what goes in and what must come out",
    "versions are compared as instants, not as strings",
]


def setup(ctx):
    gcustom.ensure_registered()


def norm(x):
    """JSON form of whatever a store hands back."""
    if hasattr(x, "serialize"):
        with warnings.catch_warnings():
            warnings.simplefilter("ignore")
            return json.loads(x.serialize())
    return json.loads(json.dumps(x, default=str))


def make_population(rng, i):
    """list of (json normal form, library object or None if kept as dict)"""
    import stix2
    pop = []
    nids = rng.choice([2, 3, 4])
    kinds = ["sdo21", "sdo20", "custom", "dict", "dict-spellings", "marking", "sco21", "dict-unversioned"]
    for k in range(nids):
        kind = kinds[(i + k) % len(kinds)] if rng.random() < 0.7 else rng.choice(kinds)
        ver = "2.0" if kind == "sdo20" else "2.1"
        g = ObjGen(rng, ver, hostile=(i % 3 == 0), ts_max_digits=6, openvocab_custom=False, year_range=(2000, 2030))
        base_us = V.instant_us(rng, 2005, 2025)
        base_us -= base_us % 1000
        if kind in ("sdo21", "sdo20"):
            t = rng.choice(["identity", "campaign", "malware", "indicator", "relationship", "report"])
            o = g.make(t, "random", granular=False)
            o.pop("revoked", None)
        elif kind == "custom":
            ver = rng.choice(["2.0", "2.1"])
            g = ObjGen(rng, ver, hostile=False, ts_max_digits=6)
            o = gcustom.widget(g)
        elif kind in ("dict", "dict-spellings"):
            o = {"type": "x-unregistered", "id": g.new_id("x-unregistered"), "created": "2000-01-01T00:00:00.000Z", "name": "n%d" % k, "payload": [1, {"a": "b"}]}
            if rng.random() < 0.5:
                o["spec_version"] = "2.1"
        elif kind == "dict-unversioned":
            # same type as the versioned dictionaries, but without `modified`: one type directory then holds a flat file next
            # to per-id version directories
            o = {"type": "x-unregistered", "id": g.new_id("x-unregistered"), "name": "u%d" % k, "payload": []}
            if rng.random() < 0.5:
                o["spec_version"] = "2.1"
        elif kind == "marking":
            o = g.make("marking-definition", "min", granular=False)
            if o.get("definition_type") == "tlp" or "definition" not in o:
                o = {"type": "marking-definition", "spec_version": "2.1", "id": g.new_id("marking-definition"), "created": "2020-01-01T00:00:00.000Z",
                     "definition_type": "statement", "definition": {"statement": "s%d" % k}}
        else:
            o = g.make(rng.choice(["domain-name", "ipv4-addr", "file", "url"]), "random", granular=False)
        if rng.random() < 0.3 and "--" in o["id"] and kind != "marking":
            t0, u0 = o["id"].split("--", 1)
            o["id"] = t0 + "--" + u0.upper()          # upper-case hex digits are legal in identifiers
            ctx_upper = True
        versioned = ("modified" in o or kind in ("dict", "dict-spellings")) and kind != "dict-unversioned"
        nver = rng.choice([1, 2, 3, 4]) if versioned else 1
        deltas = [0]
        for _ in range(nver - 1):
            deltas.append(deltas[-1] + rng.choice([1, 1000, 10 ** 6, 999, 1001] if ver == "2.1" or kind.startswith("dict") else [1000, 10 ** 6, 2000]))
        for vi, d in enumerate(deltas):
            ov = dict(o)
            if versioned:
                us = base_us + d
                if kind == "dict-spellings":
                    # spell the same kind of instants differently: no fraction / .000 / shortest
                    full = tsor.format_us(us, "any")
                    forms = [full]
                    if us % 1000000 == 0:
                        forms += [full[:-1] + ".000Z", full[:-1] + ".0Z"]
                    else:
                        forms += [tsor.format_us(us, "millisecond", "min")] + ([full[:-1] + "0Z"] if len(full.split(".")[1]) < 7 else [])
                    ov["modified"] = rng.choice(forms)
                    others = [f for f in forms if f != ov["modified"]]
                    if others and rng.random() < 0.4:
                        # ... and the same version once more, its modified time spelled another way: still one version
                        respelled = dict(ov, modified=rng.choice(others))
                        if "name" in respelled and vi:
                            respelled["name"] = "%s v%d" % (str(respelled["name"])[:20], vi)
                        elif vi:
                            respelled["description"] = "version %d" % vi
                        pop.append((respelled, None, kind + "/respelled"))
                elif kind == "dict":
                    ov["modified"] = tsor.format_us(us, "millisecond", "min")
                else:
                    ov["modified"] = tsor.format_us(us, "millisecond", "min" if ver == "2.1" else "exact")
                    ov["created"] = tsor.format_us(base_us - 10 ** 6, "millisecond", "min" if ver == "2.1" else "exact")
                if "name" in ov and vi:
                    ov["name"] = "%s v%d" % (str(ov["name"])[:20], vi)
                elif vi:
                    ov["description"] = "version %d" % vi
            try:
                with warnings.catch_warnings():
                    warnings.simplefilter("ignore")
                    obj = stix2.parse(json.dumps(ov), allow_custom=True)
                    if kind == "sdo20" and k % 2 == 0 and o["type"] in ("identity", "campaign", "relationship"):
                        # 2.0-form content which the caller reads as 2.1 by naming the version on every add: what went in is that reading
                        obj21 = stix2.parse(json.dumps(ov), allow_custom=True, version="2.1")
                        j = norm(obj21)
                        RAW_FORMS[(j["id"], j.get("modified"))] = (json.loads(json.dumps(ov)), "2.1")
                        pop.append((j, None, "sdo20-read-as-2.1"))
                        continue
                j = norm(obj)
            except Exception:
                continue
            pop.append((j, None if isinstance(obj, dict) else obj, kind))
    return pop


RAW_FORMS = {}


def add_in_form(store, which, j, obj, form, rng):
    """Add one normal-form object through the chosen input form.  Returns 'added' | 'refused:<Exc>'."""
    import stix2
    bundle_id = "bundle--" + V.uuid_text(rng, 4)
    try:
        with warnings.catch_warnings():
            warnings.simplefilter("ignore")
            raw = RAW_FORMS.get((j["id"], j.get("modified")))
            if raw is not None:
                d, v = json.loads(json.dumps(raw[0])), raw[1]
                store.add([d] if form == "list" else {"type": "bundle", "id": bundle_id, "objects": [d]} if form == "bundle-dict" else
                          json.dumps(d) if form == "json-text" and which == "fs" else d, version=v)
            elif form == "object" and obj is not None:
                store.add(obj)
            elif form == "dict" or (form in ("object", "bundle-object") and obj is None):
                store.add(json.loads(json.dumps(j)))
            elif form == "list":
                store.add([obj if obj is not None and rng.random() < 0.5 else json.loads(json.dumps(j))])
            elif form == "bundle-object":
                b = stix2.v21.Bundle(obj, allow_custom=True) if "spec_version" in j or j["type"] in ("domain-name", "ipv4-addr", "file", "url") else stix2.v20.Bundle(obj, allow_custom=True)
                store.add(b)
            elif form == "bundle-dict":
                b = {"type": "bundle", "id": bundle_id, "objects": [json.loads(json.dumps(j))]}
                if "spec_version" not in j and j["type"] not in ("domain-name", "ipv4-addr", "file", "url"):
                    b["spec_version"] = "2.0"
                store.add(b)
            elif form == "json-text":
                if which == "fs":
                    store.add(json.dumps(j))
                else:
                    store.add(json.loads(json.dumps(j)))
            else:
                store.add(json.loads(json.dumps(j)))
        return "added"
    except Exception as e:
        return "refused:" + type(e).__name__


def add_group(mem, fs, items, form, rng):
    """one add() call carrying several objects; returns (memory result, filesystem result)"""
    import stix2
    out = []
    for which, store in (("mem", mem), ("fs", fs)):
        try:
            with warnings.catch_warnings():
                warnings.simplefilter("ignore")
                if any((j["id"], j.get("modified")) in RAW_FORMS for j, _, _ in items):
                    # (content the caller reads as another version goes in on its own, with the version named)
                    for j, obj, kind in items:
                        r = add_in_form(store, which, j, obj, "dict", rng)
                        if r != "added":
                            raise ValueError(r)
                    out.append("added")
                    continue
                members = [(obj if obj is not None and rng.random() < 0.5 else json.loads(json.dumps(j))) for j, obj, kind in items]
                if form == "multi-list":
                    store.add(members)
                else:
                    v21 = any("spec_version" in j or j["type"] in ("domain-name", "ipv4-addr", "file", "url") for j, _, _ in items)
                    if form == "multi-bundle-object":
                        B = stix2.v21.Bundle if v21 else stix2.v20.Bundle
                        store.add(B(members, allow_custom=True))
                    else:
                        b = {"type": "bundle", "id": "bundle--" + V.uuid_text(rng, 4), "objects": [json.loads(json.dumps(j)) for j, _, _ in items]}
                        if not v21:
                            b["spec_version"] = "2.0"
                        store.add(b)
            out.append("added")
        except Exception as e:
            out.append("refused:" + type(e).__name__)
    return out


def same_content(a, b):
    if compare.generic_equal(a, b):
        return True
    # one version added twice in two spellings of its modified time: either copy is that version
    if isinstance(a, dict) and isinstance(b, dict) and a.get("modified") != b.get("modified") and version_instant(a) == version_instant(b):
        return compare.generic_equal(dict(a, modified=b.get("modified")), b)
    return False


def check_store(ctx, name, store, model, history, case):
    from stix2 import Filter
    for sid in model.ids():
        exp_versions = model.versions(sid)
        exp_latest = model.latest(sid)
        # get
        ctx.ev()
        try:
            with warnings.catch_warnings():
                warnings.simplefilter("ignore")
                got = store.get(sid)
        except Exception as e:
            ctx.violation("store-raised:get", "%s.get raised %s" % (name, type(e).__name__), dict(case, store=name, id=sid, exception=repr(e)))
            got = None
        if got is None:
            ctx.violation("object-lost", "%s.get(%s) found nothing although %d version(s) were added" % (name, sid, len(exp_versions)), dict(case, store=name, id=sid))
        else:
            gj = norm(got)
            if version_instant(gj) != version_instant(exp_latest):
                kept_as_dict = gj.get("type", "").startswith("x-unregistered")
                key = "latest-by-string-compare" if kept_as_dict and isinstance(gj.get("modified"), str) and gj["modified"] == max(v["modified"] for v in exp_versions) else "get-not-latest"
                ctx.violation(key, "%s.get(%s) returned the version modified %s, the greatest modified instant added is %s" % (
                    name, sid, gj.get("modified"), exp_latest.get("modified")),
                    dict(case, store=name, id=sid, returned_modified=gj.get("modified"), all_modified=[v.get("modified") for v in exp_versions]))
            elif not same_content(gj, exp_latest):
                ctx.violation("content-changed", "%s.get(%s) returned content different from what was added" % (name, sid),
                              dict(case, store=name, id=sid, returned=gj, added=exp_latest))
        # all_versions
        ctx.ev()
        try:
            with warnings.catch_warnings():
                warnings.simplefilter("ignore")
                av = [norm(x) for x in store.all_versions(sid)]
        except Exception as e:
            ctx.violation("store-raised:all_versions", "%s.all_versions raised %s" % (name, type(e).__name__), dict(case, store=name, id=sid, exception=repr(e)))
            continue
        got_keys = {version_instant(x) for x in av}
        exp_keys = {version_instant(x) for x in exp_versions}
        if len(av) != len(got_keys):
            ctx.violation("one-version-held-twice", "%s.all_versions(%s) returned %d objects for %d distinct modified instants" % (name, sid, len(av), len(got_keys)),
                          dict(case, store=name, id=sid, returned_modified=[x.get("modified") for x in av]))
        if got_keys != exp_keys:
            missing = [x.get("modified") for x in exp_versions if version_instant(x) not in got_keys]
            extra = [x.get("modified") for x in av if version_instant(x) not in exp_keys]
            ctx.violation("versions-lost" if missing else "versions-invented",
                          "%s.all_versions(%s): missing %s, unexpected %s" % (name, sid, missing, extra),
                          dict(case, store=name, id=sid, missing=missing, extra=extra, added=[x.get("modified") for x in exp_versions]))
        else:
            for x in av:
                e = next(y for y in exp_versions if version_instant(y) == version_instant(x))
                if not same_content(x, e):
                    ctx.violation("content-changed", "%s.all_versions(%s) returned altered content" % (name, sid), dict(case, store=name, returned=x, added=e))
                    break
        if len(exp_versions) >= 2:
            ctx.nontrivial(name, case["kinds"].get(sid), len(exp_versions), case["forms"].get(sid))
    # query: everything, and per type
    ctx.ev()
    try:
        with warnings.catch_warnings():
            warnings.simplefilter("ignore")
            allq = [norm(x) for x in store.query()]
        gotk = {(x["id"], version_instant(x)) for x in allq}
        expk = {(x["id"], version_instant(x)) for x in model.items}
        if gotk != expk:
            ctx.violation("query-all-mismatch", "%s.query() returned %d distinct versions, %d were added" % (name, len(gotk), len(expk)),
                          dict(case, store=name, missing=sorted(str(k) for k in expk - gotk)[:5], extra=sorted(str(k) for k in gotk - expk)[:5]))
        for t in sorted({x["type"] for x in model.items}):
            with warnings.catch_warnings():
                warnings.simplefilter("ignore")
                tq = {(x["id"], version_instant(x)) for x in map(norm, store.query([Filter("type", "=", t)]))}
            te = {(x["id"], version_instant(x)) for x in model.items if x["type"] == t}
            ctx.ev()
            if tq != te:
                ctx.violation("query-type-mismatch", "%s.query(type=%s) disagrees with the list" % (name, t), dict(case, store=name, type=t))
    except Exception as e:
        ctx.violation("store-raised:query", "%s.query raised %s: %s" % (name, type(e).__name__, str(e)[:200]), dict(case, store=name, exception=repr(e)))


def wl_history(ctx, rng, i):
    import stix2
    pop = make_population(rng, i)
    if len(pop) < 2:
        ctx.skip("population too small")
        return
    order = list(range(len(pop)))
    rng.shuffle(order)
    # re-adds of identical objects
    order += [rng.choice(order) for _ in range(rng.choice([0, 1, 2]))]
    tmp = tempfile.mkdtemp(prefix="stixmon-c11-")
    fsdir = os.path.join(tmp, "fs")
    os.makedirs(fsdir)
    try:
        mem = stix2.MemoryStore()
        bundlify = (i % 3 == 1)
        fs = stix2.FileSystemStore(fsdir, allow_custom=True, bundlify=bundlify)
        ctx.see("filesystem options", "bundlify=%s" % bundlify)
        model = ListModel()
        forms_used, kinds = {}, {}
        history = []
        pos = 0
        while pos < len(order):
            # several objects in ONE call (a list or a bundle with 2-4 members, mixed ids and versions)
            def is_new(k):
                j = pop[k][0]
                return not any(x["id"] == j["id"] and version_instant(x) == version_instant(j) for x in model.items)
            width = rng.choice([2, 2, 3, 4])
            if rng.random() < 0.35 and pos + 1 < len(order) and all(is_new(k) for k in order[pos:pos + width]):
                group = order[pos:pos + width]
                pos += len(group)
                # identical objects twice in one call would be the undefined "same id+modified" situation for a bundle: keep distinct
                group = list(dict.fromkeys(group))
                seen_versions, distinct = set(), []
                for k in group:          # (also not the same version in two spellings)
                    vk = (pop[k][0]["id"], version_instant(pop[k][0]))
                    if vk not in seen_versions:
                        seen_versions.add(vk)
                        distinct.append(k)
                group = distinct
                gform = rng.choice(["multi-list", "multi-bundle-dict", "multi-bundle-object"])
                firsts = [model.add(pop[k][0]) for k in group]
                rs = add_group(mem, fs, [pop[k] for k in group], gform, rng)
                for k, first in zip(group, firsts):
                    j, obj, kind = pop[k]
                    history.append({"id": j["id"], "modified": j.get("modified"), "form": gform, "memory": rs[0], "filesystem": rs[1], "first_time": first})
                    forms_used.setdefault(j["id"], []).append(gform)
                    kinds[j["id"]] = kind
                    ctx.count("adds")
                ctx.see("input forms", gform)
                ctx.ev()
                if all(firsts):
                    for nm, r in (("memory", rs[0]), ("filesystem", rs[1])):
                        if r != "added":
                            ctx.violation("first-add-refused:" + nm, "%s store refused a first-time multi-object addition (%s) via %s" % (nm, r, gform),
                                          {"store": nm, "form": gform, "result": r, "history": history})
                continue
            k = order[pos]
            pos += 1
            j, obj, kind = pop[k]
            form = rng.choice(["object", "dict", "list", "bundle-object", "bundle-dict", "json-text"])
            first = model.add(j)
            r1 = add_in_form(mem, "mem", j, obj, form, rng)
            r2 = add_in_form(fs, "fs", j, obj, form, rng)
            history.append({"id": j["id"], "modified": j.get("modified"), "form": form, "memory": r1, "filesystem": r2, "first_time": first})
            forms_used.setdefault(j["id"], []).append(form)
            kinds[j["id"]] = kind
            ctx.see("input forms", form)
            ctx.see("object kinds", kind)
            ctx.ev()
            for nm, r in (("memory", r1), ("filesystem", r2)):
                if r != "added" and first:
                    ctx.violation("first-add-refused:" + nm, "%s store refused a first-time addition (%s) of %s modified %s via %s" % (nm, r, j["id"], j.get("modified"), form),
                                  {"store": nm, "object": j, "form": form, "result": r, "history": history})
            ctx.count("adds")
            if rng.random() < 0.3:
                # a lot that cannot go in: a further version of a stored id, followed by a member no store can keep beside what it
                # holds (the same id without any version information; a version whose modified cannot be ordered).  A store refuses
                # the lot as a whole -- nothing of it stays -- or, if it takes it, answers for everything it took
                cands = [x for x in model.items if "modified" in x and kinds.get(x["id"], "").startswith("dict")]
                if cands:
                    base_j = rng.choice(cands)
                    latest_us = max(tsor.text_us(x["modified"]) for x in model.versions(base_j["id"]))
                    newer = dict(json.loads(json.dumps(base_j)), modified=tsor.format_us(latest_us + 86400 * 10 ** 6, "millisecond", "min"), name="further version in a refused lot")
                    bad = rng.choice([{"type": base_j["type"], "id": base_j["id"], "name": "no version information"},
                                      dict(json.loads(json.dumps(base_j)), modified="the day after", name="modified that cannot be ordered")])
                    for nm, store in (("memory", mem), ("filesystem", fs)):
                        lot = [json.loads(json.dumps(newer)), json.loads(json.dumps(bad))]
                        try:
                            with warnings.catch_warnings():
                                warnings.simplefilter("ignore")
                                store.add(lot if rng.random() < 0.5 else {"type": "bundle", "id": "bundle--" + V.uuid_text(rng, 4), "objects": lot})
                            took = True
                        except Exception:
                            took = False
                        ctx.ev()
                        ctx.count("unstorable_lots")
                        history.append({"id": base_j["id"], "refused_lot_to": nm, "members": [newer.get("modified"), bad.get("modified", "<none>")], "taken": took})
                        if took:
                            ctx.violation("lot-with-unstorable-member-accepted:" + nm, "the %s store took a lot whose second member (%s) it cannot keep beside the versions of %s it holds" % (nm, bad["name"], base_j["id"]),
                                          {"store": nm, "lot": lot, "history": history})
                            return
                    # (nothing of the refused lots is in the list; the reads below and at the end judge the stores against it)
                    check_store(ctx, "MemoryStore", mem, model, history, {"history": list(history), "kinds": dict(kinds), "read": "after a refused lot", "forms": {k_: "+".join(sorted(set(v_))) for k_, v_ in forms_used.items()}})
                    check_store(ctx, "FileSystemStore", fs, model, history, {"history": list(history), "kinds": dict(kinds), "read": "after a refused lot", "forms": {k_: "+".join(sorted(set(v_))) for k_, v_ in forms_used.items()}})
            if rng.random() < 0.25 and pos < len(order):
                # reads between additions: what a store answered (or remembered) earlier must not shape what it answers later
                mid = {"history": list(history), "kinds": dict(kinds), "read": "between additions", "forms": {k_: "+".join(sorted(set(v_))) for k_, v_ in forms_used.items()}}
                check_store(ctx, "MemoryStore", mem, model, history, mid)
                check_store(ctx, "FileSystemStore", fs, model, history, mid)
                ctx.count("mid_history_reads")
        case = {"history": history, "kinds": kinds, "forms": {k: "+".join(sorted(set(v))) for k, v in forms_used.items()}}
        check_store(ctx, "MemoryStore", mem, model, history, case)
        check_store(ctx, "FileSystemStore", fs, model, history, case)
        # save / load
        # (a file name, a file in directories which do not exist yet, or a directory: the store then names the file itself and says where it is)
        pform = rng.choice(["file", "file", "file-in-new-directories", "directory", "new-directory/"])
        path = {"file": os.path.join(tmp, "saved.json"), "file-in-new-directories": os.path.join(tmp, "a", "b", "saved.json"), "directory": tmp,
                "new-directory/": os.path.join(tmp, "newdir") + os.sep}[pform]
        ctx.see("save_to_file path forms", pform)
        ctx.ev()
        try:
            with warnings.catch_warnings():
                warnings.simplefilter("ignore")
                written = mem.save_to_file(path)
                mem2 = stix2.MemoryStore()
                mem2.load_from_file(written if pform != "file" else path)
            check_store(ctx, "MemoryStore(after save/load)", mem2, model, history, case)
            ctx.count("save_load_cycles")
            if len({("spec_version" in x) for x in model.items}) > 1:
                ctx.count("save_load_cycles_of_both_spec_versions")
        except Exception as e:
            # (a store holding objects of both specification versions is saved like any other: the quantifier names both versions
            # and the store accepts them side by side)
            vers = {("spec_version" in x) for x in model.items}
            ctx.violation("save-load-raised" + (":store-of-both-spec-versions" if len(vers) > 1 else ""),
                          "save_to_file/load_from_file raised %s: %s" % (type(e).__name__, str(e)[:200]), dict(case, exception=repr(e)))
        # loading a file into a store which is not empty: what it held and what the file holds are both there afterwards, also
        # when they are versions of the same id
        if len(model.items) >= 2:
            ctx.ev()
            try:
                with warnings.catch_warnings():
                    warnings.simplefilter("ignore")
                    held, filed = stix2.MemoryStore(), stix2.MemoryStore()
                    for k_, j in enumerate(model.items):
                        (held if k_ % 2 == 0 else filed).add(json.loads(json.dumps(j)))
                    p2 = filed.save_to_file(os.path.join(tmp, "half.json"))
                    (held if i % 2 == 0 else held.source).load_from_file(p2)
                check_store(ctx, "MemoryStore(load into a non-empty store)", held, model, history, case)
                ctx.count("loads_into_non_empty_store")
            except Exception as e:
                vers = {("spec_version" in x) for x in model.items[1::2]}
                ctx.violation("save-load-raised" + (":store-of-both-spec-versions" if len(vers) > 1 else ""),
                              "loading a saved file into a non-empty store raised %s: %s" % (type(e).__name__, str(e)[:200]), dict(case, exception=repr(e)))
        # reopen the directory
        fs2 = stix2.FileSystemStore(fsdir, allow_custom=True)
        check_store(ctx, "FileSystemStore(reopened)", fs2, model, history, case)
        ctx.count("histories")
        if ctx.want_sample() and any(len(model.versions(s)) > 2 for s in model.ids()):
            ctx.sample({"history": history[:12], "ids": len(model.ids())})
    finally:
        shutil.rmtree(tmp, ignore_errors=True)


ODD_IDS = [
    ("other-type-prefix", lambda t, u: "x-other--" + u), ("no-separator", lambda t, u: t + "-" + u), ("type-then-junk", lambda t, u: t + "--not-a-uuid"),
    ("type-then-nothing", lambda t, u: t + "--"), ("longer-type-prefix", lambda t, u: t + "-more--" + u), ("uuid-with-tail", lambda t, u: t + "--" + u + "-1"),
    ("bare-uuid", lambda t, u: u), ("uppercase-uuid", lambda t, u: t + "--" + u.upper()), ("plain", lambda t, u: t + "--" + u),
]
ENCODINGS = ["utf-8", "latin-1", "utf-16", "utf-8", "cp1252", "utf-32"]
NAMES = ["Zo\u00eb", "plain", "\u00e9\u00e8 \u00fc", "\u03a9mega", "caf\u00e9 \U0001f600", "\u00ff\u00fe"]


def wl_odd(ctx, rng, i):
    """What a store accepts it must give back: dictionaries whose id is not <their type>--<UUID> (nothing obliges a store to take
    them, but one that takes them without complaint must find them again), and filesystem stores opened with another encoding."""
    import stix2
    from stix2.datastore import Filter
    tmp = tempfile.mkdtemp(prefix="stixmon-c11-")
    try:
        fam = "odd-id" if i % 2 == 0 else "encoding"
        u = V.uuid_text(rng, 4)
        if fam == "odd-id":
            lab, mk = ODD_IDS[(i // 2) % len(ODD_IDS)]
            t = "x-unregistered"
            o = {"type": t, "id": mk(t, u), "name": "n", "payload": [1, {"a": "b"}]}
            if (i // 2 // len(ODD_IDS)) % 2 == 0:
                o["created"] = "2000-01-01T00:00:00.000Z"
                o["modified"] = "2001-01-01T00:00:00.000Z"
            if rng.random() < 0.5:
                o["spec_version"] = "2.1"
            enc = "utf-8"
            stores = [("MemoryStore", stix2.MemoryStore(allow_custom=True)), ("FileSystemStore", stix2.FileSystemStore(tmp, allow_custom=True, bundlify=rng.random() < 0.3))]
            ctx.see("odd id kinds", lab + ("/versioned" if "modified" in o else "/unversioned"))
        else:
            enc = ENCODINGS[(i // 2) % len(ENCODINGS)]
            lab = "encoding:" + enc
            kind = (i // 2 // len(ENCODINGS)) % 3
            name = NAMES[(i // 2 // len(ENCODINGS) // 3) % len(NAMES)] if rng.random() < 0.7 else rng.choice(NAMES)
            if kind == 0:
                o = {"type": "identity", "spec_version": "2.1", "id": "identity--" + u, "created": "2020-01-01T00:00:00.000Z", "modified": "2020-01-01T00:00:00.000Z",
                     "name": name, "identity_class": "individual"}
            elif kind == 1:
                o = {"type": "x-unregistered", "id": "x-unregistered--" + u, "name": name, "payload": [name]}
            else:
                o = {"type": "url", "spec_version": "2.1", "id": "url--" + u, "value": "http://example.com/" + name}
            stores = [("FileSystemStore(encoding=%s)" % enc, stix2.FileSystemStore(tmp, allow_custom=True, bundlify=rng.random() < 0.3, encoding=enc))]
            ctx.see("encodings", enc)
        for sname, store in stores:
            form = rng.choice(["dict", "list", "bundle-dict"] + (["object"] if fam == "encoding" and o["type"] != "x-unregistered" else []))
            try:
                with warnings.catch_warnings():
                    warnings.simplefilter("ignore")
                    d = json.loads(json.dumps(o))
                    store.add(stix2.parse(d, allow_custom=True) if form == "object" else [d] if form == "list" else
                              {"type": "bundle", "id": "bundle--" + V.uuid_text(rng, 4), "objects": [d]} if form == "bundle-dict" else d)
            except (ValueError, TypeError, stix2.exceptions.STIXError, stix2.datastore.DataSourceError) as e:
                # an open refusal loses nothing silently (C17 judges the families of errors)
                ctx.count("odd_adds_refused_openly")
                ctx.see("odd refusals", "%s:%s:%s" % (sname.split("(")[0], lab, type(e).__name__))
                continue
            except Exception as e:
                ctx.violation("store-raised:add:" + fam, "%s.add raised %s: %s" % (sname, type(e).__name__, str(e)[:160]), {"store": sname, "object": o, "form": form})
                continue
            ctx.count("odd_adds_accepted")
            ctx.ev()
            want = json.loads(json.dumps(o))
            readers = [(sname, store)]
            if sname.startswith("FileSystemStore"):
                readers.append((sname + " reopened", stix2.FileSystemStore(tmp, allow_custom=True, encoding=enc)))
            for rname, rd in readers:
                for how, fn in (("get", lambda: [rd.get(o["id"])]), ("all_versions", lambda: rd.all_versions(o["id"])),
                                ("query(type)", lambda: rd.query([Filter("type", "=", o["type"])])), ("query(id)", lambda: rd.query([Filter("id", "=", o["id"])]))):
                    try:
                        with warnings.catch_warnings():
                            warnings.simplefilter("ignore")
                            got = [norm(x) for x in (fn() or []) if x is not None]
                    except Exception as e:
                        ctx.violation("accepted-object-not-given-back:%s:raised" % fam, "%s took %s (%s) without complaint; %s then raised %s: %s" % (sname, o["id"], lab, how, type(e).__name__, str(e)[:120]),
                                      {"store": rname, "object": o, "form": form, "how": how, "kind": lab})
                        continue
                    ctx.ev()
                    ctx.count("odd_lookups")
                    same = [g for g in got if g.get("id") == o["id"]]
                    if not same:
                        ctx.violation("accepted-object-not-given-back:" + fam, "%s took %s (%s) without complaint; %s does not return it" % (sname, o["id"], lab, how),
                                      {"store": rname, "object": o, "form": form, "how": how, "kind": lab, "got": got[:3]})
                    elif any({k: g.get(k) for k in want} != want for g in same):
                        ctx.violation("content-changed-in-store:" + fam, "%s gives back %s (%s) with other content via %s" % (rname, o["id"], lab, how),
                                      {"store": rname, "object": o, "form": form, "how": how, "kind": lab, "got": same[:2]})
            ctx.nontrivial("odd", sname.split("(")[0], lab, form, "modified" in o, o["type"])
        # what went in stays what it was: the caller goes on using (and changing) the dictionary it handed over
        if fam == "odd-id" and lab == "plain":
            for sname, store in (("MemoryStore", stix2.MemoryStore(allow_custom=True)), ("MemorySink+MemorySource", None),
                                 ("FileSystemStore", stix2.FileSystemStore(tempfile.mkdtemp(dir=tmp), allow_custom=True))):
                mine = json.loads(json.dumps(o))
                went_in = json.loads(json.dumps(o))
                form = rng.choice(["dict", "list", "bundle-dict"])
                if store is None:
                    store = stix2.MemoryStore(allow_custom=True)
                try:
                    with warnings.catch_warnings():
                        warnings.simplefilter("ignore")
                        store.add(mine if form == "dict" else [mine] if form == "list" else {"type": "bundle", "id": "bundle--" + V.uuid_text(rng, 4), "objects": [mine]})
                except Exception:
                    continue
                mine["name"] = "changed by the caller afterwards"
                mine["payload"].append("appended afterwards")
                if "modified" in mine:
                    mine["modified"] = "2031-01-01T00:00:00.000Z"
                ctx.ev()
                ctx.count("callers_dictionary_changed_after_add")
                try:
                    got = [norm(x) for x in [store.get(o["id"])] + list(store.all_versions(o["id"])) + list(store.query([Filter("id", "=", o["id"])])) if x is not None]
                except Exception as e:
                    got = [{"raised": repr(e)[:200]}]
                if not got or any({k: g.get(k) for k in went_in} != went_in for g in got):
                    ctx.violation("stored-content-follows-callers-dictionary", "%s: after the caller changed the dictionary it had added (%s), the store answers with other content than went in" % (sname, form),
                                  {"store": sname, "form": form, "went_in": went_in, "got": got[:3]})
    finally:
        shutil.rmtree(tmp, ignore_errors=True)


WORKLOADS = [
    Workload("history", wl_history, quick=600, thorough=40000),
    Workload("odd-ids-and-encodings", wl_odd, quick=216, thorough=4320),
]


def floors(m, tier):
    c = m["counters"]
    out = []
    if c.get("histories", 0) < 50:
        out.append("fewer than 50 histories completed")
    if c.get("save_load_cycles_of_both_spec_versions", 0) < 10:
        out.append("fewer than 10 save/load cycles of a store holding both specification versions")
    if c.get("save_load_cycles", 0) < 20:
        out.append("fewer than 20 save/load cycles")
    for f in ("object", "dict", "list", "bundle-object", "bundle-dict", "json-text", "multi-list", "multi-bundle-dict", "multi-bundle-object"):
        if f not in m["seen"].get("input forms", set()):
            out.append("input form %s never used" % f)
    for k in ("sdo21", "sdo20", "custom", "dict", "dict-spellings", "marking", "sco21"):
        if k not in m["seen"].get("object kinds", set()):
            out.append("object kind %s never stored" % k)
    if c.get("odd_lookups", 0) < 100:
        out.append("fewer than 100 lookups of objects with unusual ids / in stores with another encoding")
    return out[:6]


MANIFEST = {
    "text": ("Random addition histories (several versions per id in shuffled order, all documented input forms, versioned / "
             "unversioned / custom / dictionary-kept objects of both versions, identical re-adds) are applied to a MemoryStore, a "
             "FileSystemStore on a temporary directory and a plain list; afterwards get, all_versions and query are compared with "
             "the list for every id on both stores, again after save_to_file/load_from_file and after reopening the directory.  "
             "Versions are compared as instants so that spelling differences cannot hide a wrong 'latest'."),
    "note": "normal forms are produced with the library's own parse/serialize (whose correctness is C01/C03's subject); conflicting contents under one (id, modified) excluded",
    "technique": "runtime monitoring: list reference model checked against recorded store histories at quiescent points",
}
