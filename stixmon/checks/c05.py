"""C05 -- new versions are strictly newer, identity-preserving and exact.

Events: histories o0 -op1-> o1 -op2-> ... with ops new_version(**changes), new_version(modified=...), revoke(),
object-level marking operations, on objects and on plain dicts (stix2.versioning); before each op the harness
sets the clock (get_timestamp replaced from outside; a counter proves the fake was consulted).
Oracle: offline checker over the recorded chain (identity, exact diff, original untouched, strictly increasing
modified as datetime and as the instant parsed back from the serialised text, refusals).
"""
import collections
import copy
import json
import warnings

from ..clock import FakeClock
from ..ctx import Workload
from ..gen import custom as gcustom
from ..gen import values as V
from ..gen.objects import ObjGen
from ..oracles import compare, validator
from ..oracles import ts as tsor
from ..spec import model as M

ID = "C05"
LEVEL = "exploration"
SHARDS = {"quick": 4, "thorough": 16}
RULE = ("histories of 8-12 versioning operations on every versionable type of both versions (+ a registered custom type and "
        "unregistered dicts), object and dict form, with an adversarial clock: before each step 'now' is set to the previous "
        "modified time plus one of {-1 day, -1 us, 0, +1 us, +499 us, +999 us, +1 ms, +1 ms+1 us, +1 s}; change sets over scalar, "
        "list, nested, custom properties and removals; explicit modified values earlier/equal/sub-precision-later/later; refusal "
        "probes (unmodifiable properties, revoked objects, locked SCO properties).  Non-trivial: every step; "
        "distinct = distinct (version, form, type, operation, clock relation, outcome)")
ASSUMPTIONS = [
    "the clock is read through get_timestamp (named by the property); the monitor is inconclusive if its fake is never consulted",
    "a refusal is any exception of the library's error family; which subclass is raised is not judged",
    "timestamps are compared as instants (integer codec), never as strings",
]
DELTAS = {"-1day": -86400 * 10 ** 6, "-1us": -1, "equal": 0, "+1us": 1, "+499us": 499, "+999us": 999, "+1ms": 1000, "+1ms+1us": 1001, "+1s": 10 ** 6}
UNMOD = ["type", "id", "created", "created_by_ref"]


def family():
    from stix2.exceptions import STIXError
    return (STIXError, ValueError, TypeError)


def to_json(x):
    """JSON form of an object or of a dict that may hold datetimes."""
    import stix2.serialization
    with warnings.catch_warnings():
        warnings.simplefilter("ignore")
        if hasattr(x, "serialize"):
            return json.loads(x.serialize())
        return json.loads(stix2.serialization.serialize(x))


def setup(ctx):
    gcustom.ensure_registered()
    clk = FakeClock()
    n = clk.install()
    ctx.state["clock"] = clk
    ctx.count("clock_bindings_replaced", n)


def teardown(ctx):
    ctx.count("clock_consultations", ctx.state["clock"].calls)
    ctx.state["clock"].uninstall()


def subjects():
    out = []
    for ver in ("2.0", "2.1"):
        m = M.model(ver)
        for t in sorted(m.types):
            if m.versionable(t) and m.types[t]["cat"] != "sco":
                out.append((ver, t))
        out.append((ver, "x-stixmon-widget"))
        out.append((ver, "x-unregistered-type"))
    return out


SUBJECTS = subjects()


def make_base(rng, ver, t):
    g = ObjGen(rng, ver, hostile=False, ts_max_digits=6, openvocab_custom=False, year_range=(2000, 2030))
    if t == "x-stixmon-widget":
        return gcustom.widget(g)
    if t == "x-unregistered-type":
        o = {"type": t, "id": g.new_id(t), "created": "2020-01-01T00:00:00.000Z", "modified": "2020-01-01T00:00:00.000Z", "name": "n", "tags": ["a", "b"]}
        if ver == "2.1":
            o["spec_version"] = "2.1"
        return o
    o = g.make(t, "random", granular=False)
    return o


def change_set(rng, ver, t, cur_json, form):
    """(changes as python kwargs, expected JSON effect {key: value or None})"""
    m = M.model(ver)
    ch, eff = {}, {}
    tbl = m.types.get(t)
    cands = []
    if tbl:
        for p in tbl["props"]:
            if p["name"] in UNMOD + ["modified", "revoked", "spec_version", "granular_markings", "extensions", "object_marking_refs"]:
                continue
            if p["k"] == "string" and p["name"] in ("name", "description", "objective", "abstract", "content", "explanation", "contact_information", "tool_version"):
                cands.append((p["name"], "string", p["required"]))
            elif p["k"] == "list" and p["of"]["k"] == "string":
                cands.append((p["name"], "strlist", p["required"]))
            elif p["k"] == "int" and p["name"] == "confidence":
                cands.append((p["name"], "confidence", p["required"]))
            elif p["k"] == "list" and p["of"]["k"] == "embedded" and p["of"]["type"] == "ExternalReference":
                cands.append((p["name"], "extrefs", p["required"]))
    else:
        cands = [("name", "string", True), ("tags", "strlist", False), ("size", "int", False)]
    constrained = set()
    if tbl:
        for c in tbl["constraints"]:
            for part in c[1:]:
                constrained.update(part if isinstance(part, list) else [part])
        if t == "malware":
            constrained.add("name")
    rng.shuffle(cands)
    for name, kind, required in cands[:rng.choice([1, 1, 2, 3])]:
        if not required and name not in constrained and name in cur_json and rng.random() < 0.3:
            ch[name] = None
            eff[name] = None
        elif kind == "string":
            ch[name] = eff[name] = "changed %d" % rng.randrange(10 ** 6)
        elif kind == "strlist":
            ch[name] = eff[name] = ["v%d" % rng.randrange(100) for _ in range(rng.choice([1, 2, 3]))]
        elif kind == "confidence":
            ch[name] = eff[name] = rng.randrange(0, 101)
        elif kind == "int":
            ch[name] = eff[name] = rng.randrange(0, 1000)
        elif kind == "extrefs":
            ch[name] = eff[name] = [{"source_name": "s%d" % rng.randrange(100), "external_id": "e"}]
    if rng.random() < 0.25 and (t not in ("x-unregistered-type",) or form == "dict"):
        k = "x_custom_%d" % rng.randrange(3)
        if k in cur_json and rng.random() < 0.4:
            ch[k] = None
            eff[k] = None
        else:
            ch[k] = eff[k] = rng.choice(["c", 5, ["l", 1], {"n": "v"}])
    return ch, eff


def judge_step(ctx, label, prev_j, new_j, eff, ver, relation, extra=None):
    """The step oracle shared with C07: identity kept, exact diff, strictly newer."""
    w = {"operation": label, "clock_relation": relation, "previous": prev_j, "new": new_j, "requested_effect": eff}
    if extra:
        w.update(extra)
    bad = False
    for k in UNMOD:
        if prev_j.get(k) != new_j.get(k):
            ctx.violation("identity-changed:" + k, "%s changed %s" % (label, k), w)
            bad = True
    for k in set(prev_j) | set(new_j) | set(eff):
        if k == "modified":
            continue
        if k in eff:
            want = eff[k]
            if want is None:
                if k in new_j:
                    ctx.violation("change-not-applied:removal", "%s: %s=None did not remove the property" % (label, k), w)
                    bad = True
            elif k not in new_j or not compare.generic_equal(new_j[k], want):
                ctx.violation("change-not-applied", "%s: %s is %r, requested %r" % (label, k, new_j.get(k), want), w)
                bad = True
        elif k == "revoked" and new_j.get(k, False) == prev_j.get(k, False):
            continue
        elif (k in prev_j) != (k in new_j) or not compare.generic_equal(prev_j.get(k), new_j.get(k)):
            ctx.violation("unrequested-change", "%s: property %s changed from %r to %r without being requested" % (label, k, prev_j.get(k), new_j.get(k)), w)
            bad = True
    pm, nm = tsor.text_instant(prev_j.get("modified") or prev_j.get("created")), tsor.text_instant(new_j.get("modified"))
    if nm is None:
        ctx.violation("modified-not-canonical", "%s: new modified %r is not a canonical timestamp" % (label, new_j.get("modified")), w)
        return False
    if ver == "2.0" and pm is not None:
        # "still strictly later after serialization at the spec version's timestamp precision" (milliseconds in 2.0):
        # a dict has no class to truncate it yet, so compare what the 2.0 serialisation will keep
        pm = (pm[0], pm[1] - pm[1] % 10 ** 21)
        nm = (nm[0], nm[1] - nm[1] % 10 ** 21)
    if pm is not None and not nm > pm:
        ctx.violation("modified-not-strictly-later", "%s (%s, clock %s): serialised modified %s is not later than %s" % (
            label, ver, relation, new_j.get("modified"), prev_j.get("modified")), w)
        bad = True
    # (a modified the library made up carries the property's precision whatever holds it; one the caller gave to a dictionary is the caller's)
    if ((extra or {}).get("form") == "object" or (extra or {}).get("generated_modified")) and not tsor.digits_ok(new_j["modified"], "millisecond", "exact" if ver == "2.0" else "min"):
        ctx.violation("modified-precision", "%s: modified %s does not have the %s precision form" % (label, new_j["modified"], ver), w)
        bad = True
    return not bad


def wl_history(ctx, rng, i):
    import stix2
    import stix2.versioning
    clk = ctx.state["clock"]
    ver, t = SUBJECTS[i % len(SUBJECTS)]
    form = "dict" if (i // len(SUBJECTS)) % 2 == 1 or t == "x-unregistered-type" else "object"
    base = make_base(rng, ver, t)
    if t in M.model(ver).types and validator.validate(base, ver):
        ctx.skip("generator error")
        return
    clk.set(tsor.text_us(base["modified"]) + 5 * 10 ** 6)
    try:
        with warnings.catch_warnings():
            warnings.simplefilter("ignore")
            cur = stix2.parse(json.dumps(base), allow_custom=True) if form == "object" else dict(base)
        if form == "object" and isinstance(cur, dict):
            form = "dict"
        if form == "object" and t in M.model(ver).types and rng.random() < 0.3:
            # the same object built by its constructor from Python-native values: datetimes in assorted offsets, naive ones, the
            # library's own timestamp class carrying whatever precision metadata (also the slot's own) with or without a zone
            try:
                from ..gen import native as _native
                with warnings.catch_warnings():
                    warnings.simplefilter("ignore")
                    built = type(cur)(allow_custom=True, **_native.to_native(ver, base, rng, foreign_meta=True))
                if json.loads(built.serialize()) == json.loads(cur.serialize()):
                    cur = built
                    ctx.count("subjects_built_from_native_values")
                else:
                    ctx.skip("constructor route gives a different object (C01's subject)")
            except Exception as e:
                ctx.skip("constructor route refused (%s)" % type(e).__name__)
        if form == "dict":
            # "any versionable ... dictionary": also the dictionary classes of the standard library, and content of a later
            # spec version than the library knows (whatever its rules are, a new version is never earlier than the old one)
            mk = rng.choice(["dict", "dict", "OrderedDict", "defaultdict", "dict(object)"])
            if mk == "dict(object)":
                # the dictionary view of a library object: its values are the library's own timestamp objects, embedded objects, lists
                try:
                    with warnings.catch_warnings():
                        warnings.simplefilter("ignore")
                        asobj = stix2.parse(json.dumps(base), allow_custom=True)
                    if not isinstance(asobj, dict):
                        cur = dict(asobj)
                    else:
                        mk = "dict"
                except Exception:
                    mk = "dict"
            if mk == "OrderedDict":
                cur = collections.OrderedDict(cur)
            elif mk == "defaultdict":
                cur = collections.defaultdict(list, cur)
            if t == "x-unregistered-type" and ver == "2.1" and rng.random() < 0.3:
                cur["spec_version"] = "2.2"
                cur["revoked"] = False
                mk += "/spec_version-2.2"
            ctx.see("dictionary kinds", mk)
    except Exception as e:
        ctx.skip("base refused (%s)" % type(e).__name__)
        return
    if i % 3 == 0:
        # history: a 2.1 observable with a deterministic id (and the versioning properties as custom content) was versioned
        # earlier in this process; nothing of its locked-property list may stick to later subjects
        try:
            with warnings.catch_warnings():
                warnings.simplefilter("ignore")
                sco = json.loads(stix2.parse({"type": "file", "spec_version": "2.1", "name": "prelude-%d.exe" % i, "hashes": {"MD5": "d41d8cd98f00b204e9800998ecf8427e"}}).serialize())
                sco.update({"created": "2020-01-01T00:00:00.000Z", "modified": "2020-01-01T00:00:00.000Z", "revoked": False})
                stix2.versioning.new_version(sco, size=7)
            ctx.count("sco_preludes")
        except Exception:
            ctx.count("sco_prelude_failed")
    chain = [to_json(cur)]
    nsteps = 8 if ctx.tier == "quick" else 12
    rels = list(DELTAS)
    for step in range(nsteps):
        prev = cur
        prev_j = chain[-1]
        prev_text = json.dumps(prev_j, sort_keys=True)
        prev_us = tsor.text_us(prev_j["modified"])
        rel = rels[(i + step * 3) % len(rels)] if step < len(rels) else rng.choice(rels)
        clk.set(prev_us + DELTAS[rel])
        calls0 = clk.calls
        opk = rng.random()
        revoked_now = bool(prev_j.get("revoked"))
        ctx.ev()
        try:
            with warnings.catch_warnings():
                warnings.simplefilter("ignore")
                if revoked_now:
                    # revoked objects can be neither versioned nor revoked again
                    for lab, fn in (("new_version-after-revoke", lambda: stix2.versioning.new_version(prev, name="x") if form == "dict" else prev.new_version(name="x")),
                                    ("revoke-after-revoke", lambda: stix2.versioning.revoke(prev) if form == "dict" else prev.revoke())):
                        try:
                            r = fn()
                            ctx.violation("revoked-object-versioned", "%s returned instead of refusing" % lab, {"operation": lab, "object": prev_j})
                        except family():
                            ctx.count("refusals_observed")
                    # ... nor is the revoked content when it arrives as a dictionary lacking one of the other versioning properties
                    # (the library then looks the type up instead of trusting the dictionary: revoked it stays)
                    for missing in ("modified", "created"):
                        part = {k: v for k, v in copy.deepcopy(prev_j).items() if k != missing}
                        for lab, fn in (("new_version-after-revoke(dictionary without %s)" % missing, lambda: stix2.versioning.new_version(part, name="x")),
                                        ("revoke-after-revoke(dictionary without %s)" % missing, lambda: stix2.versioning.revoke(part))):
                            try:
                                r = fn()
                                ctx.violation("revoked-object-versioned", "%s returned instead of refusing" % lab, {"operation": lab, "object": part})
                            except family():
                                ctx.count("refusals_observed")
                                ctx.count("partial_revoked_dictionaries_refused")
                    ctx.see("operations", "after-revoke-probes")
                    break
                if opk < 0.55:
                    ch, eff = change_set(rng, ver, t, prev_j, form)
                    label = "new_version(%s)" % ", ".join(sorted(ch))
                    kw = copy.deepcopy(ch)
                    if any(k.startswith("x_") for k in kw):
                        kw["allow_custom"] = True      # documented way to admit custom content in a new version
                        if form == "object" and rng.random() < 0.4:
                            # the same changes by way of the custom_properties argument (also for names the object holds already)
                            kw["custom_properties"] = {k: kw.pop(k) for k in list(kw) if k.startswith("x_")}
                            label += " via custom_properties"
                            ctx.see("operations", "new_version:custom_properties-route")
                    new = stix2.versioning.new_version(prev, **kw) if form == "dict" else prev.new_version(**kw)
                    opname = "new_version"
                elif opk < 0.75:
                    # explicit modified
                    unit = 1000 if ver == "2.0" else 1
                    kind = rng.choice(["earlier", "equal", "sub-precision-later", "later-1unit", "later"])
                    d = {"earlier": -10 ** 6, "equal": 0, "sub-precision-later": (unit - 1) if unit > 1 else 0, "later-1unit": unit, "later": rng.randrange(unit, 10 ** 9)}[kind]
                    sup_us = (prev_us - prev_us % unit) + d
                    sup = tsor.format_us(sup_us, "any")
                    label = "new_version(modified=%s)" % kind
                    opname = "new_version(modified)"
                    expect_refusal = kind in ("earlier", "equal", "sub-precision-later")
                    shape = rng.choice(["text", "stixdatetime-any", "stixdatetime-from-2.1-object", "datetime-with-offset"] + (["arithmetic-on-own-timestamp"] * 2 if form == "object" else []))
                    if shape == "text":
                        supplied = sup
                    elif shape == "arithmetic-on-own-timestamp":
                        # what a caller computes from the object's own value: whatever class and metadata the library's arithmetic gives it
                        import datetime as _dt
                        own = prev["modified"]
                        supplied = own + _dt.timedelta(microseconds=sup_us - tsor.datetime_us(own))
                        if rng.random() < 0.3:
                            supplied = _dt.timedelta(microseconds=sup_us - tsor.datetime_us(own)) + own
                    elif shape == "stixdatetime-any":
                        supplied = stix2.utils.parse_into_datetime(sup)
                    elif shape == "stixdatetime-from-2.1-object":
                        # the library's own timestamp object, as found on a 2.1 object (millisecond / at-least metadata, all digits kept)
                        supplied = stix2.utils.parse_into_datetime(sup, precision="millisecond", precision_constraint="min")
                    else:
                        import datetime as _dt
                        supplied = (_dt.datetime(1, 1, 1, tzinfo=_dt.timezone.utc) + _dt.timedelta(microseconds=sup_us)).astimezone(
                            _dt.timezone(_dt.timedelta(minutes=rng.choice([-330, 60, 345, 0]))))
                    via = "custom_properties" if rng.random() < 0.25 else "keyword"
                    ctx.see("explicit modified shapes", shape + "/" + via)
                    try:
                        if via == "custom_properties":
                            # a change is a change, whichever argument carries it
                            label += " via custom_properties"
                            new = stix2.versioning.new_version(prev, custom_properties={"modified": supplied}) if form == "dict" \
                                else prev.new_version(custom_properties={"modified": supplied})
                        else:
                            new = stix2.versioning.new_version(prev, modified=supplied) if form == "dict" else prev.new_version(modified=supplied)
                    except family():
                        ctx.count("refusals_observed")
                        ctx.see("operations", opname + ":" + kind + ":refused")
                        ctx.nontrivial(ver, form, t, opname, kind, "refused")
                        if not expect_refusal:
                            ctx.violation("later-modified-refused", "a strictly later explicit modified (%s after %s) was refused" % (sup, prev_j["modified"]),
                                          {"previous": prev_j, "supplied_modified": sup, "kind": kind})
                        continue
                    if expect_refusal:
                        ctx.violation("explicit-modified-not-later-accepted", "explicit modified %s (%s) accepted over %s (%s)" % (sup, kind, prev_j["modified"], ver),
                                      {"previous": prev_j, "supplied_modified": sup, "kind": kind, "new": to_json(new)})
                        continue
                    eff = {}
                    nj = to_json(new)
                    want_us = sup_us - sup_us % unit
                    if tsor.text_us(nj.get("modified", "")) not in ((want_us,) if form == "object" else (want_us, sup_us)):
                        ctx.violation("explicit-modified-not-used-exactly", "supplied %s, new object has %s" % (sup, nj.get("modified")),
                                      {"previous": prev_j, "supplied_modified": sup, "new": nj})
                elif opk < 0.85 and t != "x-unregistered-type":
                    mk = "marking-definition--" + V.uuid_text(rng, 4)
                    label = "add_markings(object-level)"
                    opname = "add_markings"
                    new = stix2.markings.add_markings(prev, mk, None)
                    eff = {"object_marking_refs": None}  # judged below as set equality
                elif opk < 0.93:
                    label = "revoke()"
                    opname = "revoke"
                    new = stix2.versioning.revoke(prev) if form == "dict" else prev.revoke()
                    eff = {"revoked": True}
                else:
                    # refusal probes: unmodifiable properties
                    k = rng.choice(UNMOD)
                    val = {"type": "tool", "id": "%s--%s" % (prev_j["type"], V.uuid_text(rng)), "created": "2001-01-01T00:00:00.000Z",
                           "created_by_ref": "identity--" + V.uuid_text(rng)}[k]
                    how = rng.choice(["other-value", "other-value", "none", "same-value", "falsy"])
                    if how == "none":
                        val = None                      # "None removes the property" must not be a way around the rule
                    elif how == "falsy":
                        val = ""
                    elif how == "same-value" and k in prev_j:
                        val = prev_j[k]
                    label = "new_version(%s=<%s>)" % (k, how)
                    via_cp = form == "object" and how == "other-value" and rng.random() < 0.4
                    if via_cp:
                        # the same attempt by way of the custom_properties argument (also for a property the object lacks so far)
                        label = "new_version(custom_properties={%s: <%s>})" % (k, how)
                        ctx.see("operations", "unmodifiable-probe-via-custom_properties:%s:%s" % (k, "present" if k in prev_j else "absent"))
                    try:
                        if via_cp:
                            r = prev.new_version(custom_properties={k: val})
                        else:
                            r = stix2.versioning.new_version(prev, **{k: val}) if form == "dict" else prev.new_version(**{k: val})
                        rj = to_json(r)
                        if (how == "same-value" or via_cp) and all(rj.get(x) == prev_j.get(x) for x in UNMOD):
                            ctx.skip("re-stating an unmodifiable property with its current value was accepted (not a change)")
                        else:
                            ctx.violation("unmodifiable-property-changed", "%s was accepted" % label, {"previous": prev_j, "attempt": {k: val}, "result": rj})
                    except family():
                        ctx.count("refusals_observed")
                    ctx.see("operations", "unmodifiable-probe:%s:%s" % (k, how))
                    continue
        except family() as e:
            ctx.violation("legal-operation-refused", "%s on a %s %s (%s, clock %s) raised %s: %s" % (label, ver, t, form, rel, type(e).__name__, str(e)[:160]),
                          {"operation": label, "previous": prev_j, "clock_relation": rel, "exception": type(e).__name__, "message": str(e)[:400]})
            continue
        new_j = to_json(new)
        if opname == "add_markings":
            want = set(prev_j.get("object_marking_refs", [])) | {mk}
            if set(new_j.get("object_marking_refs", [])) != want:
                ctx.violation("change-not-applied", "add_markings result has %r" % (new_j.get("object_marking_refs"),), {"previous": prev_j, "new": new_j})
            eff = {"object_marking_refs": new_j.get("object_marking_refs")}
        ok = judge_step(ctx, label, prev_j, new_j, eff, ver, rel, {"form": form, "type": t, "generated_modified": opname in ("new_version", "revoke", "add_markings")})
        # datetime-level ordering for objects
        if form == "object" and hasattr(new, "get") and "modified" in prev and not new["modified"] > prev["modified"]:
            ctx.violation("modified-not-strictly-later", "%s: new.modified <= old.modified as datetimes" % label, {"previous": prev_j, "new": new_j})
        # original untouched
        after_text = json.dumps(to_json(prev), sort_keys=True)
        if after_text != prev_text:
            ctx.violation("original-modified-by-versioning", "%s changed the original object" % label, {"before": json.loads(prev_text), "after": json.loads(after_text)})
        if opname in ("new_version", "revoke", "add_markings") and clk.calls == calls0:
            ctx.count("steps_without_clock_consultation")
        ctx.count("steps")
        ctx.count("clock:%s:%s:%s" % (ver, form, rel))
        ctx.see("operations", opname)
        ctx.nontrivial(ver, form, t, opname, rel, "ok" if ok else "bad")
        chain.append(new_j)
        cur = new
    # chain-level check: serialised modified strictly increasing along the chain
    ctx.ev()
    mods = [tsor.text_instant(j["modified"]) for j in chain]
    if any(b <= a for a, b in zip(mods, mods[1:])):
        ctx.violation("chain-not-strictly-increasing", "modified times along the version chain do not strictly increase",
                      {"modified_chain": [j["modified"] for j in chain]})
    if ctx.want_sample() and len(chain) > 3:
        ctx.sample({"version": ver, "type": t, "form": form, "modified_chain": [j["modified"] for j in chain]})


def wl_sco_locked(ctx, rng, i):
    """2.1 SCO with a deterministic (UUIDv5) id: its contributing properties are locked, others are not."""
    import stix2
    import stix2.versioning
    clk = ctx.state["clock"]
    clk.set(tsor.text_us("2024-01-01T00:00:00Z"))
    g = ObjGen(rng, "2.1", hostile=False)
    cases = [("file", {"name": "a.exe"}, "name", "b.exe", "size", 5), ("domain-name", {"value": "example.com"}, "value", "example.org", "defanged", True),
             ("user-account", {"user_id": "u1", "account_login": "l"}, "account_login", "m", "display_name", "d"),
             ("software", {"name": "sw", "vendor": "v"}, "vendor", "w", "languages", ["en"])]
    t, props, locked, lv, free, fv = cases[i % len(cases)]
    with warnings.catch_warnings():
        warnings.simplefilter("ignore")
        sco = stix2.parse(dict({"type": t, "spec_version": "2.1"}, **props))
    d = json.loads(sco.serialize())
    # as a dict carrying the three versioning properties as custom content the library lets it be versioned
    d.update({"created": "2020-01-01T00:00:00.000Z", "modified": "2020-01-01T00:00:00.000Z", "revoked": False})
    if (i // len(cases)) % 2 == 1:
        # the same identifier in upper-case hexadecimal digits: the same UUID, version 5 all the same
        tt, uu = d["id"].split("--", 1)
        d["id"] = tt + "--" + uu.upper()
        ctx.count("sco_upper_case_ids")
    if i % 3 == 2:
        lv = None
    ctx.ev()
    try:
        r = stix2.versioning.new_version(d, **{locked: lv})
        ctx.violation("sco-contributing-property-changed", "changing id-contributing %s of a UUIDv5 %s was accepted" % (locked, t),
                      {"object": d, "attempt": {locked: lv}, "result": to_json(r)})
    except family():
        ctx.count("refusals_observed")
        ctx.count("sco_locked_refusals")
    # ... also one the object does not carry so far: adding it would change what the identifier stands for
    absent = {"file": ("hashes", {"MD5": "d41d8cd98f00b204e9800998ecf8427e"}), "domain-name": None, "user-account": ("account_type", "unix"),
              "software": ("cpe", "cpe:2.3:a:v:sw:*:*:*:*:*:*:*:*")}.get(t)
    if absent and absent[0] not in d:
        ctx.ev()
        for via in ("keyword", "custom_properties"):
            try:
                r = stix2.versioning.new_version(d, **({absent[0]: absent[1]} if via == "keyword" else {"custom_properties": {absent[0]: absent[1]}}))
                if absent[0] in to_json(r) and to_json(r).get("id") == d["id"]:
                    ctx.violation("sco-contributing-property-changed", "adding the absent id-contributing %s to a UUIDv5 %s (via %s) was accepted and the id kept" % (absent[0], t, via),
                                  {"object": d, "attempt": {absent[0]: absent[1]}, "via": via, "result": to_json(r)})
            except family():
                ctx.count("refusals_observed")
                ctx.count("sco_locked_refusals")
    ctx.ev()
    try:
        r = stix2.versioning.new_version(d, **{free: fv})
        rj = to_json(r)
        if rj.get("id") != d["id"] or not compare.generic_equal(rj.get(free), fv):
            ctx.violation("change-not-applied", "non-contributing change on SCO dict not applied", {"object": d, "result": rj})
        ctx.count("sco_free_changes")
    except family() as e:
        ctx.violation("legal-operation-refused", "changing non-contributing %s of a %s dict raised %s" % (free, t, type(e).__name__), {"object": d, "attempt": {free: fv}})
    # the same observable as a library object (the versioning properties as custom content): locked and free properties alike
    try:
        with warnings.catch_warnings():
            warnings.simplefilter("ignore")
            sobj = stix2.parse(dict(d), allow_custom=True)
    except family():
        sobj = None
    if sobj is not None and not isinstance(sobj, dict):
        ctx.ev()
        ctx.count("sco_object_form")
        try:
            with warnings.catch_warnings():
                warnings.simplefilter("ignore")
                r = stix2.versioning.new_version(sobj, **{locked: lv})
            ctx.violation("sco-contributing-property-changed", "changing id-contributing %s of a UUIDv5 %s object was accepted" % (locked, t),
                          {"object": d, "form": "object", "attempt": {locked: lv}, "result": to_json(r)})
        except family():
            ctx.count("refusals_observed")
            ctx.count("sco_locked_refusals")
        try:
            with warnings.catch_warnings():
                warnings.simplefilter("ignore")
                r = stix2.versioning.new_version(sobj, **{free: fv})
            rj = to_json(r)
            if rj.get("id") != d["id"] or not compare.generic_equal(rj.get(free), fv) or type(r) is not type(sobj):
                ctx.violation("change-not-applied", "non-contributing change on an SCO object not applied", {"object": d, "result": rj})
            if not tsor.text_instant(rj["modified"]) > tsor.text_instant(d["modified"]):
                ctx.violation("modified-not-strictly-later", "new version of an SCO object: %s is not later than %s" % (rj["modified"], d["modified"]), {"object": d, "result": rj})
        except family() as e:
            ctx.violation("legal-operation-refused", "changing non-contributing %s of a %s object raised %s: %s" % (free, t, type(e).__name__, str(e)[:100]), {"object": d, "attempt": {free: fv}})
    ctx.nontrivial("sco-locked", t)


def wl_remove_custom(ctx, rng, i):
    """remove_custom_stix is a versioning operation too: a new version without the x_ properties, or the object itself if it has none,
    or nothing for an object of an x- type; the original is left as it was."""
    import stix2
    import stix2.versioning
    clk = ctx.state["clock"]
    ver, t = SUBJECTS[i % len(SUBJECTS)]
    form = "dict" if (i // len(SUBJECTS)) % 2 else "object"
    base = make_base(rng, ver, t)
    base.pop("revoked", None)
    ncustom = (i // 3) % 3
    for k in range(ncustom):
        base["x_removable_%d" % k] = rng.choice([1, "s", [1, 2], {"k": "v"}])
    try:
        with warnings.catch_warnings():
            warnings.simplefilter("ignore")
            cur = stix2.parse(json.dumps(base), allow_custom=True) if form == "object" else dict(base)
    except family():
        ctx.skip("base refused")
        return
    if form == "object" and isinstance(cur, dict):
        form = "dict"
    prev_j = to_json(cur)
    prev_text = json.dumps(prev_j, sort_keys=True)
    rel = list(DELTAS)[i % len(DELTAS)]
    clk.set(tsor.text_us(prev_j["modified"]) + DELTAS[rel])
    ctx.ev()
    try:
        with warnings.catch_warnings():
            warnings.simplefilter("ignore")
            new = stix2.versioning.remove_custom_stix(cur)
    except family() as e:
        ctx.violation("legal-operation-refused", "remove_custom_stix on a %s %s (%s, %d custom properties) raised %s: %s" % (ver, t, form, ncustom, type(e).__name__, str(e)[:120]),
                      {"operation": "remove_custom_stix", "previous": prev_j, "exception": type(e).__name__})
        return
    ctx.count("remove_custom_calls")
    ctx.nontrivial("remove-custom", ver, t, form, ncustom, rel)
    ctx.see("operations", "remove_custom_stix")
    if t.startswith("x-"):
        if new is not None:
            ctx.violation("custom-object-kept", "remove_custom_stix of an object of custom type %s returned something" % t, {"previous": prev_j, "result": to_json(new)})
        return
    if new is None:
        ctx.violation("change-not-applied", "remove_custom_stix of a %s returned nothing" % t, {"previous": prev_j})
        return
    nj = to_json(new)
    left = [k for k in nj if k.startswith("x_")]
    if left:
        ctx.violation("change-not-applied:removal", "remove_custom_stix left %s" % left, {"previous": prev_j, "new": nj})
    if ncustom:
        judge_step(ctx, "remove_custom_stix()", prev_j, nj, {k: None for k in prev_j if k.startswith("x_")}, ver, rel, {"form": form, "type": t, "generated_modified": True})
    elif nj != prev_j:
        ctx.violation("unrequested-change", "remove_custom_stix of an object without custom properties changed it", {"previous": prev_j, "new": nj})
    if json.dumps(to_json(cur), sort_keys=True) != prev_text:
        ctx.violation("original-modified-by-versioning", "remove_custom_stix changed the original", {"before": prev_j, "after": to_json(cur)})


def wl_interop(ctx, rng, i):
    """Objects made with interoperability=True (identifiers only that mode admits) are versionable objects like the others."""
    import stix2
    clk = ctx.state["clock"]
    ver = ["2.0", "2.1"][i % 2]
    t = ["identity", "malware", "indicator", "relationship"][(i // 2) % 4]
    g = ObjGen(rng, ver, hostile=False, ts_max_digits=6, openvocab_custom=False, year_range=(2000, 2030))
    base = g.make(t, "random", granular=False)
    base.pop("revoked", None)
    u = V.uuid_text(rng, 4)
    odd = rng.choice([u[:14] + "1" + u[15:], "00000000-0000-0000-0000-000000000000", u.upper(), u[:19] + "0" + u[20:]])
    base["id"] = t + "--" + odd
    route = ["constructor", "parse"][(i // 8) % 2]
    try:
        with warnings.catch_warnings():
            warnings.simplefilter("ignore")
            cur = stix2.parse(json.dumps(base), interoperability=True) if route == "parse" else cls_for(ver, t)(interoperability=True, **copy.deepcopy(base))
    except family() as e:
        ctx.skip("not admitted even in interoperability mode (%s)" % type(e).__name__)
        return
    ctx.count("interoperability_objects")
    chain = [to_json(cur)]
    clk.set(tsor.text_us(base["modified"]) + 5 * 10 ** 6)
    for step, (label, fn) in enumerate((("deepcopy", lambda o: copy.deepcopy(o)), ("new_version(name)", lambda o: o.new_version(**({"name": "renamed"} if "name" in base else {"description": "d"}))),
                                         ("add_markings(object-level)", lambda o: o.add_markings("marking-definition--613f2e26-407d-48c7-9eca-b8e91df99dc9")),
                                         ("new_version-as-function", lambda o: stix2.versioning.new_version(o, labels=["l"]) if ver == "2.0" or t != "relationship" else stix2.versioning.new_version(o, description="e")),
                                         ("revoke()", lambda o: o.revoke()))):
        prev_j = chain[-1]
        clk.set(tsor.text_us(prev_j["modified"]) + rng.choice([-10 ** 6, 0, 1, 999, 10 ** 6]))
        ctx.ev()
        try:
            with warnings.catch_warnings():
                warnings.simplefilter("ignore")
                new = fn(cur)
        except family() as e:
            ctx.violation("legal-operation-refused:interoperability-object", "%s of a %s %s made with interoperability=True (id %s) raised %s: %s" % (
                label, ver, t, base["id"], type(e).__name__, str(e)[:140]), {"operation": label, "object": prev_j, "route": route, "exception": type(e).__name__, "message": str(e)[:300]})
            return
        nj = to_json(new)
        ctx.nontrivial("interop", ver, t, label, route)
        ctx.see("operations", "interoperability:" + label)
        if label == "deepcopy":
            if nj != prev_j or not (new == cur):
                ctx.violation("copy-differs:interoperability-object", "deepcopy of an interoperability-mode %s differs from it" % t, {"original": prev_j, "copy": nj})
            continue
        if nj.get("id") != base["id"]:
            ctx.violation("identity-changed:id", "%s changed id" % label, {"previous": prev_j, "new": nj})
        pm, nm = tsor.text_instant(prev_j["modified"]), tsor.text_instant(nj["modified"])
        if not nm > pm:
            ctx.violation("modified-not-strictly-later", "%s (interoperability object): %s is not later than %s" % (label, nj["modified"], prev_j["modified"]), {"previous": prev_j, "new": nj})
        chain.append(nj)
        cur = new


def cls_for(ver, t):
    from .c02 import cls_for as f
    return f(ver, t)


def wl_last_instant(ctx, rng, i):
    """Objects modified at (or within the fudge distance of) the last instant a timestamp can hold: a later version is possible only
    while a strictly later written time exists; where none does, the refusal comes from the library's error family."""
    import stix2
    import stix2.versioning
    clk = ctx.state["clock"]
    ver = ["2.1", "2.0"][i % 2]
    form = ["object", "dict"][(i // 2) % 2]
    unit = 1 if ver == "2.1" else 1000
    last = tsor.text_us("9999-12-31T23:59:59.999999Z")
    last -= last % unit
    back = [0, 0, 1, 2, 1000][(i // 4) % 5] * unit            # how far before the last writable instant the object was modified
    mod_us = last - back
    o = {"type": "identity", "id": "identity--" + V.uuid_text(rng, 4), "created": "9999-01-01T00:00:00.000Z",
         "modified": tsor.format_us(mod_us, "millisecond", "min" if ver == "2.1" else "exact"), "name": "n", "identity_class": "individual"}
    if ver == "2.1":
        o["spec_version"] = "2.1"
    clock_at = rng.choice([tsor.text_us("2024-01-01T00:00:00Z"), mod_us, mod_us - 1, last, tsor.text_us("9999-12-31T23:59:59.999999Z")])
    clk.set(clock_at)
    try:
        with warnings.catch_warnings():
            warnings.simplefilter("ignore")
            prev = stix2.parse(json.dumps(o), version=ver) if form == "object" else json.loads(json.dumps(o))
    except family():
        ctx.skip("base at the end of time refused")
        return
    ctx.ev()
    ctx.count("last_instant_cases")
    w = {"version": ver, "form": form, "object": o, "clock": tsor.format_us(clock_at, "any")}
    for opname, fn in (("new_version", lambda: stix2.versioning.new_version(prev, name="m")), ("revoke", lambda: stix2.versioning.revoke(prev))):
        try:
            with warnings.catch_warnings():
                warnings.simplefilter("ignore")
                new = fn()
        except family():
            ctx.count("refusals_observed")
            ctx.see("operations", "last-instant:%s:refused" % opname)
            if mod_us + unit <= last:
                ctx.violation("later-version-refused-although-possible", "%s of an object modified %d unit(s) before the last writable instant was refused" % (opname, back // unit), dict(w, operation=opname))
            continue
        except Exception as e:
            ctx.violation("escape:%s:last-instant" % type(e).__name__, "%s of an object modified at %s let %s escape: %s" % (opname, o["modified"], type(e).__name__, str(e)[:100]), dict(w, operation=opname))
            continue
        nj = to_json(new)
        new_us = tsor.text_us(nj.get("modified", ""))
        ctx.see("operations", "last-instant:%s:returned" % opname)
        if new_us is None or not (new_us - new_us % unit > mod_us):
            ctx.violation("modified-not-strictly-later", "%s of an object modified at %s gave modified %s" % (opname, o["modified"], nj.get("modified")), dict(w, operation=opname, new=nj))
        ctx.nontrivial(ver, form, opname, back, "last-instant")


WORKLOADS = [
    Workload("last-instant", wl_last_instant, quick=40, thorough=400),
    Workload("remove-custom", wl_remove_custom, quick=lambda: len(SUBJECTS) * 3, thorough=lambda: len(SUBJECTS) * 60),
    Workload("interoperability", wl_interop, quick=48, thorough=2400),
    Workload("history", wl_history, quick=lambda: len(SUBJECTS) * 30, thorough=lambda: len(SUBJECTS) * 6000),
    Workload("sco-locked", wl_sco_locked, quick=48, thorough=2400),
]


def floors(m, tier):
    c = m["counters"]
    out = []
    if c.get("clock_consultations", 0) == 0 or c.get("clock_bindings_replaced", 0) == 0:
        out.append("the fake clock was never consulted (bindings replaced: %d): clock steering unavailable" % c.get("clock_bindings_replaced", 0))
    if c.get("steps_without_clock_consultation", 0) > 0.5 * max(1, c.get("steps", 0)):
        out.append("most versioning steps did not read the fake clock")
    need = 10 if tier == "quick" else 50
    for ver in ("2.0", "2.1"):
        for form in ("object", "dict"):
            for rel in DELTAS:
                n = c.get("clock:%s:%s:%s" % (ver, form, rel), 0)
                if n < need:
                    out.append("clock relation %s observed only %d times for %s %s" % (rel, n, ver, form))
    if c.get("refusals_observed", 0) < 30:
        out.append("fewer than 30 refusals observed")
    return out[:6]


MANIFEST = {
    "text": ("Versioning histories (new_version with change sets and removals, explicit modified values, revoke, marking operations) "
             "are driven on every versionable type of both versions in object and dict form while an externally installed clock is "
             "set, before every step, to each relation with the previous modified time that matters (earlier, equal, later by less "
             "than the serialisation precision, later); an offline checker judges identity, exact diff, untouched originals and strict "
             "increase of the serialised modified time along the chain.  Exploration over ~10^3 (quick) / ~10^5 (thorough) steps."),
    "note": "clock substituted at get_timestamp bindings (counter-verified); refusals judged by error family only",
    "technique": "runtime monitoring with clock control: offline checker over recorded version chains",
}
