"""C01 -- serialize/parse round trip is lossless for every object and option set.

Events: (obj, options) -> text; parse(text) (no version named, allow_custom=True) -> obj2;
obj2.serialize(options) -> text2; str(obj); fp_serialize into a StringIO.
Oracle: same class, equal (library __eq__ AND an independent deep comparison), text2 == text,
all option sets denote the same JSON value up to default-valued optional properties,
pretty output lists top-level spec-defined properties in frozen specification order.
"""
import io
import json
import warnings
from collections.abc import Mapping

from ..ctx import Workload
from ..gen import custom as gcustom
from ..gen import native
from ..gen.objects import ObjGen
from ..oracles import compare, validator
from ..spec import model as M

ID = "C01"
LEVEL = "exploration"
SHARDS = {"quick": 8, "thorough": 16}
RULE = ("every top-level class of both versions (embedded types, extensions and 2.0 observables inside their containers), "
        "harness-registered custom object/observable/extension/marking types, bundles with unregistered members, custom "
        "properties; built by parse from JSON and by constructors from Python-native values (datetimes in assorted offsets); "
        "hostile value pools; option lattice pretty x include_optional_defaults x sort_keys x indent{None,0,2,4,tab} x "
        "ensure_ascii x separators (covering subset per object, full 160-point lattice on a fraction).  "
        "Non-trivial: an optional property populated; distinct = distinct (class, populated property set, construction route, option set)")
ASSUMPTIONS = [
    "timestamps with more than six fractional digits are not generated here (their refusal is recorded under C03)",
    "lone surrogates are not generated",
    "pretty order is judged at top level only (with or without sort_keys, which pretty is documented to override): specification-defined keys in specification order, keys the specification does not define (custom, toplevel-extension) after them",
]
VERSIONS = ["2.0", "2.1"]

BOOL = [False, True]
LATTICE = [{"pretty": p, "include_optional_defaults": d, "sort_keys": s, "indent": i, "ensure_ascii": a, "separators": sep}
           for p in BOOL for d in BOOL for s in BOOL for i in (None, 0, 2, 4, "\t") for a in BOOL for sep in (None, (",", ":"))]
COVER = [LATTICE[k] for k in (0, 37, 74, 111, 148, 25, 62, 99, 136, 13, 90, 159)]


def opts_kwargs(o):
    kw = {"pretty": o["pretty"], "include_optional_defaults": o["include_optional_defaults"]}
    if o["sort_keys"]:
        kw["sort_keys"] = True
    if o["indent"] is not None:
        kw["indent"] = o["indent"]
    if not o["ensure_ascii"]:
        kw["ensure_ascii"] = False
    if o["separators"] is not None:
        kw["separators"] = o["separators"]
    return kw


def deep_eq(a, b, path=""):
    """Independent structural equality of two library objects; returns None or a description of the first difference."""
    if isinstance(a, Mapping) and isinstance(b, Mapping):
        import stix2.base
        if isinstance(a, stix2.base._STIXBase) and isinstance(b, stix2.base._STIXBase) and type(a) is not type(b):
            # "an object of the same class": also what it contains (a 2.0 member of a 2.1 bundle stays of its 2.0 class)
            return "%s: class %s.%s vs %s.%s" % (path, type(a).__module__, type(a).__name__, type(b).__module__, type(b).__name__)
        ka, kb = set(a.keys()), set(b.keys())
        if ka != kb:
            return "%s: keys differ (%s)" % (path, sorted(ka ^ kb))
        for k in a:
            d = deep_eq(a[k], b[k], path + "." + str(k))
            if d:
                return d
        return None
    if isinstance(a, (list, tuple)) and isinstance(b, (list, tuple)):
        if len(a) != len(b):
            return "%s: lengths differ" % path
        for i, (x, y) in enumerate(zip(a, b)):
            d = deep_eq(x, y, "%s[%d]" % (path, i))
            if d:
                return d
        return None
    if isinstance(a, bool) or isinstance(b, bool):
        return None if a is b else "%s: %r vs %r" % (path, a, b)
    if isinstance(a, (int, float)) and isinstance(b, (int, float)):
        return None if (a == b and isinstance(a, float) == isinstance(b, float)) or a == b else "%s: %r vs %r" % (path, a, b)
    if type(a) is not type(b) and not (isinstance(a, type(b)) or isinstance(b, type(a))):
        return "%s: %s vs %s" % (path, type(a).__name__, type(b).__name__)
    if a != b:
        return "%s: %r vs %r" % (path, a, b)
    return None


def spec_order_ok(version, type_name, keys):
    tbl = M.model(version).types.get(type_name)
    if tbl is None:
        return True, None
    order = [p["name"] for p in tbl["props"]]
    idx = [order.index(k) for k in keys if k in order]
    if idx != sorted(idx):
        return False, [k for k in keys if k in order]
    # properties the specification does not define (custom, toplevel-extension) have no place *among* the specified ones
    seen_unspecified = False
    for k in keys:
        if k not in order:
            seen_unspecified = True
        elif seen_unspecified:
            return False, keys
    return True, None


def check_object(ctx, obj, version, route, rng, full_lattice=False, type_name=None):
    import stix2
    cls = type(obj)
    type_name = type_name or obj.get("type")
    try:
        base_text = obj.serialize()
        base_json = json.loads(base_text)
    except Exception as e:
        ctx.ev()
        ctx.violation("serialize-raised", "%s.serialize() raised %s" % (cls.__name__, type(e).__name__), {"object": repr(obj)[:1500], "exception": repr(e)})
        return
    options = LATTICE if full_lattice else COVER
    for o in options:
        kw = opts_kwargs(o)
        ctx.ev()
        try:
            with warnings.catch_warnings():
                warnings.simplefilter("ignore")
                text = obj.serialize(**kw)
        except Exception as e:
            ctx.violation("serialize-raised", "serialize(%r) raised %s" % (kw, type(e).__name__), {"options": kw, "object": base_json, "exception": repr(e)})
            continue
        if ctx.counters.get("evaluations", 0) % 4 == 0:
            # histories: the same text is first parsed strictly, with each version named, and as a dict
            for fn in (lambda: stix2.parse(text, allow_custom=False), lambda: stix2.parse(text, allow_custom=True, version="2.0"),
                       lambda: stix2.parse(json.loads(text), allow_custom=True, version="2.1")):
                try:
                    with warnings.catch_warnings():
                        warnings.simplefilter("ignore")
                        fn()
                except Exception:
                    pass
        try:
            with warnings.catch_warnings():
                warnings.simplefilter("ignore")
                obj2 = stix2.parse(text, allow_custom=True)
        except Exception as e:
            ctx.violation("own-output-refused", "%s %s: parse refused the library's own output: %s: %s" % (version, type_name, type(e).__name__, str(e)[:160]),
                          {"version": version, "route": route, "options": kw, "text": text[:3000], "exception": type(e).__name__, "message": str(e)[:400]})
            continue
        if type(obj2) is not cls:
            ctx.violation("class-changed", "%s %s came back as %s" % (version, cls.__name__, type(obj2).__name__),
                          {"version": version, "options": kw, "text": text[:2000], "expected_class": cls.__module__ + "." + cls.__name__,
                           "got_class": type(obj2).__module__ + "." + type(obj2).__name__})
            continue
        if not o["include_optional_defaults"] or True:
            eq = (obj2 == obj)
            d = deep_eq(obj, obj2)
            if not eq or d:
                ctx.violation("not-equal-after-round-trip", "%s %s: parsed-back object differs: %s" % (version, type_name, d or "__eq__ is False"),
                              {"version": version, "route": route, "options": kw, "text": text[:3000], "difference": d, "library_eq": bool(eq)})
                continue
        try:
            with warnings.catch_warnings():
                warnings.simplefilter("ignore")
                text2 = obj2.serialize(**kw)
        except Exception as e:
            ctx.violation("serialize-raised", "re-serialize raised %s" % type(e).__name__, {"options": kw, "text": text[:2000]})
            continue
        if text2 != text:
            try:
                with warnings.catch_warnings():
                    warnings.simplefilter("ignore")
                    plain_ok = stix2.parse(base_text, allow_custom=True).serialize() == base_text
            except Exception:
                plain_ok = False
            ctx.violation("text-not-reproduced" + (":pretty-only" if plain_ok and o["pretty"] else ""),
                          "%s %s: second serialisation differs from the first" % (version, type_name),
                          {"version": version, "route": route, "options": kw, "first": text[:2500], "second": text2[:2500]})
        # same JSON value as the default text, up to default-valued optional properties
        ctx.ev()
        try:
            j = json.loads(text, object_pairs_hook=list) if o["pretty"] else None
            val = json.loads(text)
        except Exception as e:
            ctx.violation("output-not-json", "serialize(%r) is not JSON" % (kw,), {"options": kw, "text": text[:2000]})
            continue
        if o["include_optional_defaults"]:
            diffs = compare.preserved(base_json, val, version if type_name in M.model(version).types else None) \
                if type_name in M.model(version).types else ([] if all(k in val for k in base_json) else [("lost", "", "")])
        else:
            diffs = [] if compare.generic_equal(base_json, val) else [("value-differs", "", "")]
        if diffs:
            ctx.violation("options-denote-different-value", "%s %s: option set %r denotes a different JSON value: %s %s %s" % (
                version, type_name, kw, diffs[0][0], diffs[0][1], str(diffs[0][2])[:120]),
                {"version": version, "options": kw, "default_text": base_text[:2500], "this_text": text[:2500], "differences": diffs[:4]})
        if o["pretty"]:
            # (whatever else is asked for: pretty=True is documented to override sort_keys, and the property quantifies over
            # every combination of options)
            keys = [k for k, _ in j]
            ok, seq = spec_order_ok(version, type_name, keys)
            ctx.count("pretty_orders_checked")
            if o["sort_keys"]:
                ctx.count("pretty_orders_checked_with_sort_keys")
            if not ok:
                ctx.violation("pretty-order" + (":with-sort-keys" if o["sort_keys"] else ""), "%s %s: pretty output not in specification order" % (version, type_name),
                              {"version": version, "options": kw, "keys_in_output": keys})
        ctx.see("option sets", json.dumps(kw, sort_keys=True))
    # str() and fp_serialize
    ctx.ev()
    try:
        if str(obj) != base_text:
            ctx.violation("str-differs", "str(obj) != obj.serialize()", {"str": str(obj)[:1500], "serialize": base_text[:1500]})
        buf = io.StringIO()
        obj.fp_serialize(buf)
        if buf.getvalue() != base_text:
            ctx.violation("fp-serialize-differs", "fp_serialize wrote different text", {"fp": buf.getvalue()[:1500], "serialize": base_text[:1500]})
    except Exception as e:
        ctx.violation("serialize-raised", "str()/fp_serialize raised %s" % type(e).__name__, {"exception": repr(e)})
    ctx.see("classes", "%s:%s" % (version, cls.__name__))
    nested = set()
    collect_classes(obj, nested)
    for c in nested:
        ctx.see("classes", "%s:%s" % (version, c))
    if len(base_json) > 4:
        ctx.nontrivial(version, cls.__name__, sorted(flat_keys(base_json)), route, "full" if full_lattice else "cover")


def collect_classes(v, acc):
    import stix2.base
    if isinstance(v, stix2.base._STIXBase):
        acc.add(type(v).__name__)
        for x in v.values():
            collect_classes(x, acc)
    elif isinstance(v, Mapping):
        for x in v.values():
            collect_classes(x, acc)
    elif isinstance(v, list):
        for x in v:
            collect_classes(x, acc)


def flat_keys(o, prefix=""):
    out = set()
    if isinstance(o, dict):
        for k, v in o.items():
            out.add(prefix + k)
            out |= flat_keys(v, prefix + k + ".")
    elif isinstance(o, list):
        for v in o:
            out |= flat_keys(v, prefix)
    return out


def build(ctx, version, o, route, rng):
    """Construct the library object for JSON description o through the given route; None if refused."""
    import stix2
    from .c02 import cls_for
    try:
        with warnings.catch_warnings():
            warnings.simplefilter("ignore")
            if route == "parse":
                return stix2.parse(json.dumps(o), allow_custom=True)
            cls = cls_for(version, o["type"])
            kw = native.to_native(version, o, rng, over_precise=True)
            if o["type"] == "bundle" and isinstance(kw.get("objects"), list) and rng.random() < 0.6:
                # members as library objects, each of its own version's class (read back from the text they are dictionaries again)
                members = []
                for m_ in kw["objects"]:
                    try:
                        pm = stix2.parse(json.loads(json.dumps(m_)), allow_custom=True)
                        members.append(pm if not isinstance(pm, dict) and rng.random() < 0.8 else m_)
                    except Exception:
                        members.append(m_)
                kw["objects"] = members
                ctx.count("bundles_with_library_object_members")
            if rng.random() < 0.25:
                # leave what the library supplies from the clock (created / modified / valid_from ...) to the library
                tbl = M.model(version).types.get(o["type"], {}).get("by_name", {})
                dropped = [k for k in list(kw) if tbl.get(k, {}).get("library_default_now")]
                if set(dropped) >= {"created", "modified"} or "modified" not in kw:
                    for k in dropped:
                        kw.pop(k)
                    ctx.count("constructed_with_clock_defaults")
            if o["type"] == "marking-definition" and isinstance(kw.get("definition"), dict) and kw.get("definition_type") in ("statement", "tlp") and rng.random() < 0.6:
                # the definition as an object of its marking class (which may itself carry custom content)
                mod = stix2.v20 if version == "2.0" else stix2.v21
                mcls = mod.StatementMarking if kw["definition_type"] == "statement" else mod.TLPMarking
                kw["definition"] = mcls(allow_custom=True, **kw["definition"])
                ctx.count("marking_definitions_given_as_objects")
            return cls(allow_custom=True, **kw)
    except Exception as e:
        ctx.skip("construction refused (%s) -- C03's subject, not round trip" % type(e).__name__)
        ctx.count("construction_refused")
        return None


def types():
    out = []
    for ver in VERSIONS:
        for t in ObjGen(None, ver).creatable_types():
            out.append((ver, t))
    return out


TYPES = types()


def setup(ctx):
    gcustom.ensure_registered()
    ctx.count("refused_registrations_before_the_workload", gcustom.refused_registrations())
    ctx.count("refused_registrations_that_left_something_behind", len(gcustom.LEFT_BEHIND))


def wl_builtin(ctx, rng, i):
    ver, t = TYPES[i % len(TYPES)]
    rnd = i // len(TYPES)
    g = ObjGen(rng, ver, hostile=True, ts_max_digits=6, allow_empty_str=(rnd % 3 == 0), huge_ints=(rnd % 2 == 0),
               year_range=(1, 9999) if rnd % 4 == 1 else (1970, 2100), shuffle_keys=(rnd % 2 == 1), toplevel_ext=(rnd % 5 == 0))
    prof = ["max", "random", "min", "random"][rnd % 4]
    o = g.make(t, prof)
    if rnd % 3 == 1 and t != "bundle":
        o["x_custom_prop"] = rng.choice(["s", 5, 1.5, True, ["a", 1], {"k": {"n": [1, 2]}}, "2020-01-01T00:00:00.000Z"])
        if ver == "2.0" or rng.random() < 0.5:
            o["x_second"] = {"type": "nested-type-key", "id": 5}
        if rng.random() < 0.5:
            # a key/value pair that also occurs at top level, nested inside a custom dictionary and a list of dictionaries
            dup = {k: o[k] for k in list(o)[:6] if isinstance(o[k], (str, int, bool)) and k not in ("x_custom_prop",)}
            o["x_nested_twin"] = {"inner": dup, "items": [dup, {"zz": 1}]} if dup else {"a": 1}
    if [x for x in validator.validate({k: v for k, v in o.items() if not k.startswith("x_")}, ver) if x[0] != "integer-type-range"]:
        ctx.skip("generator error")
        return
    if rnd % 3 == 1 and t != "bundle":
        # ... and custom properties inside the objects it embeds (external references, kill chain phases, the definition of a marking,
        # predefined extensions, MIME parts ...): each of them is built with the parent's allow_custom, on the way in and on the way back
        try:
            from ..gen import corrupt
            _, nested_objs = corrupt.slots(ver, o)
            for path, _tbl, section in nested_objs:
                if path and rng.random() < 0.5 and isinstance(corrupt.get(o, path), dict) and not section.startswith("observable"):
                    corrupt.get(o, path)["x_nested_custom"] = rng.choice(["v", 7, [1, "a"], {"k": "v"}])
                    ctx.count("nested_custom_properties")
        except Exception:
            pass
    route = "parse" if rnd % 2 == 0 else "constructor"
    obj = build(ctx, ver, o, route, rng)
    if obj is None:
        return
    check_object(ctx, obj, ver, route, rng, full_lattice=(i % 10 == 0))
    if ctx.want_sample() and prof == "max":
        ctx.sample({"version": ver, "route": route, "serialize_default": obj.serialize()[:1500], "option_sets": 160 if i % 10 == 0 else len(COVER)})


def wl_custom(ctx, rng, i):
    import stix2
    ver = VERSIONS[i % 2]
    g = ObjGen(rng, ver, hostile=True, ts_max_digits=6, huge_ints=(i % 3 == 0))
    kind = i % 11
    special = None
    try:
        if kind == 7 and ver == "2.1":
            # types declared with extension_name=: their own extension entry is part of the JSON form
            o = gcustom.gadget21(g) if i % 4 < 2 else gcustom.probe21(g, with_id=(i % 8 < 4))
        elif kind == 8 and ver == "2.1":
            # toplevel-property extensions, registered or not; through the constructor the entry may be an instance of the registered class
            o = gcustom.toplevel21(g, rng.choice(["a", "b", "ab", "ba", "u", "au", "ua"]))
            special = "toplevel"
        elif kind == 9:
            # custom properties given both ways at once: as keyword arguments and through custom_properties
            o = g.make("identity", "random", granular=False)
            for n in rng.sample(["x_alpha", "x_beta", "x_gamma", "x_zeta", "x_a1", "x_zz"], 4):
                o[n] = rng.choice([1, "s", [1, 2], {"k": 1}])
            if ver == "2.1" and rng.random() < 0.4:
                o.setdefault("extensions", {})[gcustom.TOPLEVEL_UNREGISTERED] = {"extension_type": "toplevel-property-extension"}
            special = "both-ways"
        elif kind >= 7:
            o = g.make("identity", "random")
            # sibling dictionaries which share a key and its value; digit-like keys which are no numbers
            v = rng.choice(["X", 1, True, "d"])
            names = rng.sample(["name", "description", "alpha", "zeta", "beta", "gamma"], 3)
            sib = {rng.choice(["fr", "zz"]): {names[0]: v}, rng.choice(["de", "aa"]): {names[0]: v, names[1]: "d"}, "mm": {names[2]: 2, names[0]: v, names[1]: "d"}}
            o["x_siblings"] = dict(rng.sample(sorted(sib.items()), len(sib)))
            if rng.random() < 0.3:
                o["x_siblings"]["mm"][rng.choice(["\u00b2", "\u0663", "1", "01"])] = 0
        elif kind == 0:
            o = gcustom.widget(g)
        elif kind == 1 and (i // 11) % 3 == 0:
            o = gcustom.marking_definition(g)
        elif kind == 1:
            # a statement / TLP marking whose definition carries a custom property of its own
            o = g.make("marking-definition", "random")
            if isinstance(o.get("definition"), dict) and o.get("definition_type") == "statement":
                o["definition"]["x_in_definition"] = rng.choice(["v", 3, ["a"], {"k": 1}])
            special = "marking-route"
        elif kind == 2 and ver == "2.1":
            o = gcustom.sensor21(g, with_id=(i % 4 < 2))
        elif kind == 3 and ver == "2.1":
            o = gcustom.file_with_ext(g)
        elif kind == 4 and ver == "2.0":
            o = gcustom.observed20_with_sensor(g)
        elif kind == 5 and (i // 11) % 2 == 0 and ver == "2.1":
            # a 2.1 bundle may carry 2.0 objects next to 2.1 ones: each member keeps its own version's class
            g20 = ObjGen(rng, "2.0", hostile=True, ts_max_digits=6)
            members = [g20.make(rng.choice(["identity", "malware", "indicator", "relationship"]), "random"), g.make("identity", "random"),
                       g20.make("marking-definition", "min"), g.make("domain-name", "random")]
            rng.shuffle(members)
            o = g.bundle(members=members)
        elif kind == 5:
            # bundle with a registered custom member, an unregistered custom member kept as a dict, and a plain member
            members = [gcustom.widget(g), g.make("identity", "random"),
                       {"type": "x-unregistered-thing", "id": g.new_id("x-unregistered-thing"), "foo": [1, {"a": None if False else "b"}], "created": "2020-01-01T00:00:00.000Z"}]
            if ver == "2.1":
                members[2]["spec_version"] = "2.1"
                members.append(gcustom.sensor21(g))
            o = g.bundle(members=members)
        else:
            o = g.make("identity", "random")
            o["x_only_custom"] = {"deep": [1, 2.5, "x", {"y": True}]}
    except KeyError:
        ctx.skip("kind not available for this version")
        return
    if kind == 5 and o.get("type") == "bundle":
        obj = build(ctx, ver, o, "parse" if (i // 22) % 2 else "constructor", rng)
        ctx.count("mixed_or_custom_member_bundles")
    elif special == "marking-route":
        obj = build(ctx, ver, o, "parse" if (i // 11) % 2 else "constructor", rng)
    elif special and i % 3:
        obj = build_special(ctx, ver, o, special, rng)
    else:
        obj = build(ctx, ver, o, "parse" if i % 3 else "constructor", rng)
    if obj is None:
        return
    if isinstance(obj, dict):
        ctx.skip("unregistered top-level kept as dict")
        return
    check_object(ctx, obj, ver, "custom", rng, full_lattice=(i % 10 == 0))
    ctx.count("custom_objects")
    if special:
        ctx.count("custom_objects_" + special)


def build_special(ctx, version, o, special, rng):
    """Constructor routes the generic one does not take: extension entries as instances of their registered class with values still to be
    cleaned; custom properties split between keyword arguments and custom_properties."""
    import stix2
    from .c02 import cls_for
    kw = native.to_native(version, o, rng)
    try:
        with warnings.catch_warnings():
            warnings.simplefilter("ignore")
            if special == "toplevel":
                reg = gcustom.ensure_registered()
                ext = dict(kw.get("extensions", {}))
                for key, name in ((gcustom.TOPLEVEL_A, "toplevel-a"), (gcustom.TOPLEVEL_B, "toplevel-b")):
                    if key in ext and rng.random() < 0.6:
                        ext[key] = reg[("2.1", name)]()          # an instance, as deepcopy / new_version hand it on
                        ctx.count("extension_entries_as_instances")
                kw["extensions"] = ext
                # values in forms the property has to clean: text for an integer, a datetime for a timestamp, one string for a list
                if "rank" in kw and rng.random() < 0.5:
                    kw["rank"] = str(kw["rank"])
                if isinstance(kw.get("seen_at"), str) and rng.random() < 0.7:
                    kw["seen_at"] = native.dt_from_text(kw["seen_at"], rng)
                if isinstance(kw.get("aliases"), list) and len(kw["aliases"]) == 1 and rng.random() < 0.5:
                    kw["aliases"] = kw["aliases"][0]
                if "grade" in kw and rng.random() < 0.5:
                    kw["grade"] = str(kw["grade"])
                return cls_for(version, o["type"])(allow_custom=True, **kw)
            # both ways
            names = [n for n in kw if n.startswith("x_")]
            rng.shuffle(names)
            cp = {n: kw.pop(n) for n in names[:rng.randrange(1, len(names))]}
            extra = {}
            if gcustom.TOPLEVEL_UNREGISTERED in kw.get("extensions", {}):
                extra, cp["aaa_area"] = {"zzz_zone": 1}, 2
            ctx.count("custom_properties_given_both_ways")
            return cls_for(version, o["type"])(allow_custom=True, custom_properties=cp, **kw, **extra)
    except Exception as e:
        ctx.skip("construction refused (%s) -- C03's subject, not round trip" % type(e).__name__)
        ctx.count("construction_refused")
        return None


def sco20_slots():
    m = M.model("2.0")
    out = []
    for t in m.types_of_class("SCO"):
        out.append((t, None))
        for e in M.EXT_HOSTS.get(t, []):
            out.append((t, e))
    return out


SCO20 = sco20_slots()


def wl_containers(ctx, rng, i):
    """2.0 observables (and their extensions) exist only inside observed-data containers."""
    t, ext = SCO20[i % len(SCO20)]
    g = ObjGen(rng, "2.0", hostile=True, ts_max_digits=6, huge_ints=(i % 2 == 0))
    od = g.make("observed-data", "random", granular=False)
    cont = g.observed_container(types=[t])
    if ext:
        cont["0"]["extensions"] = {ext: g.fill(g.m.extensions[ext], ext, "random", 1, cont)}
    od["objects"] = cont
    if [x for x in validator.validate(od, "2.0") if x[0] != "integer-type-range"]:
        ctx.skip("generator error")
        return
    unknown = None
    if i % 4 == 1:
        # an element of an unregistered type: kept as a dictionary, and emitted exactly as given
        unknown = {"type": "x-stixmon-unregistered-observable", "foo": "bar", "n": [1, {"a": None}][0]}
        od["objects"] = dict(cont)
        od["objects"][str(len(cont) + 5)] = unknown
    obj = build(ctx, "2.0", od, "parse" if i % 2 == 0 else "constructor", rng)
    if obj is None:
        return
    if unknown is not None:
        ctx.ev()
        got = json.loads(obj.serialize())["objects"].get(str(len(cont) + 5))
        ctx.count("unregistered_elements")
        if got != unknown:
            ctx.violation("unregistered-element-not-emitted-as-given", "an observed-data element of an unregistered type is serialised differently from what was given",
                          {"given": unknown, "emitted": got})
    check_object(ctx, obj, "2.0", "container", rng, full_lattice=(i % 10 == 0))


# pure by their documentation: a sample of the calls is repeated in a fresh interpreter, in reverse order (stixmon/echo.py)
ECHO = ["stix2.serialization:serialize"]
WORKLOADS = [
    Workload("builtin", wl_builtin, quick=lambda: len(TYPES) * 20, thorough=lambda: len(TYPES) * 600),
    Workload("containers20", wl_containers, quick=lambda: len(SCO20) * 2, thorough=lambda: len(SCO20) * 200),
    Workload("custom", wl_custom, quick=350, thorough=20000),
]


def expected_classes():
    import stix2
    out = set()
    for ver, mod in (("2.0", stix2.v20), ("2.1", stix2.v21)):
        for mp in (mod.OBJ_MAP, mod.OBJ_MAP_OBSERVABLE, mod.EXT_MAP):
            for t, c in mp.items():
                if not t.startswith("x-"):
                    out.add("%s:%s" % (ver, c.__name__))
    return out


def floors(m, tier):
    c = m["counters"]
    out = []
    if c.get("evaluations", 0) < 5000:
        out.append("fewer than 5000 evaluations")
    seen = m["seen"].get("classes", set())
    try:
        from .. import import_stix2
        import_stix2()
        exp = expected_classes()
        miss = sorted(exp - seen)
        if len(miss) > 0.05 * len(exp):
            out.append("%d of %d registered classes never round-tripped: %s" % (len(miss), len(exp), ", ".join(miss[:8])))
    except Exception as e:
        out.append("class census failed: %r" % (e,))
    if c.get("pretty_orders_checked_with_sort_keys", 0) < 50:
        out.append("pretty order checked together with sort_keys fewer than 50 times")
    if c.get("pretty_orders_checked", 0) < 200:
        out.append("pretty order checked fewer than 200 times")
    if c.get("construction_refused", 0) > 0.3 * sum(v for k, v in c.items() if k.startswith("cases:")):
        out.append("more than 30% of generated objects could not be constructed")
    # every kind of case the custom workload means to form has been formed (a selector that never fires is a hole nobody sees:
    # the mixed-version bundle branch was dead for five rounds)
    for name, need in (("mixed_or_custom_member_bundles", 8), ("bundles_with_library_object_members", 4), ("custom_objects_toplevel", 4), ("custom_objects_both-ways", 8),
                       ("extension_entries_as_instances", 2), ("custom_properties_given_both_ways", 4), ("marking_definitions_given_as_objects", 3),
                       ("nested_custom_properties", 50), ("constructed_with_clock_defaults", 20)):
        if c.get(name, 0) < need:
            out.append("case kind '%s' formed %d times (at least %d intended)" % (name, c.get(name, 0), need))
    return out[:6]


MANIFEST = {
    "text": ("Each generated object of every class (both versions, custom content, Python-native and JSON construction, hostile "
             "values) is serialised under a covering subset of the 160-point option lattice (the full lattice on every tenth "
             "object), parsed back without naming the version, compared by the library's equality and by an independent deep "
             "comparison, and re-serialised; the option sets' JSON values are compared with each other and pretty key order with "
             "the frozen specification order.  Exploration: thousands of objects x 12-160 option sets per run."),
    "note": "trusts the frozen model for specification order and defaults; >6-digit timestamps and lone surrogates excluded",
    "technique": "runtime monitoring: round-trip / metamorphic oracle on serialize and parse events across an option lattice",
}
