"""C10 -- pattern text and pattern object model convert into each other faithfully.

Events: text -> create_pattern_object -> str -> create_pattern_object -> str; model objects assembled from the public
classes -> str.
Oracle: the printed text is valid (third-party stix2patterns validator); an own syntax tree read from its ANTLR parse tree by
an own walker, normalised, equals the generator's tree likewise normalised; printing is a fixed point of parse-then-print.
"""
import warnings

from ..ctx import Workload
from ..oracles import pattern_ast as P
from ..oracles import ts as tsor

ID = "C10"
LEVEL = "exploration"
SHARDS = {"quick": 4, "thorough": 16}
RULE = ("patterns generated from an own syntax tree over the STIX 2.1 grammar: every comparison operator with and without NOT, "
        "EXISTS, all constant kinds (strings needing escapes, integers, floats, booleans, hex, binary, timestamps, set literals), "
        "quoted / indexed / [*] / reference path steps, AND/OR nesting at comparison level and AND/OR/FOLLOWEDBY at observation level "
        "with required and redundant parentheses, REPEATS/WITHIN/START-STOP qualifiers, random legal whitespace; each also "
        "assembled programmatically from the public model classes.  Non-trivial: any pattern with >= 2 atoms or a NOT, a qualifier, "
        "an escape or a non-identifier path step; distinct = distinct normalised syntax tree")
ASSUMPTIONS = [
    "validity of printed text is judged by the third-party stix2patterns validator (not part of the repository); a validator crash counts as 'cannot tell' and the case is skipped",
    "the generator's own text is first validated and read back by the own reader; disagreement there is a generator error (discarded, counted)",
    "the STIX 2.0 grammar is exercised only for the sub-language both grammars share (thorough tier)",
]


def validate_text(text, version="2.1"):
    from stix2patterns.validator import run_validator
    try:
        with warnings.catch_warnings():
            warnings.simplefilter("ignore")
            errs = run_validator(text, version)
    except Exception as e:
        return None
    return [str(e) for e in errs]


def features(n, acc):
    k = n[0]
    if k == "cmp":
        acc.add("op:%s%s" % (n[2], ":NOT" if n[3] else ""))
        acc.add("const:" + n[4][0])
        for s in n[1][1]:
            if s[0] == "i":
                acc.add("step:index" if s[1] != "*" else "step:star")
            elif s[1].endswith("_ref"):
                acc.add("step:ref")
            elif P.needs_quote(s[1]):
                acc.add("step:quoted")
        if n[4][0] == "str" and ("'" in n[4][1] or "\\" in n[4][1]):
            acc.add("const:str-with-escape")
    elif k == "exists":
        acc.add("op:EXISTS")
    elif k in ("and", "or", "oand", "oor", "ofb"):
        acc.add("bool:" + k)
        for x in n[1]:
            features(x, acc)
    elif k == "obs":
        features(n[1], acc)
    elif k == "qual":
        acc.add("qual:" + n[2][0])
        features(n[1], acc)


def first_difference(a, b):
    """kind of the first place two normalised trees differ"""
    if a == b:
        return None
    if a[0] != b[0]:
        return "structure"
    k = a[0]
    if k == "cmp":
        if a[1] != b[1]:
            return "path"
        if a[2] != b[2]:
            return "operator"
        if a[3] != b[3]:
            return "negation"
        return "constant"
    if k == "exists":
        return "path"
    if k in ("and", "or", "oand", "oor", "ofb"):
        if len(a[1]) != len(b[1]):
            return "structure"
        for x, y in zip(a[1], b[1]):
            d = first_difference(x, y)
            if d:
                return d
        return "structure"
    if k == "obs":
        return first_difference(a[1], b[1])
    if k == "qual":
        return first_difference(a[1], b[1]) or "qualifier"
    return "structure"


def has_exists(n):
    k = n[0]
    if k == "exists":
        return True
    if k in ("and", "or", "oand", "oor", "ofb"):
        return any(has_exists(x) for x in n[1])
    if k in ("obs", "qual"):
        return has_exists(n[1])
    return False


def has_step_starting_with_quote(n):
    k = n[0]
    if k in ("cmp", "exists"):
        return any(st[0] == "k" and isinstance(st[1], str) and st[1].startswith("'") for st in n[1][1])
    if k in ("and", "or", "oand", "oor", "ofb"):
        return any(has_step_starting_with_quote(x) for x in n[1])
    if k in ("obs", "qual"):
        return has_step_starting_with_quote(n[1])
    return False


def has_consecutive_indices(n):
    k = n[0]
    if k in ("cmp", "exists"):
        steps = n[1][1]
        return any(a[0] == "i" and b[0] == "i" for a, b in zip(steps, steps[1:]))
    if k in ("and", "or", "oand", "oor", "ofb"):
        return any(has_consecutive_indices(x) for x in n[1])
    if k in ("obs", "qual"):
        return has_consecutive_indices(n[1])
    return False


def _object_types(n):
    """(set of object types a comparison-level expression can be satisfied with, True if some AND below joins operands that share none)"""
    k = n[0]
    if k in ("cmp", "exists"):
        return {n[1][0]}, False
    parts = [_object_types(x) for x in n[1]]
    bad = any(b for _, b in parts)
    if k == "or":
        return set().union(*[t for t, _ in parts]), bad
    common = set.intersection(*[t for t, _ in parts])
    return common, bad or not common


def has_unsatisfiable_and(n):
    """Does some AND inside an observation expression join operands no single object type can satisfy?  (That, and only that, is
    what the recorded finding cross-type-and-refused is about; an AND whose operands share a type must be accepted.)"""
    k = n[0]
    if k in ("oand", "oor", "ofb"):
        return any(has_unsatisfiable_and(x) for x in n[1])
    if k == "qual":
        return has_unsatisfiable_and(n[1])
    if k == "obs":
        return _object_types(n[1])[1]
    return _object_types(n)[1]


def vkey(key, ast_norm):
    """EXISTS has no counterpart in the object model (recorded finding): whatever goes wrong on a pattern that uses it is that mechanism.
    Likewise a path step whose name begins with a quote character: the printer takes it for an already quoted step (recorded finding)."""
    if has_exists(ast_norm) and key.split(":")[0] in ("create-raised", "printed-invalid", "meaning-changed"):
        return "exists-unmodelled"
    if has_consecutive_indices(ast_norm) and key.split(":")[0] in ("create-raised", "printed-invalid", "meaning-changed", "assembly-raised"):
        return "consecutive-index-steps-unmodelled"
    if has_step_starting_with_quote(ast_norm) and (key == "printed-invalid" or key.startswith("meaning-changed:path") or key.startswith("not-a-fixed-point")):
        return "step-name-starting-with-quote"
    return key


def judge_text(ctx, text, ast_norm, version, route, witness):
    """library: text -> model -> text ; then all oracles.  Returns printed text or None."""
    from stix2.pattern_visitor import create_pattern_object
    ctx.ev()
    try:
        with warnings.catch_warnings():
            warnings.simplefilter("ignore")
            model = create_pattern_object(text, version=version)
            printed = str(model)
    except Exception as e:
        key = vkey("create-raised:" + type(e).__name__, ast_norm)
        if isinstance(e, ValueError) and "satisfiable with the same object type" in str(e):
            key = "cross-type-and-refused" if has_unsatisfiable_and(ast_norm) else "satisfiable-and-refused"      # recorded finding: the object model refuses AND across object types (the repository's tests assert it)
        ctx.violation(key, "create_pattern_object raised %s on a valid pattern: %s" % (type(e).__name__, str(e)[:120]),
                      dict(witness, route=route, pattern=text, exception=repr(e)[:300]))
        return None
    return judge_printed(ctx, printed, ast_norm, version, route, dict(witness, pattern=text))


def judge_printed(ctx, printed, ast_norm, version, route, witness):
    from stix2.pattern_visitor import create_pattern_object
    errs = validate_text(printed, version)
    ctx.ev()
    if errs is None:
        ctx.skip("third-party validator crashed on printed text")
        return None
    if errs:
        key = vkey("printed-invalid", ast_norm)
        if key == "printed-invalid" and route == "assembled-with-shorthands" and ("LIKE t'" in printed or "MATCHES t'" in printed):
            key = "printed-invalid:string-shorthand-printed-as-timestamp"
        ctx.violation(key, "printed pattern is not valid: %s" % errs[0][:120], dict(witness, route=route, printed=printed, validator_error=errs[0][:300]))
        return None
    try:
        back = P.normalize(P.read(printed, version))
    except Exception as e:
        ctx.skip("own reader failed on printed text (%s)" % type(e).__name__)
        return None
    ctx.ev()
    if back != ast_norm:
        d = first_difference(ast_norm, back)
        ctx.violation(vkey("meaning-changed:" + str(d), ast_norm), "printed pattern differs from the source in %s" % d,
                      dict(witness, route=route, printed=printed, expected_tree=P.jsonable(ast_norm), printed_tree=P.jsonable(back)))
        return None
    # fixed point of parse-then-print
    ctx.ev()
    try:
        with warnings.catch_warnings():
            warnings.simplefilter("ignore")
            again = str(create_pattern_object(printed, version=version))
        if again != printed:
            ctx.violation("not-fixed-point", "printing is not a fixed point of parse-then-print", dict(witness, route=route, first=printed, second=again))
    except Exception as e:
        ctx.violation("create-raised:" + type(e).__name__, "create_pattern_object raised on the library's own printed text", dict(witness, route=route, printed=printed, exception=repr(e)[:300]))
    return printed


# ---- programmatic assembly from the public classes ---------------------------------------------------------------------

def build_const(c):
    import stix2.patterns as sp
    k = c[0]
    if k == "str":
        return sp.StringConstant(c[1])
    if k == "int":
        return sp.IntegerConstant(c[1])
    if k == "float":
        return sp.FloatConstant(c[1])
    if k == "bool":
        return sp.BooleanConstant(c[1])
    if k == "hex":
        return sp.HexConstant(c[1])
    if k == "bin":
        return sp.BinaryConstant(c[1])
    if k == "ts":
        return sp.TimestampConstant(tsor.format_us(c[1], "any"))
    if k == "set":
        return sp.ListConstant([build_const(x) for x in c[1]])
    raise KeyError(k)


def native_const(c, strings_only=False):
    """the same constant as the plain Python value the model classes document as a shorthand; KeyError where there is none"""
    import datetime as dt
    k = c[0]
    if k == "str":
        # (LIKE and MATCHES take nothing but a string: there even such text can only mean one)
        if tsor.text_us(c[1]) is not None and not strings_only:
            raise KeyError("text which reads as a timestamp stands for a timestamp constant")
        return c[1]
    if k == "int":
        return c[1]
    if k == "float":
        return float(c[1])
    if k == "bool":
        return c[1]
    if k == "ts":
        return dt.datetime(1, 1, 1, tzinfo=dt.timezone.utc) + dt.timedelta(microseconds=c[1])
    if k == "set":
        return [native_const(x) for x in c[1]]
    raise KeyError("no plain Python value stands for a %s constant" % k)


def path_text(p):
    """the path in the text form the comparison classes accept instead of an ObjectPath; KeyError when a step needs quoting"""
    t, steps = p
    out = ""
    for j, s in enumerate(steps):
        if s[0] == "i":
            out += "[%s]" % s[1]
        else:
            if P.needs_quote(s[1]) or not s[1].isascii() or "." in s[1] or "[" in s[1]:
                raise KeyError("step needs quoting")
            out += ("." if j else "") + s[1]
    return t + ":" + out


def build_path(p):
    import stix2.patterns as sp
    t, steps = p
    comps = []
    i = 0
    while i < len(steps):
        s = steps[i]
        nxt = steps[i + 1] if i + 1 < len(steps) else None
        if nxt is not None and nxt[0] == "i":
            comps.append(sp.ListObjectPathComponent(s[1], nxt[1]))
            i += 2
        elif s[1].endswith("_ref"):
            comps.append(sp.ReferenceObjectPathComponent(s[1]))
            i += 1
        else:
            comps.append(sp.BasicObjectPathComponent(s[1], i > 0))
            i += 1
    return sp.ObjectPath(t, comps)


CLS = {"=": "EqualityComparisonExpression", "<": "LessThanComparisonExpression", ">": "GreaterThanComparisonExpression",
       "<=": "LessThanEqualComparisonExpression", ">=": "GreaterThanEqualComparisonExpression", "IN": "InComparisonExpression",
       "LIKE": "LikeComparisonExpression", "MATCHES": "MatchesComparisonExpression", "ISSUBSET": "IsSubsetComparisonExpression",
       "ISSUPERSET": "IsSupersetComparisonExpression"}


def build(e, parent_prec=0, shorthand=None):
    """model objects for an own tree; grouping is expressed with ParentheticalExpression where precedence needs it.
    shorthand: a random source -- constants, paths and qualifier arguments are then given, where possible, in the plain Python forms
    the model classes accept in place of their own objects (str / int / float / bool / list / datetime values, 'type:path' text)"""
    import stix2.patterns as sp
    k = e[0]
    if k == "cmp":
        _, path, op, neg, c = e
        if op in ("!=", "<>"):
            op, neg = "=", not neg
        lhs, rhs = build_path(path), build_const(c)
        if shorthand is not None:
            if shorthand.random() < 0.7:
                try:
                    rhs = native_const(c, strings_only=op in ("LIKE", "MATCHES"))
                except KeyError:
                    pass
            if shorthand.random() < 0.5:
                try:
                    lhs = path_text(path)
                except KeyError:
                    pass
        node = getattr(sp, CLS[op])(lhs, rhs, neg)
    elif k == "exists":
        raise KeyError("EXISTS has no model class")
    elif k in ("and", "or"):
        node = (sp.AndBooleanExpression if k == "and" else sp.OrBooleanExpression)([build(x, P.PREC[k], shorthand) for x in e[1]])
    elif k == "obs":
        node = sp.ObservationExpression(build(e[1], 0, shorthand))
    elif k in ("oand", "oor", "ofb"):
        cls = {"oand": sp.AndObservationExpression, "oor": sp.OrObservationExpression, "ofb": sp.FollowedByObservationExpression}[k]
        node = cls([build(x, P.PREC[k], shorthand) for x in e[1]])
    elif k == "qual":
        q = e[2]
        if q[0] == "repeats":
            qual = sp.RepeatQualifier(q[1])
        elif q[0] == "within":
            if float(q[1]) != int(q[1]):
                if shorthand is None:
                    raise KeyError("WithinQualifier takes whole seconds only")
                qual = sp.WithinQualifier(float(q[1]))
            else:
                qual = sp.WithinQualifier(int(q[1]) if shorthand is None or shorthand.random() < 0.5 else sp.IntegerConstant(int(q[1])))
        elif shorthand is not None and shorthand.random() < 0.6:
            import datetime as dt
            mk = lambda us: dt.datetime(1, 1, 1, tzinfo=dt.timezone.utc) + dt.timedelta(microseconds=us)     # noqa: E731
            qual = sp.StartStopQualifier(mk(q[1]), mk(q[2]))
        else:
            qual = sp.StartStopQualifier(sp.TimestampConstant(tsor.format_us(q[1], "any")), sp.TimestampConstant(tsor.format_us(q[2], "any")))
        node = sp.QualifiedObservationExpression(build(e[1], 4, shorthand), qual)
    else:
        raise KeyError(k)
    if P.PREC[k] < parent_prec:
        return sp.ParentheticalExpression(node)
    return node


def wl_patterns(ctx, rng, i):
    ast = P.gen_pattern(rng)
    if i % 40 == 7:
        # comparisons on different object types joined by AND in one observation: valid text (it can never match), see DESIGN 7.2
        mk = lambda t: (lambda c: ("cmp", (t, c[1][1])) + tuple(c[2:]))(P.gen_cmp(rng, exists_ok=False))    # noqa: E731
        ast = ("obs", ("and", [mk("file"), mk("process")]))
        ctx.count("cross_type_and_patterns")
    if i % 40 in (11, 31):
        # the string-only operators with a string that reads as something else (a timestamp, a number, a boolean)
        c0 = P.gen_cmp(rng, exists_ok=False)
        ast = ("obs", ("cmp", c0[1], "LIKE" if i % 40 == 11 else "MATCHES", rng.random() < 0.3, ("str", rng.choice(["2020-01-01T00:00:00Z", "2016-06-01T12:30:45.5Z", "1", "true", "1.5"]))))
        ctx.count("string_only_operator_patterns")
    text = P.to_text(ast, rng)
    errs = validate_text(text)
    if errs is None or errs:
        ctx.skip("generator produced text the validator rejects or crashes on")
        ctx.count("generator_errors")
        return
    try:
        norm = P.normalize(ast)
        if P.normalize(P.read(text)) != norm:
            raise ValueError("reader disagrees")
    except Exception:
        ctx.skip("generator/reader self-check failed")
        ctx.count("generator_errors")
        return
    feats = set()
    features(ast, feats)
    for f in feats:
        ctx.count("feature:" + f)
    w = {"tree": P.jsonable(norm)}
    if i % 4 == 1:
        # history: calls that ask for the caller's own node classes (module_suffix / module_name) -- one that succeeds, one whose
        # pattern the model refuses, one whose text does not parse -- come before the ordinary call; the overrides end with the call
        from stix2.pattern_visitor import create_pattern_object as _cpo
        for otext in rng.choice([(text, "[file:name = 'a.exe' AND file:size > 5]", "[file:name = ", "[file:name = 'a.exe' AND process:pid = 4]"),
                                 ("[file:name = 'a.exe' AND file:size > 5]", text, "[file:name = t'2020-02-30T00:00:00Z']"),
                                 ("[file:name = 'a.exe' AND process:pid = 4]", "[file:name = 'a.exe' AND file:size > 5]")]):
            for over_ver in ("2.1", "2.0"):
                try:
                    with warnings.catch_warnings():
                        warnings.simplefilter("ignore")
                        _cpo(otext, "Stixmon", "stixmon.pattern_overrides", version=over_ver)
                except Exception:
                    ctx.count("override_calls_refused")
        ctx.count("override_histories")
    printed = judge_text(ctx, text, norm, "2.1", "text", w)
    if len(feats) > 3:
        ctx.nontrivial(P.jsonable(norm))
    # histories: the same text is used for an equivalence check (which normalises the trees it builds) and is then
    # converted again -- earlier uses of a pattern text must not leak into a later parse-and-print
    if i % 3 == 0 and not has_exists(norm):
        try:
            from stix2.equivalence.pattern import equivalent_patterns, find_equivalent_patterns
            with warnings.catch_warnings():
                warnings.simplefilter("ignore")
                equivalent_patterns(text, text)
                if printed:
                    list(find_equivalent_patterns(printed, [text, printed]))
            ctx.count("equivalence_interleavings")
        except Exception:
            pass
        judge_text(ctx, text, norm, "2.1", "text-after-equivalence-check", w)
        if printed:
            judge_text(ctx, printed, norm, "2.1", "printed-text-after-equivalence-check", w)
    # programmatic assembly
    try:
        if has_consecutive_indices(norm):
            raise KeyError("consecutive index steps have no model class (recorded finding)")
        with warnings.catch_warnings():
            warnings.simplefilter("ignore")
            model = build(ast)
        ptxt = str(model)
    except KeyError as e:
        ctx.skip("not expressible with the model classes: %s" % e)
        model = None
    except Exception as e:
        ctx.ev()
        ctx.violation("cross-type-and-refused" if isinstance(e, ValueError) and "satisfiable with the same object type" in str(e) else "assembly-raised:" + type(e).__name__, "assembling the pattern from the public model classes raised %s: %s" % (type(e).__name__, str(e)[:120]),
                      dict(w, canonical_text=P.to_text(ast), exception=repr(e)[:300]))
        model = None
    if model is not None:
        ctx.count("assembled")
        judge_printed(ctx, ptxt, norm, "2.1", "assembled", dict(w, canonical_text=P.to_text(ast)))
        # ... and once more with the plain Python shorthands the classes accept for constants, paths and qualifier arguments
        try:
            with warnings.catch_warnings():
                warnings.simplefilter("ignore")
                stxt = str(build(ast, 0, rng))
            ctx.count("assembled_with_shorthands")
            judge_printed(ctx, stxt, norm, "2.1", "assembled-with-shorthands", dict(w, canonical_text=P.to_text(ast)))
        except KeyError:
            pass
        except Exception as e:
            ctx.ev()
            ctx.violation("assembly-raised:shorthand:" + type(e).__name__, "assembling the pattern with plain Python values raised %s: %s" % (type(e).__name__, str(e)[:120]),
                          dict(w, canonical_text=P.to_text(ast), exception=repr(e)[:300]))
    if ctx.want_sample() and printed and len(feats) > 5:
        ctx.sample({"source": text, "printed": printed, "assembled_prints": None if model is None else ptxt})
    ctx.count("patterns")


def shared_sublanguage(n):
    """does the tree stay inside what the 2.0 grammar accepts as well? (no EXISTS, no t'' literals outside START/STOP ...)"""
    k = n[0]
    if k == "exists":
        return False
    if k == "cmp":
        return n[4][0] not in ("ts",) and not (n[4][0] == "set" and any(x[0] == "ts" for x in n[4][1]))
    if k in ("and", "or", "oand", "oor", "ofb"):
        return all(shared_sublanguage(x) for x in n[1])
    if k == "obs":
        return shared_sublanguage(n[1])
    if k == "qual":
        return n[2][0] != "startstop" and shared_sublanguage(n[1])
    return True


def wl_v20(ctx, rng, i):
    ast = P.gen_pattern(rng)
    if not shared_sublanguage(ast):
        return
    text = P.to_text(ast, rng)
    errs = validate_text(text, "2.0")
    if errs is None or errs:
        ctx.skip("not valid under the 2.0 grammar")
        return
    try:
        norm = P.normalize(ast)
        if P.normalize(P.read(text, "2.0")) != norm:
            raise ValueError()
    except Exception:
        ctx.skip("generator/reader self-check failed (2.0)")
        return
    judge_text(ctx, text, norm, "2.0", "text-2.0", {"tree": P.jsonable(norm)})
    ctx.count("patterns_v20")


def wl_operand_reuse(ctx, rng, i):
    """Model objects used as operands are not changed by the expressions built from them: the same comparison objects give the
    same text before and after other expressions (also refused ones) were built from them."""
    import stix2
    t1, t2 = rng.sample(["file", "process", "ipv4-addr", "x-custom", "user-account"], 2)
    mk = lambda t, k: stix2.EqualityComparisonExpression("%s:%s" % (t, rng.choice(["name", "size", "value", "x_prop"])), k)    # noqa: E731
    a, c, b = mk(t1, 1), mk(t1, 2), mk(t2, 3)
    w = {"operands": [str(a), str(c), str(b)]}
    try:
        before_and, before_or = str(stix2.AndBooleanExpression([a, c])), str(stix2.OrBooleanExpression([a, c]))
    except Exception as e:
        ctx.violation("assembly-raised:" + type(e).__name__, "same-type AND/OR raised %s" % type(e).__name__, dict(w, exception=repr(e)))
        return
    steps = []
    for _ in range(rng.choice([1, 2, 3])):
        kind = rng.choice(["and-cross-type", "or-cross-type", "and-same", "observation"])
        try:
            if kind == "and-cross-type":
                stix2.AndBooleanExpression([a, b])            # refused (recorded finding cross-type-and-refused); what matters is what it leaves behind
            elif kind == "or-cross-type":
                stix2.OrBooleanExpression([a, b])
            elif kind == "and-same":
                stix2.AndBooleanExpression([a, c, mk(t1, 4)])
            else:
                stix2.ObservationExpression(stix2.OrBooleanExpression([a, b]))
        except ValueError:
            pass
        steps.append(kind)
    ctx.ev()
    ctx.count("operand_reuse_cases")
    ctx.nontrivial("operand-reuse", tuple(steps))
    try:
        after_and, after_or = str(stix2.AndBooleanExpression([a, c])), str(stix2.OrBooleanExpression([a, c]))
    except Exception as e:
        ctx.violation("operand-changed-by-expression", "after %s, AND/OR of the same same-type operands raises %s" % (steps, type(e).__name__), dict(w, history=steps, exception=repr(e)))
        return
    if (after_and, after_or) != (before_and, before_or):
        ctx.violation("operand-changed-by-expression", "the same operands print differently after %s" % (steps,), dict(w, history=steps, before=[before_and, before_or], after=[after_and, after_or]))


def wl_model_arguments(ctx, rng, i):
    """Arguments at and beyond the edge of what the model classes can write: each is refused, or the pattern it is part of prints as valid text."""
    import stix2.patterns as sp
    path = sp.ObjectPath("file", [sp.BasicObjectPathComponent("size", False)])
    inf = float("inf")
    cases = [
        ("FloatConstant(inf)", lambda: sp.FloatConstant(inf)), ("FloatConstant(-inf)", lambda: sp.FloatConstant(-inf)), ("FloatConstant(nan)", lambda: sp.FloatConstant(float("nan"))),
        ("FloatConstant('nan')", lambda: sp.FloatConstant("nan")), ("FloatConstant(1e308)", lambda: sp.FloatConstant(1e308)), ("FloatConstant(5e-324)", lambda: sp.FloatConstant(5e-324)),
        ("FloatConstant(-0.0)", lambda: sp.FloatConstant(-0.0)), ("FloatConstant('1e5')", lambda: sp.FloatConstant("1e5")),
        ("HexConstant(newline)", lambda: sp.HexConstant("ffd8\n")), ("HexConstant(odd)", lambda: sp.HexConstant("abc")), ("HexConstant(space)", lambda: sp.HexConstant("ff d8")),
        ("HexConstant(fullwidth)", lambda: sp.HexConstant("\uff11\uff12")), ("HexConstant(empty)", lambda: sp.HexConstant("")),
        ("BinaryConstant(foreign character)", lambda: sp.BinaryConstant("AAA@A==")), ("BinaryConstant(newline)", lambda: sp.BinaryConstant("aGVsbG8=\n")),
        ("BinaryConstant(blank)", lambda: sp.BinaryConstant("aGVs bG8=")), ("BinaryConstant(no padding)", lambda: sp.BinaryConstant("aGVsbG8")), ("BinaryConstant(quote)", lambda: sp.BinaryConstant("AA'AA")),
        ("IntegerConstant(5.9)", lambda: sp.IntegerConstant(5.9)), ("IntegerConstant('7')", lambda: sp.IntegerConstant("7")), ("IntegerConstant(True)", lambda: sp.IntegerConstant(True)),
        ("IntegerConstant(inf)", lambda: sp.IntegerConstant(inf)), ("IntegerConstant(10**40)", lambda: sp.IntegerConstant(10 ** 40)),
        ("StringConstant(quote and backslash)", lambda: sp.StringConstant("a'b\\c\\'")), ("StringConstant(newline)", lambda: sp.StringConstant("a\nb")), ("StringConstant(NUL)", lambda: sp.StringConstant("a\x00b")),
        ("TimestampConstant(newline)", lambda: sp.TimestampConstant("2020-01-01T00:00:00Z\n")), ("TimestampConstant(offset)", lambda: sp.TimestampConstant("2020-01-01T00:00:00+01:00")),
        ("TimestampConstant(date)", lambda: sp.TimestampConstant("2020-01-01")), ("BooleanConstant('maybe')", lambda: sp.BooleanConstant("maybe")), ("BooleanConstant(2)", lambda: sp.BooleanConstant(2)),
        ("ListConstant(empty)", lambda: sp.ListConstant([])), ("ListConstant(nested)", lambda: sp.ListConstant([[1, 2], 3])), ("ListConstant(mixed)", lambda: sp.ListConstant([1, "a", 2.5, True])),
    ]
    quals = [("RepeatQualifier(-1)", lambda: sp.RepeatQualifier(-1)), ("RepeatQualifier(0)", lambda: sp.RepeatQualifier(0)), ("RepeatQualifier(2.0)", lambda: sp.RepeatQualifier(2.0)),
             ("RepeatQualifier(True)", lambda: sp.RepeatQualifier(True)), ("RepeatQualifier(10**30)", lambda: sp.RepeatQualifier(10 ** 30)),
             ("WithinQualifier(-1.5)", lambda: sp.WithinQualifier(-1.5)), ("WithinQualifier(-1)", lambda: sp.WithinQualifier(-1)), ("WithinQualifier(0)", lambda: sp.WithinQualifier(0)),
             ("WithinQualifier(inf)", lambda: sp.WithinQualifier(inf)), ("WithinQualifier(1e20)", lambda: sp.WithinQualifier(1e20)), ("WithinQualifier(1e-7)", lambda: sp.WithinQualifier(1e-7)),
             # (string operands of START / STOP are the STIX 2.0 form of the qualifier and are not judged by the 2.1 grammar used here)
             ("StartStopQualifier(stop before start)", lambda: sp.StartStopQualifier(sp.TimestampConstant("2020-01-02T00:00:00Z"), sp.TimestampConstant("2020-01-01T00:00:00Z")))]
    allc = [("constant", n, f) for n, f in cases] + [("qualifier", n, f) for n, f in quals]
    if i >= len(allc):
        return
    kind, name, fn = allc[i]
    ctx.ev()
    ctx.count("model_arguments")
    ctx.nontrivial("model-argument", name)
    try:
        with warnings.catch_warnings():
            warnings.simplefilter("ignore")
            part = fn()
            if kind == "constant":
                op = sp.InComparisonExpression if isinstance(part, sp.ListConstant) else sp.EqualityComparisonExpression
                text = str(sp.ObservationExpression(op(path, part)))
            else:
                text = str(sp.QualifiedObservationExpression(sp.ObservationExpression(sp.EqualityComparisonExpression(path, sp.IntegerConstant(1))), part))
    except (ValueError, TypeError, OverflowError):
        ctx.count("model_arguments_refused")
        return
    except Exception as e:
        ctx.violation("assembly-raised:" + type(e).__name__, "%s raised %s: %s" % (name, type(e).__name__, str(e)[:120]), {"argument": name, "exception": repr(e)[:300]})
        return
    errs = validate_text(text)
    ctx.count("model_arguments_printed")
    if errs:
        ctx.violation("printed-invalid:unvalidated-model-argument", "%s was accepted and prints %r, which is not a valid pattern: %s" % (name, text[:120], errs[0][:100]),
                      {"argument": name, "printed": text, "validator_error": errs[0][:300]})


# pure by their documentation: a sample of the calls is repeated in a fresh interpreter, in reverse order (stixmon/echo.py)
ECHO = ['stix2.pattern_visitor:create_pattern_object']
WORKLOADS = [
    Workload("model-arguments", wl_model_arguments, quick=46, thorough=46),
    Workload("operand-reuse", wl_operand_reuse, quick=60, thorough=3000),
    Workload("patterns", wl_patterns, quick=1500, thorough=200000),
    Workload("grammar20", wl_v20, quick=300, thorough=40000),
]

NEEDED = ["op:%s%s" % (op, n) for op in P.CMP_OPS for n in ("", ":NOT")] + \
    ["const:" + k for k in ("str", "int", "float", "bool", "hex", "bin", "ts", "set", "str-with-escape")] + \
    ["step:index", "step:star", "step:ref", "step:quoted", "qual:repeats", "qual:within", "qual:startstop", "bool:and", "bool:or", "bool:oand", "bool:oor", "bool:ofb"]


def floors(m, tier):
    c = m["counters"]
    out = []
    if c.get("patterns", 0) < 1000:
        out.append("fewer than 1000 patterns judged")
    if c.get("equivalence_interleavings", 0) < 200:
        out.append("fewer than 200 conversions repeated after an equivalence check")
    if c.get("assembled", 0) < 500:
        out.append("fewer than 500 patterns assembled from the model classes")
    low = [f for f in NEEDED if c.get("feature:" + f, 0) < 20]
    if low:
        out.append("features observed fewer than 20 times: %s" % ", ".join(low[:8]))
    if c.get("generator_errors", 0) > 0.1 * max(1, c.get("patterns", 0)):
        out.append("too many generator errors")
    return out


MANIFEST = {
    "text": ("Patterns are generated from an own syntax tree covering the whole 2.1 grammar, printed with random but legal "
             "whitespace and parenthesisation, pushed through create_pattern_object and str(), and the result is validated by the "
             "third-party grammar and read back into the own tree by an independent walker for structural comparison; the same "
             "trees are also assembled from the public model classes.  Exploration over 10^3 (quick) / 10^5 (thorough) patterns with "
             "per-feature observation floors. Echo monitor: a sample of the parse-and-print calls is repeated in a fresh interpreter in reverse order and must answer alike; override-module histories precede a quarter of the cases."),
    "note": "trusts stixmon/oracles/pattern_ast.py (generator/reader self-checked on every case) and the third-party stix2patterns validator",
    "technique": "runtime monitoring: independent syntax-tree oracle on parse/print events (differential against an own ANTLR-tree reader); echo monitor (pure calls repeated in a fresh interpreter)",
}
