"""C13 -- library operations never modify their arguments or existing objects.

Events: deep snapshots of every argument and of every live object of the history taken before and after each public
call (construct, parse, copy, version, mark, bundle, store add/query, serialize, canonicalize, factory).
Oracle: snapshots identical; attribute/item assignment and deletion refused; a deep copy is equal to its original and
shares no mutable container with it.
"""
import collections
import copy
import datetime as dt
import json
import shutil
import tempfile
import warnings
from collections.abc import Mapping

from ..clock import FakeClock
from ..ctx import Workload
from ..gen import custom as gcustom
from ..gen import native
from ..gen import values as V
from ..gen.objects import ObjGen
from ..oracles import paths as pathor
from ..oracles import validator
from ..spec import model as M
from .c02 import BASES, TYPES, cls_for, make_base

ID = "C13"
LEVEL = "exploration"
SHARDS = {"quick": 4, "thorough": 16}
RULE = ("for generated objects of every type (maximal/random profiles; nested extensions, observed-data members, granular "
        "markings, embedded objects) a scripted sequence of ~40 public operations is run on the *same* inputs -- constructors from "
        "nested kwargs, parse/parse_observable of dicts, deepcopy, serialize with several option sets, new_version/revoke with nested "
        "change sets, all marking functions with list arguments, Bundle construction sharing members, memory/filesystem store "
        "add/query, canonicalize, ObjectFactory -- with deep snapshots of every argument and every previously created object before "
        "and after each call.  Non-trivial: every guarded call with a nested argument; distinct = distinct (type, operation, argument kind)")
ASSUMPTIONS = [
    "value identity is judged on a deep structural snapshot (mapping items, list elements, scalar types and values, timestamp precision metadata)",
    "an operation that raises must leave its arguments unchanged as well",
]


def family():
    from stix2.exceptions import STIXError
    return (STIXError, ValueError, TypeError, AttributeError, KeyError)


def snap(x, depth=0):
    """Deep structural snapshot; objects are walked through the Mapping interface."""
    if depth > 60:
        return "<deep>"
    if isinstance(x, Mapping):
        return ("M", type(x).__name__, tuple(sorted(((str(k), snap(v, depth + 1)) for k, v in x.items()), key=lambda kv: kv[0])),
                tuple(str(k) for k in x.keys()))
    if isinstance(x, (list, tuple)):
        return ("L", type(x).__name__, tuple(snap(v, depth + 1) for v in x))
    if type(x).__name__ == "FilterSet" and hasattr(x, "__iter__"):
        return ("FS", tuple(snap(tuple(f), depth + 1) for f in x))
    if isinstance(x, (dt.datetime, dt.date)):
        return ("T", x.isoformat(), str(getattr(x, "precision", None)), str(getattr(x, "precision_constraint", None)))
    if isinstance(x, float) and x != x:
        return ("F", "nan")
    if isinstance(x, (str, int, float, bool, type(None), bytes)):
        return (type(x).__name__, x)
    return ("O", type(x).__name__, repr(x)[:200])


def containers(x, acc, depth=0):
    """ids of mutable containers reachable through the Mapping interface"""
    if depth > 60:
        return
    if isinstance(x, Mapping):
        acc.add(id(x))
        inner = getattr(x, "_inner", None)
        if inner is not None:
            acc.add(id(inner))
        for v in x.values():
            containers(v, acc, depth + 1)
    elif isinstance(x, list):
        acc.add(id(x))
        for v in x:
            containers(v, acc, depth + 1)
    elif getattr(x, "__dict__", None):
        # a leaf that carries assignable attributes (the library's timestamp class and its precision metadata) is mutable state
        acc.add(id(x))


class _CallersDict(dict):
    """a mapping type of the caller's own"""


class Guard:
    def __init__(self, ctx, case):
        self.ctx = ctx
        self.case = case
        self.live = []      # (label, object) of everything created so far

    def watch(self, label, obj):
        self.live.append((label, obj))

    def call(self, op, fn, **args):
        """Run fn(); args are the named arguments to snapshot.  Returns the result or None if it raised."""
        ctx = self.ctx
        before = {k: snap(v) for k, v in args.items()}
        live_before = [(lab, snap(o)) for lab, o in self.live]
        res = None
        raised = None
        try:
            with warnings.catch_warnings():
                warnings.simplefilter("ignore")
                res = fn()
        except Exception as e:      # which exception is C17's business; here only the arguments matter
            raised = e
        ctx.ev()
        ctx.count("guarded_calls")
        ctx.count("family:" + op.split(":")[0])
        ctx.see("operations", op)
        for k, v in args.items():
            if snap(v) != before[k]:
                ctx.violation("argument-modified:%s:%s" % (op, k), "%s modified its argument %r%s" % (op, k, " (while raising %s)" % type(raised).__name__ if raised else ""),
                              dict(self.case, operation=op, argument=k, before=_show(before[k]), after=_show(snap(v))))
        for (lab, o), (_, b) in zip(self.live, live_before):
            if snap(o) != b:
                ctx.violation("existing-object-modified:%s" % op, "%s modified the previously created %s" % (op, lab),
                              dict(self.case, operation=op, object=lab, before=_show(b), after=_show(snap(o))))
        if any(isinstance(v, (dict, list)) and v for v in args.values()):
            ctx.nontrivial(self.case.get("type"), op, sorted(args))
        return res


def _show(s):
    r = repr(s)
    return r if len(r) < 1500 else r[:1500] + "..."


def setup(ctx):
    gcustom.ensure_registered()
    clk = FakeClock()
    clk.install()
    ctx.state["clock"] = clk


def teardown(ctx):
    ctx.state["clock"].uninstall()


def refusal(ctx, label, fn, case):
    ctx.ev()
    ctx.count("mutation_attempts")
    try:
        fn()
    except Exception:
        return True
    ctx.violation("mutation-not-refused:" + label, "%s was not refused" % label, case)
    return False


def wl_sequence(ctx, rng, i):
    import stix2
    import stix2.markings as mk
    import stix2.versioning
    from stix2.canonicalization.Canonicalize import canonicalize
    ver, bname = BASES[i % len(BASES)]
    rnd = i // len(BASES)
    g = ObjGen(rng, ver, hostile=(rnd % 3 == 0), ts_max_digits=6, openvocab_custom=False, year_range=(2001, 2030))
    t, o = make_base(g, ver, bname, "max" if rnd % 2 == 0 else "random")
    if validator.validate(o, ver):
        ctx.skip("generator error")
        return
    ctx.state["clock"].set(None)
    case = {"version": ver, "type": t}
    G = Guard(ctx, case)
    tmp = tempfile.mkdtemp(prefix="stixmon-c13-")
    try:
        d = json.loads(json.dumps(o))
        # parse of a dict, twice on the same input
        obj = G.call("parse:dict", lambda: stix2.parse(d, allow_custom=True), data=d)
        if obj is None or isinstance(obj, dict):
            ctx.skip("base refused or kept as dict")
            return
        G.watch("parsed object", obj)
        obj_again = G.call("parse:dict-again", lambda: stix2.parse(d, allow_custom=True, version=ver), data=d)
        G.call("parse:text", lambda: stix2.parse(json.dumps(d), allow_custom=True))
        cls = cls_for(ver, t)
        # the same content in mappings which are not exactly dict (json.load(..., object_pairs_hook=OrderedDict) is the everyday
        # source of them): they are the caller's as much as a plain dictionary is
        for mlabel, hook in (("OrderedDict", collections.OrderedDict), ("dict-subclass", _CallersDict)):
            od = json.loads(json.dumps(o), object_pairs_hook=hook)
            G.call("parse:%s" % mlabel, lambda: stix2.parse(od, allow_custom=True), data=od)
            G.call("parse:%s-again" % mlabel, lambda: stix2.parse(od, allow_custom=True, version=ver), data=od)
            G.call("construct:%s-kwargs" % mlabel, lambda: cls(allow_custom=True, **od), kwargs=od)
            if t != "bundle":
                G.call("bundle:of-%s" % mlabel, lambda: (stix2.v20 if ver == "2.0" else stix2.v21).Bundle(od, allow_custom=True), data=od)
                G.call("store:MemoryStore(%s)" % mlabel, lambda: stix2.MemoryStore([od], allow_custom=True), data=od)
            ctx.count("dict_subclass_inputs")
        # constructor from nested native kwargs (same kwargs dict reused twice)
        kw = native.to_native(ver, d, rng)
        made = G.call("construct:kwargs", lambda: cls(allow_custom=True, **kw), kwargs=kw)
        G.call("construct:kwargs-again", lambda: cls(allow_custom=True, **kw), kwargs=kw)
        if made is not None:
            G.watch("constructed object", made)
        # embedded library objects passed as arguments are not changed either
        if t != "bundle" and "external_references" in d and ver in ("2.0", "2.1"):
            ER = (stix2.v20 if ver == "2.0" else stix2.v21).ExternalReference
            ers = [ER(**e) for e in d["external_references"]]
            kw2 = dict(kw, external_references=ers)
            G.call("construct:with-embedded-objects", lambda: cls(allow_custom=True, **kw2), kwargs=kw2, embedded=ers)
        # types declared with extension_name=: their own extension entry joins the extensions the caller gives -- in the object, not in
        # the caller's dictionary
        if ver == "2.1" and rnd % 2 == 0 and t in ("identity", "file", "campaign", "domain-name"):
            from ..gen import custom as gcustom
            reg = gcustom.ensure_registered()
            other_ext = {"extension-definition--5b3b0b3c-0a4e-4f0f-9c57-0d7f7a1b2cfd": {"extension_type": "property-extension", "rank": 1, "notes": ["a", {"k": "v"}]}}
            for label, ocls, okw in (("gadget", reg[("2.1", "gadget")], {"name": "g", "extensions": other_ext}), ("probe", reg[("2.1", "probe")], {"address": "a", "extensions": other_ext})):
                made_own = G.call("construct:own-extension-type(%s)" % label, lambda: ocls(**okw), kwargs=okw)
                content = dict(json.loads(made_own.serialize()), extensions=json.loads(json.dumps(other_ext))) if made_own is not None else None
                if content is not None:
                    G.call("parse:own-extension-type(%s)" % label, lambda: stix2.parse(content), data=content)
                    if label == "gadget":
                        newext = json.loads(json.dumps(other_ext))
                        G.call("version:new_version(extensions=...) of own-extension-type", lambda: made_own.new_version(extensions=newext), changes=newext)
        # history: an observed-data object whose content is (rightly) refused -- a reference to a member that is not there -- comes
        # before the observables are parsed on their own; what the refusal interrupted must not be found lying about afterwards
        if rnd % 2 == 0:
            bad_od = {"type": "observed-data", "id": "observed-data--" + V.uuid_text(rng, 4), "created": "2020-01-01T00:00:00.000Z", "modified": "2020-01-01T00:00:00.000Z",
                      "first_observed": "2020-01-01T00:00:00Z", "last_observed": "2020-01-01T00:00:00Z", "number_observed": 1,
                      "objects": {"0": {"type": "directory", "path": "/", "contains_refs": ["5"]}, "1": {"type": "file", "name": "f", rng.choice(["x_unknown", "size"]): "junk"}}}
            G.call("parse:refused-observed-data", lambda: stix2.parse(bad_od, version="2.0"), data=bad_od)
            loose = {"type": rng.choice(["file", "x-stixmon-unregistered-observable"]), "name": "loose"}
            G.call("parse_observable:dict-after-a-refused-container", lambda: stix2.parse_observable(loose, allow_custom=True, version="2.0"), data=loose)
            back = G.call("parse_observable:dict-after-a-refused-container", lambda: stix2.parse_observable(loose, allow_custom=True, version="2.0"), data=loose)
            if back is loose:
                pass        # (an unregistered type kept as given is the library's documented pass-through)
            ctx.count("parse_observable_after_refused_container")
        # observables
        if t == "observed-data" and isinstance(d.get("objects"), dict):
            for k, sco in d["objects"].items():
                refs = {kk: vv["type"] for kk, vv in d["objects"].items()}
                G.call("parse_observable:dict", lambda: stix2.parse_observable(sco, refs, allow_custom=True, version=ver), data=sco, valid_refs=refs)
        if M.model(ver).types[t]["cat"] == "sco" and ver == "2.1":
            G.call("parse_observable:dict", lambda: stix2.parse_observable(d, [], allow_custom=True), data=d)
        # serialisation in several option sets
        for kwopt in ({}, {"pretty": True}, {"include_optional_defaults": True, "sort_keys": True}, {"indent": 2, "ensure_ascii": False}):
            G.call("serialize:%s" % ",".join(sorted(kwopt)), lambda: obj.serialize(**kwopt), options=kwopt)
        G.call("serialize:str", lambda: str(obj))
        # deep copy
        cp = G.call("copy:deepcopy", lambda: copy.deepcopy(obj))
        ctx.ev()
        if cp is not None:
            if cp != obj or snap(json.loads(cp.serialize())) != snap(json.loads(obj.serialize())):
                ctx.violation("deepcopy-not-equal", "deepcopy(obj) != obj", dict(case, original=obj.serialize()[:1500], copy=cp.serialize()[:1500]))
            a, b = set(), set()
            containers(obj, a)
            containers(cp, b)
            if a & b:
                ctx.violation("deepcopy-shares-state", "a deep copy shares %d mutable container(s) with its original" % len(a & b), dict(case, object=obj.serialize()[:1500]))
            ctx.count("deepcopies")
            G.watch("deep copy", cp)
        G.call("copy:copy", lambda: copy.copy(obj))
        # another object of the same class, id and modified time but other content (the same version read from another source, two
        # observables agreeing on what their id is made of), copied while the first copy is still around: its copy is ITS copy
        if cp is not None:
            dv = json.loads(json.dumps(d))
            for k_ in ("name", "description", "value", "path", "key", "subject", "display_name", "pattern", "relationship_type", "opinion", "abstract", "content", "x_variant"):
                if isinstance(dv.get(k_), str) and k_ not in ("pattern", "relationship_type", "opinion"):
                    dv[k_] = dv[k_] + " (variant)"
                    break
            else:
                dv["x_variant"] = "only in the variant"
            try:
                with warnings.catch_warnings():
                    warnings.simplefilter("ignore")
                    variant = stix2.parse(dv, allow_custom=True, version=ver)
            except Exception:
                variant = None
            if variant is not None and not isinstance(variant, dict) and variant.get("id") == obj.get("id"):
                cpv = G.call("copy:deepcopy(variant with the same id and modified)", lambda: copy.deepcopy(variant))
                ctx.ev()
                ctx.count("variant_deepcopies")
                if cpv is not None and (cpv != variant or snap(json.loads(cpv.serialize())) != snap(json.loads(variant.serialize()))):
                    ctx.violation("deepcopy-not-equal:after-copying-another-object-of-the-same-version", "deepcopy of an object gave the content of another object with the same id and modified that was copied before",
                                  dict(case, original=variant.serialize()[:1200], copy=cpv.serialize()[:1200]))
        holder = {"values": [v for v in obj.values() if getattr(v, "__dict__", None)][:3]}
        if holder["values"]:
            hc = copy.deepcopy(holder)
            ctx.ev()
            if any(x is y for x, y in zip(hc["values"], holder["values"])):
                ctx.violation("deepcopy-shares-state", "a deep copy of a dictionary holding the object's timestamp values shares them with the original", dict(case, values=[repr(v) for v in holder["values"]]))
            if [(v, getattr(v, "precision", None), getattr(v, "precision_constraint", None)) for v in hc["values"]] != \
                    [(v, getattr(v, "precision", None), getattr(v, "precision_constraint", None)) for v in holder["values"]]:
                ctx.violation("deepcopy-not-equal", "a deep copy of the object's timestamp values lost their precision metadata", dict(case, values=[repr(v) for v in holder["values"]]))
        # direct mutation attempts
        some = next(iter(k for k in obj if k not in ("type",)), "id")
        refusal(ctx, "attribute-assignment", lambda: setattr(obj, some, "x"), case)
        refusal(ctx, "new-attribute-assignment", lambda: setattr(obj, "brand_new", 1), case)
        refusal(ctx, "item-assignment", lambda: obj.__setitem__(some, "x"), case)
        refusal(ctx, "item-deletion", lambda: obj.__delitem__(some), case)
        refusal(ctx, "attribute-deletion", lambda: delattr(obj, some), case)
        ctx.ev()
        if snap(obj) != G.live[0][1] and False:
            pass
        # versioning with nested change sets (same change dict reused)
        m = M.model(ver)
        if m.versionable(t) and not d.get("revoked"):
            ctx.state["clock"].set(None)
            changes = {"labels": ["malicious-activity"] if t in ("indicator",) and ver == "2.0" else ["l1", "l2"],
                       "external_references": [{"source_name": "nv", "external_id": "x", "hashes": {"MD5": V.hash_value(rng, "MD5")}}]}
            if ver == "2.0" and t in ("malware", "tool", "threat-actor", "report", "indicator"):
                changes.pop("labels")
            nv = G.call("version:new_version", lambda: obj.new_version(**changes), changes=changes)
            if nv is not None:
                G.watch("new version", nv)
            G.call("version:new_version-again", lambda: obj.new_version(**changes), changes=changes)
            G.call("version:new_version(dict)", lambda: stix2.versioning.new_version(d, **changes), data=d, changes=changes)
            G.call("version:revoke", lambda: obj.revoke())
            G.call("version:revoke(dict)", lambda: stix2.versioning.revoke(d), data=d)
            G.call("version:remove_custom_stix", lambda: stix2.versioning.remove_custom_stix(obj))
        # markings
        if m.can_carry_granular(t) and t != "bundle":
            sels = [s for s, segs, v in pathor.selectors(d) if len(segs) == 1 and isinstance(v, str) and v and segs[0] != "granular_markings"][:3]
            marks = [M.TLP["green"], "marking-definition--" + V.uuid_text(rng, 4)]
            for target, tlabel in ((obj, "object"), (d, "dict")):
                if sels:
                    r = G.call("mark:add_markings(granular,%s)" % tlabel, lambda: mk.add_markings(target, marks, sels), target=target, markings=marks, selectors=sels)
                    if r is not None and not isinstance(r, dict):
                        G.watch("marked " + tlabel, r)
                    if r is not None:
                        G.call("mark:remove_markings(granular,%s)" % tlabel, lambda: mk.remove_markings(r, marks[:1], sels[:1]), target=r, markings=marks, selectors=sels)
                        G.call("mark:clear_markings(granular,%s)" % tlabel, lambda: mk.clear_markings(r, sels[:1]), target=r, selectors=sels)
                        G.call("mark:set_markings(granular,%s)" % tlabel, lambda: mk.set_markings(r, marks[1:], sels[:1]), target=r, markings=marks, selectors=sels)
                        G.call("mark:get_markings(%s)" % tlabel, lambda: mk.get_markings(r, sels, inherited=True, descendants=True), target=r, selectors=sels)
                        G.call("mark:is_marked(%s)" % tlabel, lambda: mk.is_marked(r, marks, sels), target=r, markings=marks, selectors=sels)
                G.call("mark:add_markings(object-level,%s)" % tlabel, lambda: mk.add_markings(target, marks), target=target, markings=marks)
                G.call("mark:set_markings(object-level,%s)" % tlabel, lambda: mk.set_markings(target, marks), target=target, markings=marks)
                G.call("mark:clear_markings(object-level,%s)" % tlabel, lambda: mk.clear_markings(target), target=target)
        # bundles sharing members
        if t != "bundle" and not (M.model(ver).types[t]["cat"] == "sco" and ver == "2.0"):
            B = (stix2.v20 if ver == "2.0" else stix2.v21).Bundle
            members = [obj, d]
            b1 = G.call("bundle:list", lambda: B(members, allow_custom=True), members=members)
            b2 = G.call("bundle:objects-kwarg", lambda: B(objects=members, allow_custom=True), members=members)
            G.call("bundle:positional", lambda: B(obj, d, allow_custom=True), data=d)
            extra = json.loads(json.dumps(d))
            lst2, lst3, empty = [obj, d], [d], []
            G.call("bundle:list-then-object", lambda: B(lst2, extra, allow_custom=True), members=lst2, extra=extra)
            G.call("bundle:list-then-object-again", lambda: B(lst2, extra, allow_custom=True), members=lst2, extra=extra)
            G.call("bundle:empty-list-then-object", lambda: B(empty, extra, allow_custom=True), members=empty, extra=extra)
            G.call("bundle:object-then-list", lambda: B(extra, lst3, allow_custom=True), members=lst3, extra=extra)
            G.call("bundle:list-then-list", lambda: B(lst2, lst3, allow_custom=True), members=lst2, more=lst3)
            G.call("bundle:list-plus-objects-kwarg", lambda: B(lst2, objects=lst3, allow_custom=True), members=lst2, objects=lst3)
            if b1 is not None:
                G.watch("bundle", b1)
                G.call("serialize:bundle", lambda: b1.serialize(pretty=True))
                G.call("parse:bundle-text", lambda: stix2.parse(b1.serialize(), allow_custom=True))
            # stores
            mem = stix2.MemoryStore()
            lst = [d, obj]
            G.call("store:MemoryStore.add(list)", lambda: mem.add(lst), data=lst)
            if b1 is not None:
                G.call("store:MemoryStore.add(bundle)", lambda: mem.add(b1))
            bd = {"type": "bundle", "id": "bundle--" + V.uuid_text(rng, 4), "objects": [json.loads(json.dumps(d))]}
            if ver == "2.0":
                bd["spec_version"] = "2.0"
            G.call("store:MemoryStore.add(bundle-dict)", lambda: mem.add(bd), data=bd)
            G.call("store:MemoryStore(stix_data)", lambda: stix2.MemoryStore(stix_data=lst), data=lst)
            got = G.call("store:MemoryStore.query", lambda: mem.query())
            if got:
                G.watch("stored object", got[0])
            G.call("store:MemoryStore.get", lambda: mem.get(d["id"]))
            G.call("store:MemoryStore.save_to_file", lambda: mem.save_to_file(tmp + "/saved.json"))
            fs = stix2.FileSystemStore(tempfile.mkdtemp(dir=tmp), allow_custom=True)
            G.call("store:FileSystemStore.add(dict)", lambda: fs.add(d), data=d)
            G.call("store:FileSystemStore.query", lambda: fs.query([stix2.Filter("type", "=", t)]))
            fs2 = stix2.FileSystemStore(tempfile.mkdtemp(dir=tmp), allow_custom=True)
            G.call("store:FileSystemStore.add(list)", lambda: fs2.add(lst), data=lst)
            # the caller's query objects (a list of filters, a FilterSet, one filter) asked of sources which have filters of their own
            # attached, alone and behind a composite, several times over
            from stix2.datastore.filters import FilterSet
            own = stix2.Filter("created", ">", "1970-01-01T00:00:00Z")
            for src in (mem.source, fs.source):
                src.filters.add(own)
            cds = stix2.CompositeDataSource()
            cds.add_data_sources([mem.source, fs.source])
            cds.filters.add(stix2.Filter("id", "!=", "identity--00000000-0000-4000-8000-000000000000"))
            qlist = [stix2.Filter("type", "=", t), stix2.Filter("id", "=", d["id"])]
            qset = FilterSet(list(qlist))
            qone = stix2.Filter("type", "=", t)
            for label, target in (("MemorySource", mem.source), ("FileSystemSource", fs.source), ("CompositeDataSource", cds), ("Environment", stix2.Environment(source=cds))):
                for qname, q in (("list", qlist), ("FilterSet", qset), ("Filter", qone)):
                    G.call("store:%s.query(%s)" % (label, qname), lambda: target.query(q), query=q)
                    G.call("store:%s.query(%s)-again" % (label, qname), lambda: target.query(q), query=q)
                if hasattr(target, "related_to") and "created_by_ref" in d:
                    G.call("store:%s.related_to(filters=FilterSet)" % label, lambda: target.related_to(d["id"], filters=qset), query=qset)
                    G.call("store:%s.relationships" % label, lambda: target.relationships(d["id"]))
            G.watch("source's own filters", mem.source.filters)
            G.call("store:MemorySource.query-after", lambda: mem.source.query([qone]), query=[qone])
            # factory
            if t == "identity" and ver == "2.1":
                defaults = {"external_references": [{"source_name": "f", "external_id": "1"}], "object_marking_refs": [M.TLP["green"]]}
                fac = stix2.ObjectFactory(created_by_ref=d["id"], **defaults)
                kwf = {"name": "n", "external_references": [{"source_name": "g", "external_id": "2"}]}
                G.call("factory:create", lambda: fac.create(stix2.v21.Identity, **kwf), defaults=defaults, kwargs=kwf)
                G.call("factory:create-again", lambda: fac.create(stix2.v21.Identity, **kwf), defaults=defaults, kwargs=kwf)
                # a single value (not a list) for a property whose default is a list; None; through an Environment
                kws = {"name": "n", "external_references": {"source_name": "h", "external_id": "3"}, "object_marking_refs": M.TLP["red"]}
                G.call("factory:create-single-values", lambda: fac.create(stix2.v21.Identity, **kws), defaults=defaults, kwargs=kws)
                kwn = {"name": "n", "external_references": None}
                G.call("factory:create-none", lambda: fac.create(stix2.v21.Identity, **kwn), defaults=defaults, kwargs=kwn)
                env = stix2.Environment(factory=fac)
                G.call("factory:Environment.create-single-values", lambda: env.create(stix2.v21.Identity, **kws), defaults=defaults, kwargs=kws)
                # environments built earlier are not changed by settings made on another one
                env_old = stix2.Environment()
                before_env = env_old.create(stix2.v21.Identity, name="n", id=d["id"], created="2020-01-01T00:00:00Z", modified="2020-01-01T00:00:00Z")
                env_new = stix2.Environment()
                G.call("environment:set_default_creator(other environment)", lambda: env_new.set_default_creator(d["id"]))
                G.call("environment:set_default_object_marking_refs(other environment)", lambda: env_new.set_default_object_marking_refs([M.TLP["amber"]]))
                after_env = stix2.Environment().create(stix2.v21.Identity, name="n", id=d["id"], created="2020-01-01T00:00:00Z", modified="2020-01-01T00:00:00Z")
                again_env = env_old.create(stix2.v21.Identity, name="n", id=d["id"], created="2020-01-01T00:00:00Z", modified="2020-01-01T00:00:00Z")
                ctx.ev()
                if again_env.serialize() != before_env.serialize() or after_env.serialize() != before_env.serialize():
                    ctx.violation("environment-settings-leak", "a default set on one Environment changed what another Environment creates",
                                  {"before": json.loads(before_env.serialize()), "earlier_environment_after": json.loads(again_env.serialize()),
                                   "fresh_environment_after": json.loads(after_env.serialize())})
                first = G.call("factory:create-plain", lambda: fac.create(stix2.v21.Identity, name="n"), defaults=defaults)
                if first is not None and hasattr(first, "get") and (len(first.get("object_marking_refs", [])) != 1 or len(first.get("external_references", [])) != 1):
                    ctx.violation("factory-state-drift", "after earlier create() calls the factory hands out more than its configured defaults",
                                  {"defaults": defaults, "created": json.loads(first.serialize())})
        # canonical JSON
        G.call("canonicalize:dict", lambda: canonicalize(d, utf8=False), data=d)
        # the objects created at the start are still what they were
        ctx.ev()
        if obj_again is not None and not isinstance(obj_again, dict) and obj_again != obj:
            ctx.violation("existing-object-modified:sequence", "the object parsed first no longer equals an identical parse made at the start", case)
        if snap(d) != snap(json.loads(json.dumps(o))):
            ctx.violation("argument-modified:sequence:data", "the input dictionary differs from its pristine copy at the end of the sequence", dict(case))
        ctx.count("sequences")
        if ctx.want_sample():
            ctx.sample({"version": ver, "type": t, "guarded_operations": sorted(ctx.seen.get("operations", []))[:40]})
    finally:
        shutil.rmtree(tmp, ignore_errors=True)


WORKLOADS = [
    Workload("sequence", wl_sequence, quick=lambda: len(BASES) * 3, thorough=lambda: len(BASES) * 300),
    __import__("stixmon.ambient", fromlist=["workload"]).workload("C13"),
]


def floors(m, tier):
    c = m["counters"]
    out = []
    for fam, n in (("parse", 100), ("construct", 100), ("copy", 100), ("version", 100), ("mark", 100), ("bundle", 100), ("store", 100), ("serialize", 100)):
        if c.get("family:" + fam, 0) < n:
            out.append("operation family %s guarded only %d times" % (fam, c.get("family:" + fam, 0)))
    if c.get("mutation_attempts", 0) < 200:
        out.append("fewer than 200 direct mutation attempts")
    if c.get("deepcopies", 0) < 50:
        out.append("fewer than 50 deep copies examined")
    return out[:6]


MANIFEST = {
    "text": ("A scripted sequence of about forty public operations is run on the same nested inputs for generated objects of every "
             "type, with deep structural snapshots of every argument and of every object created earlier in the sequence taken "
             "before and after each call (also when the call raises); direct assignment/deletion must be refused and deep copies "
             "must be equal and share no mutable container.  Thousands of guarded calls per run."),
    "note": "value identity judged on structural snapshots through the Mapping interface; operations outside the scripted list are not covered",
    "technique": "runtime monitoring: snapshot/ensure guards around every public call of scripted operation sequences",
}
