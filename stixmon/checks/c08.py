"""C08 -- a granular-marking selector is valid exactly when it addresses something.

Events: for (object, selector): parse of JSON carrying a granular marking with that selector,
construction from keyword arguments, and each of the six marking functions (on the object and
on its plain-dict form) -> accepted | refused (InvalidSelectorError).
Oracle: stixmon.oracles.paths over the object's default serialisation (present => must be
accepted) and over its include-defaults serialisation (absent from it => must be refused).
"""
import json
import warnings

from ..ctx import Workload
from ..gen.objects import ObjGen
from ..oracles import paths as pathor
from ..spec import model as M
from .c03 import classify_selector

ID = "C08"
LEVEL = "exploration"
SHARDS = {"quick": 4, "thorough": 16}
RULE = ("every selector-syntax path of generated objects of every type that can carry granular markings (both versions; "
        "maximal and random profiles, hostile values incl. false/0/'' and repeated list elements, embedded objects, "
        "extensions) and generated near misses (absent property, index = length, key under scalar, index under non-list), "
        "each through 2 construction routes and 6 marking functions x {object, dict}.  Non-trivial: every decision; "
        "distinct = distinct (version, type, selector shape, value class, entry point)")
ASSUMPTIONS = [
    "only selectors whose every segment fits the selector syntax are generated (others are outside the statement)",
    "a selector for a property held only as an omitted default (e.g. revoked=false not written) may be accepted or refused; if accepted, the written JSON must contain the property",
    "a marking function 'accepts' a selector when it does not raise InvalidSelectorError (other documented refusals such as MarkingNotFoundError come after selector validation)",
]
# (not one of the four TLP ids: a generated TLP marking definition must not be marked with itself)
MARK = "marking-definition--5f0c3b1e-7a52-4d1c-9b1e-3c8d6a7e2f90"


def shape(segs):
    return ".".join("[i]" if s.startswith("[") else "k" for s in segs)


def value_class(v):
    if v is False or v == 0 and not isinstance(v, bool) or v == "":
        return "falsy"
    if isinstance(v, dict):
        return "object"
    if isinstance(v, list):
        return "list"
    return type(v).__name__


def near_misses(rng, jd, ji, tbl):
    out = []
    present = set(ji)
    absent_props = [p["name"] for p in tbl["props"] if p["name"] not in present and p["name"] != "granular_markings" and pathor.fits_syntax((p["name"],))]
    for n in absent_props[:3]:
        out.append(("absent-property", (n,)))
    out.append(("absent-property", ("no_such_property",)))
    allp = list(pathor.walk(ji))
    rng.shuffle(allp)
    k = 0
    for segs, v in allp:
        if not pathor.fits_syntax(segs):
            continue
        if isinstance(v, list):
            out.append(("index-past-end", segs + ("[%d]" % len(v),)))
            out.append(("index-past-end", segs + ("[%d]" % (len(v) + 7),)))
            out.append(("key-under-list", segs + ("foo",)))
        elif isinstance(v, dict):
            out.append(("absent-key", segs + ("no_such_key",)))
            out.append(("index-under-object", segs + ("[0]",)))
        else:
            out.append(("key-under-scalar", segs + ("foo",)))
            out.append(("index-under-scalar", segs + ("[0]",)))
        k += 1
        if k >= 8:
            break
    res = []
    for kind, segs in out:
        if pathor.fits_syntax(segs) and not pathor.resolve(ji, segs)[0] and not pathor.resolve(jd, segs)[0]:
            res.append((kind, segs))
    return res


def outcome(fn, construction=False):
    from stix2.exceptions import InvalidSelectorError
    try:
        with warnings.catch_warnings():
            warnings.simplefilter("ignore")
            fn()
        return "accepted", None
    except InvalidSelectorError as e:
        return "refused", None
    except Exception as e:
        if construction:
            return "refused", type(e).__name__     # nothing was constructed
        # wrapped selector errors (e.g. inside InvalidValueError of a list property) still count as refusal
        cur = e
        for _ in range(5):
            cur = cur.__cause__ or cur.__context__
            if cur is None:
                break
            if isinstance(cur, InvalidSelectorError):
                return "refused", None
        if "elector" in str(e) and "not valid" in str(e):
            return "refused", None
        return "accepted", type(e).__name__


def entry_points(obj, jd, o_in, sel, cls):
    """sel: one selector (str) or a list of selectors used together in one granular marking / one call"""
    import stix2
    from stix2 import markings as mk
    gm = [{"marking_ref": MARK, "selectors": [sel] if isinstance(sel, str) else list(sel)}]
    eps = []
    withgm = dict(o_in)
    withgm["granular_markings"] = gm
    text = json.dumps(withgm)
    eps.append(("parse", lambda: stix2.parse(text, allow_custom=True)))
    kw = {k: v for k, v in withgm.items()}
    eps.append(("constructor", lambda: cls(allow_custom=True, **kw)))
    for form, target in (("object", obj), ("dict", jd)):
        eps.append(("get_markings/" + form, lambda t=target: mk.get_markings(t, sel)))
        eps.append(("is_marked/" + form, lambda t=target: mk.is_marked(t, selectors=sel)))
        # option combinations: the object-level side of an inherited lookup must not stand in for checking the selector
        eps.append(("is_marked(inherited)/" + form, lambda t=target: mk.is_marked(t, selectors=sel, inherited=True)))
        eps.append(("is_marked(marking,inherited,descendants)/" + form, lambda t=target: mk.is_marked(t, MARK, sel, inherited=True, descendants=True)))
        eps.append(("get_markings(inherited,descendants)/" + form, lambda t=target: mk.get_markings(t, sel, inherited=True, descendants=True)))
        eps.append(("add_markings/" + form, lambda t=target: mk.add_markings(t, MARK, sel)))
        eps.append(("remove_markings/" + form, lambda t=target: mk.remove_markings(t, MARK, sel)))
        eps.append(("clear_markings/" + form, lambda t=target: mk.clear_markings(t, sel)))
        eps.append(("set_markings/" + form, lambda t=target: mk.set_markings(t, MARK, sel)))
    return eps


def carriers():
    out = []
    for ver in ("2.0", "2.1"):
        m = M.model(ver)
        for t, d in sorted(m.types.items()):
            if m.can_carry_granular(t) and not (d["cat"] == "sco" and ver == "2.0"):
                out.append((ver, t))
    return out


CARRIERS = carriers()


def wl_objects(ctx, rng, i):
    import stix2
    ver, t = CARRIERS[i % len(CARRIERS)]
    rnd = i // len(CARRIERS)
    g = ObjGen(rng, ver, hostile=True, ts_max_digits=6, allow_empty_str=True, openvocab_custom=False)
    o = g.make(t, "max" if rnd % 2 == 0 else "random", granular=False)
    # make sure falsy scalars and a repeated list element exist somewhere
    tbl = M.model(ver).types[t]
    for p in tbl["props"]:
        if p["name"] in o and p["k"] == "string" and p["name"] in ("name", "description", "objective", "abstract", "explanation", "contact_information", "tool_version") and rng.random() < 0.5:
            o[p["name"]] = ""
        if p["name"] in o and p["k"] == "bool" and rng.random() < 0.7 and p["name"] not in ("is_family", "is_multipart", "is_active", "is_encrypted"):
            o[p["name"]] = False
        if p["name"] in o and p["k"] == "list" and p["of"]["k"] == "string" and rng.random() < 0.5:
            o[p["name"]] = [o[p["name"]][0], "other", o[p["name"]][0]]
        if p["name"] in o and p["k"] == "int" and p.get("min", 0) <= 0 and rng.random() < 0.3:
            o[p["name"]] = 0
        if p["name"] == "labels" and p["name"] in o and rnd % 3 == 1:
            o["labels"] = ["label-%d" % k for k in range(12)]          # two-digit indices
    if rnd % 3 != 2:
        # keys that are string prefixes of their siblings, in an order that is not string order; a two-digit index inside
        o["x_headers"] = {"Accept": ["a", "b"], "Accept-Encoding": "gzip", "A": {"q": 1}, "A-1": 0,
                          "list": [{"k": n} for n in range(11)], "matrix": [[1, 0], [{"k": [["z"]]}]]}      # lists nested in lists
    if "object_marking_refs" in tbl["by_name"] and rnd % 2 == 0:
        o["object_marking_refs"] = [MARK]
    try:
        with warnings.catch_warnings():
            warnings.simplefilter("ignore")
            obj = stix2.parse(json.dumps(o), allow_custom=True)
        jd = json.loads(obj.serialize())
        ji = json.loads(obj.serialize(include_optional_defaults=True))
    except Exception as e:
        ctx.skip("base object not parseable (%s) -- C03's subject" % type(e).__name__)
        return
    cls = type(obj)
    sels = [(s, segs, v) for s, segs, v in pathor.selectors(jd) if segs[0] != "granular_markings"]
    if ctx.tier == "quick" and len(sels) > 45:
        # keep all falsy/embedded/duplicate ones, sample the rest
        special = [x for x in sels if classify_selector(jd, x[0]) != "valid-selector-refused" or x[1][0] == "x_headers" or any(len(sg) > 3 and sg.startswith("[") for sg in x[1])]
        rest = [x for x in sels if x not in special]
        rng.shuffle(special)
        rng.shuffle(rest)
        sels = special[:30] + rest[:15]
    for s, segs, v in sels:
        mech = classify_selector(jd, s)
        ctx.count({"selector-falsy": "valid_falsy", "selector-duplicate-element": "valid_repeated",
                   "selector-embedded-object": "valid_embedded"}.get(mech, "valid_plain"))
        for name, fn in entry_points(obj, jd, o, s, cls):
            res, other = outcome(fn, name in ("parse", "constructor"))
            ctx.ev()
            ctx.nontrivial(ver, t, shape(segs), value_class(v), name)
            ctx.see("entry points", name)
            if res != "accepted":
                ctx.violation(mech, "%s refused selector %r which addresses %r in a %s %s" % (name, s, v if not isinstance(v, (dict, list)) else type(v).__name__, ver, t),
                              {"version": ver, "entry_point": name, "selector": s, "addressed_value": v, "object": jd})
    for kind, segs in near_misses(rng, jd, ji, tbl):
        s = ".".join(segs)
        ctx.count("near_miss")
        ctx.see("near-miss kinds", kind)
        for name, fn in entry_points(obj, jd, o, s, cls):
            res, other = outcome(fn, name in ("parse", "constructor"))
            ctx.ev()
            ctx.nontrivial(ver, t, "miss:" + kind, name)
            if res != "refused":
                ctx.violation("selector-addresses-nothing-accepted:" + kind,
                              "%s accepted selector %r which addresses nothing in a %s %s" % (name, s, ver, t),
                              {"version": ver, "entry_point": name, "selector": s, "near_miss": kind, "object": ji, "raised_instead": other})
    # a property held only as a default the serialisation leaves out: if its selector is accepted, what is written must still contain
    # something for the selector to address
    in_default_form = {s_ for s_, _, _ in pathor.selectors(jd)}
    nested_defaults = [(s_, segs_) for s_, segs_, _ in pathor.selectors(ji) if len(segs_) > 1 and s_ not in in_default_form and segs_[0] != "granular_markings"
                       and ".".join(segs_[:-1]) in in_default_form]
    rng.shuffle(nested_defaults)
    for name, nsegs in [(n, (n,)) for n in ji if n not in jd and pathor.fits_syntax((n,))][:3] + nested_defaults[:3]:
        withgm = dict(o)
        withgm["granular_markings"] = [{"marking_ref": MARK, "selectors": [name]}]
        for ep, fn in (("parse", lambda: stix2.parse(json.dumps(withgm), allow_custom=True)), ("constructor", lambda: cls(allow_custom=True, **dict(withgm))),
                       ("add_markings", lambda: obj.add_markings(MARK, name) if "modified" in jd and not jd.get("revoked") else None)):
            try:
                with warnings.catch_warnings():
                    warnings.simplefilter("ignore")
                    marked = fn()
                if marked is None:
                    continue
                out = json.loads(marked.serialize())
                again = json.loads(stix2.parse(marked.serialize(), allow_custom=True).serialize())
            except Exception:
                ctx.count("omitted_default_selector_refused")
                continue
            ctx.ev()
            ctx.count("omitted_default_selector_accepted")
            ctx.nontrivial(ver, t, "omitted-default", name, ep)
            ctx.count("omitted_default_selector_accepted_nested" if len(nsegs) > 1 else "omitted_default_selector_accepted_toplevel")
            for lab, j in (("output", out), ("output after a round trip", again)):
                if not pathor.resolve(j, tuple(nsegs))[0]:
                    ctx.violation("selector-addresses-nothing-in-output:omitted-default" + (":in-contained-object" if len(nsegs) > 1 else ""), "%s accepted selector %r on a %s %s, but the %s has no such property" % (ep, name, ver, t, lab),
                                  {"version": ver, "entry_point": ep, "selector": name, "output": j})
                    break
    # a (custom) property given as a tuple is written as a list: its elements are addressed like list elements
    if rnd % 2 == 1 and "modified" in jd and not jd.get("revoked"):
        kw = dict(o)
        kw["x_tuple"] = ("p", "q", ("r", {"k": 1}), ({"n": 0},))
        for sel in ("x_tuple", "x_tuple.[0]", "x_tuple.[2].[1].k", "x_tuple.[3].[0].n"):
            kw["granular_markings"] = [{"marking_ref": MARK, "selectors": [sel]}]
            res, other = outcome(lambda: cls(allow_custom=True, **dict(kw)), True)
            ctx.ev()
            ctx.count("tuple_decisions")
            ctx.nontrivial(ver, t, "tuple", sel, "constructor")
            if res != "accepted":
                ctx.violation("selector-tuple-element", "constructor refused selector %r which addresses an element of a tuple-valued property (%s %s)" % (sel, ver, t),
                              {"version": ver, "selector": sel, "value": repr(kw["x_tuple"]), "raised": other})
                break
        try:
            with warnings.catch_warnings():
                warnings.simplefilter("ignore")
                tobj = cls(allow_custom=True, **{k: v for k, v in kw.items() if k != "granular_markings"})
            for name, fn in entry_points(tobj, dict(tobj), o, "x_tuple.[2].[1].k", cls)[2:11]:
                res, other = outcome(fn)
                ctx.ev()
                ctx.count("tuple_decisions")
                if res != "accepted":
                    ctx.violation("selector-tuple-element", "%s refused selector 'x_tuple.[2].[1].k' which addresses an element of a tuple-valued property (%s %s)" % (name, ver, t),
                                  {"version": ver, "entry_point": name, "value": repr(kw["x_tuple"])})
                    break
        except Exception:
            pass
    # what a selector addresses is taken away by a new version: the new version is refused, not built with a selector that
    # addresses nothing
    if "modified" in jd and not jd.get("revoked"):
        req = {p["name"] for p in tbl["props"] if p["required"]}
        cands = [(s, segs) for s, segs, v in sels if segs[0] not in req and segs[0] in o and segs[0] not in ("type", "id", "created", "modified", "created_by_ref", "spec_version")]
        rng.shuffle(cands)
        for s, segs in cands[:3]:
            withgm = dict(o)
            withgm["granular_markings"] = [{"marking_ref": MARK, "selectors": [s]}]
            try:
                with warnings.catch_warnings():
                    warnings.simplefilter("ignore")
                    marked = stix2.parse(json.dumps(withgm), allow_custom=True)
            except Exception:
                continue
            changes = [("property removed", {segs[0]: None})]
            cur = jd.get(segs[0])
            if len(segs) >= 2 and segs[1].startswith("[") and isinstance(cur, list) and int(segs[1][1:-1]) == len(cur) - 1 and len(cur) > 1:
                changes.append(("list shortened", {segs[0]: cur[:-1]}))
            for label, ch in changes:
                res, other = outcome(lambda: marked.new_version(**ch), True)
                ctx.ev()
                ctx.count("new_version_decisions")
                ctx.nontrivial(ver, t, "new-version:" + label, shape(segs))
                if res != "refused":
                    # the library may have given the property a value of its own again (a default): then the selector still addresses something
                    try:
                        with warnings.catch_warnings():
                            warnings.simplefilter("ignore")
                            nj = json.loads(marked.new_version(**ch).serialize(include_optional_defaults=True))
                        if pathor.resolve(nj, segs)[0]:
                            ctx.count("new_version_property_defaulted_again")
                            continue
                    except Exception:
                        pass
                    ctx.violation("selector-addresses-nothing-accepted:after-new-version", "new_version(%s) built a %s %s that keeps selector %r although it now addresses nothing" % (
                        label, ver, t, s), {"version": ver, "selector": s, "change": label, "object": jd})
    # selector *lists*: every member must address something, wherever it stands in the list
    valid = [s for s, _, _ in sels]
    misses = [".".join(segs) for _, segs in near_misses(rng, jd, ji, tbl)]
    if len(valid) >= 2 and misses:
        combos = []
        for _ in range(3):
            a, b = rng.sample(valid, 2)
            bad = rng.choice(misses)
            combos += [("all-valid", [a, b]), ("invalid-last", [a, bad]), ("invalid-first", [bad, a]), ("invalid-middle", [a, bad, b]),
                       ("invalid-last-of-three", [a, b, bad])]
        # a second granular marking whose selectors are bad while the first marking is fine
        for label, lst in combos:
            expect = "accepted" if label == "all-valid" else "refused"
            for name, fn in entry_points(obj, jd, o, lst, cls):
                res, other = outcome(fn, name in ("parse", "constructor"))
                ctx.ev()
                ctx.count("list_decisions")
                ctx.nontrivial(ver, t, "list:" + label, name)
                if res != expect:
                    if expect == "refused":
                        ctx.violation("selector-list-member-unchecked:" + label, "%s accepted the selector list %r although %r addresses nothing (%s %s)" % (
                            name, lst, [x for x in lst if x in misses], ver, t),
                            {"version": ver, "entry_point": name, "selectors": lst, "position": label, "object": ji})
                    else:
                        ctx.violation("valid-selector-refused", "%s refused the selector list %r whose members all address something" % (name, lst),
                                      {"version": ver, "entry_point": name, "selectors": lst, "object": jd})
        # two granular markings in one object: the second one carries the bad selector
        bad = rng.choice(misses)
        two = dict(o)
        two["granular_markings"] = [{"marking_ref": MARK, "selectors": [valid[0]]}, {"marking_ref": MARK, "selectors": [bad]}]
        import stix2
        for name, fn in (("parse", lambda: stix2.parse(json.dumps(two), allow_custom=True)), ("constructor", lambda: cls(allow_custom=True, **dict(two)))):
            res, other = outcome(fn, True)
            ctx.ev()
            ctx.count("list_decisions")
            if res != "refused":
                ctx.violation("selector-list-member-unchecked:second-marking", "%s accepted an object whose second granular marking has selector %r addressing nothing" % (name, bad),
                              {"version": ver, "entry_point": name, "granular_markings": two["granular_markings"], "object": ji})
    if ctx.want_sample():
        ctx.sample({"version": ver, "type": t, "selectors_checked": [s for s, _, _ in sels[:12]],
                    "near_misses": [".".join(s) for _, s in near_misses(rng, jd, ji, tbl)[:6]], "entry_points": 14})


# pure by their documentation: a sample of the calls is repeated in a fresh interpreter, in reverse order (stixmon/echo.py)
ECHO = ['stix2.markings:get_markings', 'stix2.markings:is_marked']
WORKLOADS = [
    Workload("objects", wl_objects, quick=lambda: len(CARRIERS) * 4, thorough=lambda: len(CARRIERS) * 300),
]


def floors(m, tier):
    c = m["counters"]
    out = []
    for k, n in (("valid_falsy", 150), ("valid_repeated", 50), ("valid_embedded", 300), ("near_miss", 500), ("valid_plain", 500)):
        if c.get(k, 0) < n:
            out.append("only %d %s selectors judged (floor %d)" % (c.get(k, 0), k, n))
    if c.get("list_decisions", 0) < 2000:
        out.append("only %d selector-list decisions (floor 2000)" % c.get("list_decisions", 0))
    if len(m["seen"].get("entry points", ())) < 14:
        out.append("not all 14 entry points observed")
    return out


MANIFEST = {
    "text": ("For every generated object of every granular-marking-capable type, every address the independent path enumerator "
             "finds (including false/0/'' values, repeated list elements, paths into embedded objects and extensions) and a set "
             "of near misses is pushed through parse, the constructor and all six marking functions on object and dict forms; "
             "the accept/refuse outcome must match the enumerator.  Exploration over generated objects, tens of thousands of decisions per run. Echo monitor: a sample of the get_markings / is_marked calls is repeated in a fresh interpreter in reverse order and must answer alike."),
    "note": "trusts stixmon/oracles/paths.py; selectors outside the library's selector syntax and omitted-default properties are out of scope",
    "technique": "runtime monitoring: accept/refuse events at 14 entry points judged by an independent path-enumeration oracle; echo monitor (pure calls repeated in a fresh interpreter)",
}
