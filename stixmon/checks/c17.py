"""C17 -- bad input is reported only through the library's error family.

Events: parse(x) / constructor -> returned | raised E, under a generous per-case alarm.
Oracle: E is an instance of stix2.exceptions.STIXError, ValueError or TypeError; registries
(type -> class identity) and, for store.add of a bad object, store contents are unchanged.
"""
import json
import signal
import traceback
import warnings

from ..ctx import Workload
from ..gen import corrupt
from ..gen.objects import ObjGen
from ..oracles import validator
from ..spec import model as M

ID = "C17"
LEVEL = "fault_enumeration"
SHARDS = {"quick": 8, "thorough": 16}
RULE = ("arbitrary JSON values (scalars, lists, objects with/without 'type', nesting to depth 300) as parser input, and every "
        "valid base object with each slot replaced by each of 17 other-kind JSON values plus kind-specific malformed values, "
        "at top level and inside embedded objects/extensions/containers, through parse(text), parse(dict), constructors and "
        "MemoryStore.add, with allow_custom both off and on; plus targeted faults in the inputs inspected before cleaning "
        "(extensions, type, spec_version, objects, definition_type/definition, custom_properties, positional conveniences).  "
        "Non-trivial: every faulted input; distinct = distinct (version, type, slot kind, fault, route)")
ASSUMPTIONS = [
    "the documented error family is stix2.exceptions.STIXError, ValueError (incl. JSONDecodeError, UnicodeError) and TypeError",
    "a per-case 20 s alarm firing is reported as inconclusive (wall clock is not a verdict), not as a violation",
    "lone surrogates are not generated",
]
VERSIONS = ["2.0", "2.1"]
from .c02 import BASES, TYPES, cls_for, make_base  # noqa: E402


class CaseTimeout(BaseException):
    pass


def _alarm(signum, frame):
    raise CaseTimeout()


def family():
    from stix2.exceptions import STIXError
    return (STIXError, ValueError, TypeError)


def registry_snapshot():
    from stix2 import registry
    snap = {}
    for ver, cats in registry.STIX2_OBJ_MAPS.items():
        for cat, mp in cats.items():
            for t, cls in mp.items():
                snap[(ver, cat, t)] = id(cls)
    return snap


def where_raised(exc):
    tb = traceback.extract_tb(exc.__traceback__)
    inner = None
    for fr in tb:
        if "/stix2/" in fr.filename and "/test/" not in fr.filename:
            inner = fr
    if inner is None:
        return "outside-stix2"
    return "%s:%s" % (inner.filename.split("/stix2/", 1)[1], inner.name)


def observe(ctx, label, fn, witness, reg_before=None):
    """Run one library call; judge the exception class."""
    ctx.ev()
    signal.signal(signal.SIGALRM, _alarm)
    signal.setitimer(signal.ITIMER_REAL, 20.0)
    try:
        with warnings.catch_warnings():
            warnings.simplefilter("ignore")
            fn()
        ctx.count("returned")
        return "returned"
    except CaseTimeout:
        ctx.count("timeouts")
        return "timeout"
    except family():
        ctx.count("raised_in_family")
        return "family"
    except Exception as e:
        key = "escape:%s@%s" % (type(e).__name__, where_raised(e))
        w = dict(witness)
        w.update({"exception": type(e).__name__, "message": str(e)[:300], "raised_in": where_raised(e),
                  "traceback_tail": traceback.format_exc().splitlines()[-6:]})
        ctx.violation(key, "%s: %s escaped (%s)" % (label, type(e).__name__, str(e)[:120]), w)
        return "escape"
    finally:
        signal.setitimer(signal.ITIMER_REAL, 0)


def routes(ver, t, o):
    import stix2
    out = [
        ("parse-text/strict", lambda: stix2.parse(json.dumps(o), allow_custom=False)),
        ("parse-dict/strict", lambda: stix2.parse(o, allow_custom=False)),
        ("parse-text/custom", lambda: stix2.parse(json.dumps(o), allow_custom=True)),
        ("parse-dict/versioned", lambda: stix2.parse(o, allow_custom=False, version=ver)),
    ]
    cls = cls_for(ver, t) if isinstance(t, str) else None
    if cls is not None and isinstance(o, dict) and all(isinstance(k, str) for k in o):
        out.append(("constructor/strict", lambda: cls(allow_custom=False, **o)))
        out.append(("constructor/custom", lambda: cls(allow_custom=True, **o)))
    return out


def check_state(ctx, reg0, witness):
    reg1 = registry_snapshot()
    if reg1 != reg0:
        changed = [k for k in set(reg0) | set(reg1) if reg0.get(k) != reg1.get(k)]
        ctx.violation("registry-changed-by-failed-construction", "type registries changed while processing bad input",
                      dict(witness, changed=[list(k) for k in changed[:5]]))


def wl_faults(ctx, rng, i):
    ver, bname = BASES[i % len(BASES)]
    rnd = i // len(BASES)
    g = ObjGen(rng, ver, hostile=False, ts_max_digits=6, openvocab_custom=False)
    t, o = make_base(g, ver, bname, "max" if rnd % 2 == 0 else "random", granular=False)
    if validator.validate(o, ver):
        ctx.skip("generator error")
        return
    reg0 = registry_snapshot()
    n = 0
    for label, where, oo in corrupt.corruptions(ver, o):
        parts = label.split("|")
        generic = len(parts) > 2 and parts[2].startswith("kind:")
        rs = routes(ver, t, oo)
        if ctx.tier == "quick" and not generic:
            rs = rs[:2] + rs[4:5]
        elif ctx.tier == "quick":
            rs = [rs[1], rs[2]] + rs[4:5]
        for rname, fn in rs:
            observe(ctx, "%s %s fault %s at %s via %s" % (ver, t, label, where, rname), fn,
                    {"version": ver, "type": t, "fault": label, "where": where, "route": rname, "input": oo})
            ctx.see("routes", rname)
        ctx.nontrivial(ver, t, label)
        ctx.see("fault kinds", parts[-1] if not generic else parts[2])
        ctx.see("slot kinds", parts[1] if len(parts) > 1 else "?")
        n += 1
        ctx.count("faults")
    check_state(ctx, reg0, {"version": ver, "type": t})
    if ctx.want_sample():
        ctx.sample({"version": ver, "type": t, "base": o, "faults_applied": n})


def junk(rng, depth):
    r = rng.random()
    if depth <= 0 or r < 0.4:
        return rng.choice([None, True, False, 0, -1, 1.5, "", "junk", "identity", "bundle", "2.1", "2.0", 2 ** 70, 1e308,
                           "identity--d83fce45-ef58-4c6c-a3f4-1fbc32e98c6e", "2020-01-01T00:00:00Z", "\u0000", "\U0001f600"])
    if r < 0.6:
        return [junk(rng, depth - 1) for _ in range(rng.randrange(0, 4))]
    keys = ["type", "id", "spec_version", "objects", "extensions", "created", "modified", "name", "definition", "definition_type",
            "granular_markings", "object_marking_refs", "selectors", "hashes", "custom_properties", "x_foo", "", "0", "labels",
            "extension_type", "pattern", "pattern_type", "source_ref", "target_ref", "relationship_type", "value", "number"]
    d = {}
    for _ in range(rng.randrange(0, 6)):
        d[rng.choice(keys)] = junk(rng, depth - 1)
    return d


def wl_junk(ctx, rng, i):
    import stix2
    m21 = M.model("2.1")
    alltypes = sorted(set(m21.types) | set(M.model("2.0").types))
    reg0 = registry_snapshot()
    for j in range(25):
        v = junk(rng, rng.choice([1, 2, 3, 5]))
        if isinstance(v, dict) and rng.random() < 0.7:
            v["type"] = rng.choice(alltypes + ["x-unknown", 5, None, ["identity"], {"a": 1}])
            if rng.random() < 0.5:
                v["id"] = rng.choice(["%s--d83fce45-ef58-4c6c-a3f4-1fbc32e98c6e" % v["type"], 5, None, "x"])
            if rng.random() < 0.3:
                v["spec_version"] = rng.choice(["2.1", "2.0", "3.0", 2.1, None, ["2.1"], ""])
        if j == 0 and i % 20 == 0:
            deep = v
            for _ in range(rng.choice([50, 150, 300])):
                deep = {"type": "bundle", "objects": [deep]} if rng.random() < 0.5 else [deep]
            v = deep
        try:
            text = json.dumps(v)
        except (ValueError, RecursionError):
            continue
        w = {"input": v}
        for rname, fn in (("parse-text/strict", lambda: stix2.parse(text)), ("parse-value/strict", lambda: stix2.parse(v)),
                          ("parse-text/custom", lambda: stix2.parse(text, allow_custom=True)),
                          ("parse-value/v20", lambda: stix2.parse(v, version="2.0")),
                          ("parse-value/v21/custom", lambda: stix2.parse(v, allow_custom=True, version="2.1")),
                          ("parse_observable", lambda: stix2.parse_observable(v)),
                          ("parse_observable/v20", lambda: stix2.parse_observable(text, {"0": "file"}, version="2.0"))):
            observe(ctx, "junk via %s" % rname, fn, dict(w, route=rname))
            ctx.see("routes", rname)
        ctx.nontrivial("junk", text)
        ctx.count("junk_values")
    check_state(ctx, reg0, {"workload": "junk"})


def targeted_cases():
    """Inputs inspected before cleaning."""
    idn = {"type": "identity", "spec_version": "2.1", "id": "identity--d83fce45-ef58-4c6c-a3f4-1fbc32e98c6e",
           "created": "2020-01-01T00:00:00.000Z", "modified": "2020-01-01T00:00:00.000Z", "name": "n", "identity_class": "individual"}
    f21 = {"type": "file", "spec_version": "2.1", "id": "file--d83fce45-ef58-4c6c-a3f4-1fbc32e98c6e", "name": "f"}
    md = {"type": "marking-definition", "spec_version": "2.1", "id": "marking-definition--d83fce45-ef58-4c6c-a3f4-1fbc32e98c6e",
          "created": "2020-01-01T00:00:00.000Z", "definition_type": "statement", "definition": {"statement": "s"}}
    bun = {"type": "bundle", "id": "bundle--d83fce45-ef58-4c6c-a3f4-1fbc32e98c6e", "objects": [idn]}
    od20 = {"type": "observed-data", "id": "observed-data--d83fce45-ef58-4c6c-a3f4-1fbc32e98c6e", "created": "2020-01-01T00:00:00.000Z",
            "modified": "2020-01-01T00:00:00.000Z", "first_observed": "2020-01-01T00:00:00Z", "last_observed": "2020-01-01T00:00:00Z",
            "number_observed": 1, "objects": {"0": {"type": "file", "name": "f"}}}
    rel = {"type": "relationship", "spec_version": "2.1", "id": "relationship--d83fce45-ef58-4c6c-a3f4-1fbc32e98c6e",
           "created": "2020-01-01T00:00:00.000Z", "modified": "2020-01-01T00:00:00.000Z", "relationship_type": "uses",
           "source_ref": "malware--d83fce45-ef58-4c6c-a3f4-1fbc32e98c6e", "target_ref": "tool--d83fce45-ef58-4c6c-a3f4-1fbc32e98c6e"}
    cases = []
    J = corrupt.JUNK + ["toplevel-property-extension", [{"extension_type": "toplevel-property-extension"}]]
    for base in (idn, f21, md, od20, rel):
        for k in ("extensions", "type", "spec_version", "id", "custom_properties", "granular_markings", "object_marking_refs", "created",
                  "definition_type", "definition", "objects", "source_ref", "relationship_type", "target_ref", "sighting_of_ref"):
            for j in J:
                o = dict(base)
                o[k] = j
                cases.append((base["type"], "%s=%s" % (k, json.dumps(j)[:30]), o))
        for ext in ({"x": "y"}, {"x": 5}, {"x": None}, {"x": [1]}, {"extension-definition--d83fce45-ef58-4c6c-a3f4-1fbc32e98c6e": 5},
                    {"extension-definition--d83fce45-ef58-4c6c-a3f4-1fbc32e98c6e": {"extension_type": 5}},
                    {"extension-definition--d83fce45-ef58-4c6c-a3f4-1fbc32e98c6e": {"extension_type": ["toplevel-property-extension"]}},
                    {"extension-definition--bad": {"extension_type": "property-extension"}}, {"archive-ext": 5}, {"archive-ext": [1]},
                    {"ntfs-ext": {"alternate_data_streams": 5}}, {5: {}}, {"": {}}, {"windows-pebinary-ext": {"pe_type": "exe", "sections": [5]}}):
            o = dict(base)
            o["extensions"] = ext
            cases.append((base["type"], "extensions=%r" % (ext,), o))
    for objs in J + [[{}], [{"type": "identity"}], [{"id": "x"}], [[idn]], [idn, 5], {"0": idn}, [{"type": "bundle", "objects": []}], [{"type": ["x"]}],
                     [{"type": "identity", "spec_version": 5}], [{"type": "x-foo", "extensions": 5}], [{"type": "x-foo", "extensions": {"extension-definition--x": 5}}]]:
        o = dict(bun)
        o["objects"] = objs
        cases.append(("bundle", "objects=%s" % json.dumps(objs)[:40], o))
        o = dict(bun)
        o["objects"] = objs
        o["spec_version"] = "2.0"
        cases.append(("bundle", "2.0 objects=%s" % json.dumps(objs)[:40], o))
    for objs in J + [{"0": 5}, {"0": {}}, {"0": {"type": 5}}, {"0": {"type": "file", "extensions": 5}}, {"0": {"type": "file", "name": "f", "parent_directory_ref": 5}},
                     {"0": {"type": "file", "name": "f", "contains_refs": [5]}}, {"0": {"type": "email-message", "is_multipart": True, "body_multipart": [5]}},
                     {5: {"type": "file", "name": "f"}}, {"0": {"type": "x-unknown"}}, {"0": {"type": "file", "name": "f", "parent_directory_ref": "1"}, "1": "directory"}]:
        o = dict(od20)
        o["objects"] = objs
        cases.append(("observed-data", "objects=%r" % (objs,), o))
    # a type-less / id-less / unknown-type object with odd extensions (unregistered-type shortcut in dict_to_stix2)
    for ext in J + [{"extension-definition--x": 5}, {"extension-definition--x": {"extension_type": 5}}, {"extension-definition--x": None}, {"a": "b"}]:
        cases.append(("x-unknown-type", "extensions=%r" % (ext,), {"type": "x-unknown-type", "id": "x-unknown-type--d83fce45-ef58-4c6c-a3f4-1fbc32e98c6e", "extensions": ext}))
    return cases


TARGETED = targeted_cases()


def wl_targeted(ctx, rng, i):
    import stix2
    t, label, o = TARGETED[i]
    ver = validator.guess_version(o) if isinstance(o.get("type"), str) else "2.1"
    reg0 = registry_snapshot()
    try:
        json.dumps(o)
        enc = True
    except Exception:
        enc = False
    for rname, fn in routes(ver, t if isinstance(o.get("type"), str) and o.get("type") == t else None, o):
        if "text" in rname and not enc:
            continue
        observe(ctx, "targeted %s %s via %s" % (t, label, rname), fn, {"type": t, "fault": label, "route": rname, "input": o})
    cls = cls_for(ver, t)
    if cls is not None:
        kw = {k: v for k, v in o.items() if isinstance(k, str)}
        observe(ctx, "targeted %s %s via constructor" % (t, label), lambda: cls(**kw), {"type": t, "fault": label, "route": "constructor", "input": o})
    # positional conveniences
    if t == "relationship":
        for args in ((5,), (None, 5), ([], {}, 7), ("x", "y", "z"), ({"id": 5},), (o.get("source_ref"), 0, o.get("target_ref"))):
            observe(ctx, "Relationship%r" % (args,), lambda a=args: stix2.v21.Relationship(*a), {"type": t, "positional": repr(args)})
            observe(ctx, "v20.Relationship%r" % (args,), lambda a=args: stix2.v20.Relationship(*a), {"type": t, "positional": repr(args)})
        for a in (5, [], {}, "x", {"id": 5}):
            observe(ctx, "Sighting(%r)" % (a,), lambda a=a: stix2.v21.Sighting(a), {"type": "sighting", "positional": repr(a)})
    if t == "bundle":
        for args in ((5,), ([5],), ({},), ([{}],), ("x",), (None,), ([[o]],)):
            observe(ctx, "Bundle%r" % (args,), lambda a=args: stix2.v21.Bundle(*a), {"type": t, "positional": repr(args)[:200]})
            observe(ctx, "v20.Bundle%r" % (args,), lambda a=args: stix2.v20.Bundle(*a), {"type": t, "positional": repr(args)[:200]})
    # a failed add leaves the store unchanged
    store = stix2.MemoryStore()
    good = {"type": "identity", "spec_version": "2.1", "id": "identity--11111111-1111-4111-8111-111111111111",
            "created": "2020-01-01T00:00:00.000Z", "modified": "2020-01-01T00:00:00.000Z", "name": "n"}
    store.add(good)
    before = sorted(json.dumps(json.loads(x.serialize() if hasattr(x, "serialize") else json.dumps(x)), sort_keys=True) for x in store.query())
    # Only the "unchanged" clause is judged on this route (the exception class of add() is not part of the statement;
    # DataStoreMixin.add re-labels any AttributeError).  A bundle is several objects: partial addition of its good
    # members is outside the deciding set (DESIGN section 8).
    res = None
    if o.get("type") != "bundle":
        try:
            with warnings.catch_warnings():
                warnings.simplefilter("ignore")
                store.add(o)
            res = "returned"
        except Exception:
            res = "raised"
    if res == "raised":
        try:
            after = sorted(json.dumps(json.loads(x.serialize() if hasattr(x, "serialize") else json.dumps(x)), sort_keys=True) for x in store.query())
        except Exception as e:
            after = ["<query failed: %r>" % (e,)]
        ctx.ev()
        ctx.count("store_unchanged_checks")
        if after != before:
            ctx.violation("store-changed-by-failed-add", "MemoryStore contents changed although add() raised",
                          {"input": o, "before": before, "after": after[:5]})
    check_state(ctx, reg0, {"type": t, "fault": label})
    ctx.nontrivial("targeted", t, label)
    ctx.count("targeted")


WORKLOADS = [
    Workload("faults", wl_faults, quick=lambda: len(BASES), thorough=lambda: len(BASES) * 6, exhaustive=True),
    Workload("junk", wl_junk, quick=120, thorough=6000),
    Workload("targeted", wl_targeted, quick=lambda: len(TARGETED), thorough=lambda: len(TARGETED), exhaustive=True),
]


def floors(m, tier):
    c = m["counters"]
    out = []
    if c.get("timeouts", 0):
        out.append("%d cases hit the 20 s alarm (termination not decided on this machine)" % c["timeouts"])
    if c.get("faults", 0) < 20000:
        out.append("fewer than 20000 faults (%d)" % c.get("faults", 0))
    if c.get("raised_in_family", 0) < 20000:
        out.append("fewer than 20000 in-family refusals observed (%d): the workload is not reaching the validation code" % c.get("raised_in_family", 0))
    if c.get("store_unchanged_checks", 0) < 100:
        out.append("store-unchanged oracle evaluated fewer than 100 times")
    kinds = m["seen"].get("slot kinds", set())
    for need in ("string", "int", "ts", "list", "ref", "hashes", "extensions", "embedded", "dict", "bool", "enum", "id"):
        if need not in kinds:
            out.append("slot kind %s never corrupted" % need)
    return out


MANIFEST = {
    "text": ("Fault enumeration at the input boundary: every slot of a valid object of every type is replaced by every other JSON "
             "kind and by kind-specific malformed values, arbitrary junk JSON is parsed, and the inputs the library inspects "
             "before property cleaning get a dedicated exhaustive table; each call is observed for the class of exception that "
             "escapes, with registry and store snapshots around failures.  Held = no exception outside the documented family was "
             "observed on ~10^5 (quick) / ~10^6 (thorough) faulted calls."),
    "note": "assumes the documented family is STIXError/ValueError/TypeError; wall-clock alarms only ever yield inconclusive",
    "technique": "runtime monitoring with input-fault injection: exception-class monitor + state snapshots at the API boundary",
}
