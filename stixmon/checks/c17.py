"""C17 -- bad input is reported only through the library's error family.

Events: parse(x) / constructor -> returned | raised E, under a generous per-case alarm.
Oracle: E is an instance of stix2.exceptions.STIXError, ValueError or TypeError; registries
(type -> class identity) and, for store.add of a bad object, store contents are unchanged.
"""
import json
import signal
import traceback
import warnings

from ..ctx import Workload
from ..gen import corrupt
from ..gen import values as V
from ..gen.objects import ObjGen
from ..oracles import validator
from ..spec import model as M

ID = "C17"
LEVEL = "fault_enumeration"
SHARDS = {"quick": 8, "thorough": 16}
RULE = ("arbitrary JSON values (scalars, lists, objects with/without 'type', nesting to depth 300) as parser input, and every "
        "valid base object with each slot replaced by each of 17 other-kind JSON values plus kind-specific malformed values, "
        "at top level and inside embedded objects/extensions/containers, through parse(text), parse(dict), constructors and "
        "MemoryStore.add, with allow_custom both off and on; plus targeted faults in the inputs inspected before cleaning "
        "(extensions, type, spec_version, objects, definition_type/definition, custom_properties, positional conveniences).  "
        "Non-trivial: every faulted input; distinct = distinct (version, type, slot kind, fault, route)")
ASSUMPTIONS = [
    "the documented error family is stix2.exceptions.STIXError, ValueError (incl. JSONDecodeError, UnicodeError) and TypeError",
    "a per-case 20 s alarm firing is reported as inconclusive (wall clock is not a verdict), not as a violation",
    "lone surrogates are not generated",
]
VERSIONS = ["2.0", "2.1"]
from .c02 import BASES, TYPES, cls_for, make_base  # noqa: E402


class CaseTimeout(BaseException):
    pass


def _alarm(signum, frame):
    raise CaseTimeout()


def family():
    from stix2.exceptions import STIXError
    return (STIXError, ValueError, TypeError)


def registry_snapshot():
    from stix2 import registry
    snap = {}
    for ver, cats in registry.STIX2_OBJ_MAPS.items():
        for cat, mp in cats.items():
            for t, cls in mp.items():
                snap[(ver, cat, t)] = id(cls)
    return snap


def where_raised(exc):
    tb = traceback.extract_tb(exc.__traceback__)
    inner = None
    for fr in tb:
        if "/stix2/" in fr.filename and "/test/" not in fr.filename:
            inner = fr
    if inner is None:
        return "outside-stix2"
    return "%s:%s" % (inner.filename.split("/stix2/", 1)[1], inner.name)


def observe(ctx, label, fn, witness, reg_before=None):
    """Run one library call; judge the exception class."""
    ctx.ev()
    signal.signal(signal.SIGALRM, _alarm)
    signal.setitimer(signal.ITIMER_REAL, 20.0)
    try:
        with warnings.catch_warnings():
            warnings.simplefilter("ignore")
            res = fn()
            if res is not None and hasattr(res, "serialize") and ("strict" in label.split(" via ")[-1] or "versioned" in label.split(" via ")[-1]):
                # "a fully validated object": one that customisation did not touch can at least be written out
                try:
                    res.serialize()
                    ctx.count("returned_objects_serialized")
                except family() as e2:
                    if "not JSON compliant" in str(e2) or isinstance(e2, OverflowError):
                        ctx.violation("returned-object-not-serializable", "%s: returned an object whose serialize() raises %s (%s)" % (label, type(e2).__name__, str(e2)[:80]),
                                      dict(witness, exception=repr(e2)))
            elif res is not None and hasattr(res, "serialize"):
                # whatever customisation let in: writing the object out does not fail with an internal error either
                try:
                    res.serialize()
                    ctx.count("returned_objects_serialized")
                except family():
                    pass
                except CaseTimeout:
                    raise
                except Exception as e2:
                    ctx.violation("returned-object-serialize-escape:%s@%s" % (type(e2).__name__, where_raised(e2)), "%s: returned an object whose serialize() lets %s escape (%s)" % (
                        label, type(e2).__name__, str(e2)[:80]), dict(witness, exception=repr(e2)))
        ctx.count("returned")
        return "returned"
    except CaseTimeout:
        ctx.count("timeouts")
        return "timeout"
    except family():
        ctx.count("raised_in_family")
        return "family"
    except Exception as e:
        key = "escape:%s@%s" % (type(e).__name__, where_raised(e))
        w = dict(witness)
        w.update({"exception": type(e).__name__, "message": str(e)[:300], "raised_in": where_raised(e),
                  "traceback_tail": traceback.format_exc().splitlines()[-6:]})
        ctx.violation(key, "%s: %s escaped (%s)" % (label, type(e).__name__, str(e)[:120]), w)
        return "escape"
    finally:
        signal.setitimer(signal.ITIMER_REAL, 0)


def routes(ver, t, o):
    import stix2
    out = [
        ("parse-text/strict", lambda: stix2.parse(json.dumps(o), allow_custom=False)),
        ("parse-dict/strict", lambda: stix2.parse(o, allow_custom=False)),
        ("parse-text/custom", lambda: stix2.parse(json.dumps(o), allow_custom=True)),
        ("parse-dict/versioned", lambda: stix2.parse(o, allow_custom=False, version=ver)),
    ]
    cls = cls_for(ver, t) if isinstance(t, str) else None
    if cls is not None and isinstance(o, dict) and all(isinstance(k, str) for k in o):
        out.append(("constructor/strict", lambda: cls(allow_custom=False, **o)))
        out.append(("constructor/custom", lambda: cls(allow_custom=True, **o)))
    return out


def check_state(ctx, reg0, witness):
    reg1 = registry_snapshot()
    if reg1 != reg0:
        changed = [k for k in set(reg0) | set(reg1) if reg0.get(k) != reg1.get(k)]
        ctx.violation("registry-changed-by-failed-construction", "type registries changed while processing bad input",
                      dict(witness, changed=[list(k) for k in changed[:5]]))


def wl_faults(ctx, rng, i):
    ver, bname = BASES[i % len(BASES)]
    rnd = i // len(BASES)
    g = ObjGen(rng, ver, hostile=False, ts_max_digits=6, openvocab_custom=False)
    t, o = make_base(g, ver, bname, "max" if rnd % 2 == 0 else "random", granular=False)
    if validator.validate(o, ver):
        ctx.skip("generator error")
        return
    reg0 = registry_snapshot()
    n = 0
    for label, where, oo in corrupt.corruptions(ver, o):
        parts = label.split("|")
        generic = len(parts) > 2 and parts[2].startswith("kind:")
        rs = routes(ver, t, oo)
        if ctx.tier == "quick" and not generic:
            rs = rs[:2] + rs[4:5]
        elif ctx.tier == "quick":
            rs = [rs[1], rs[2]] + rs[4:5]
        for rname, fn in rs:
            observe(ctx, "%s %s fault %s at %s via %s" % (ver, t, label, where, rname), fn,
                    {"version": ver, "type": t, "fault": label, "where": where, "route": rname, "input": oo})
            ctx.see("routes", rname)
        ctx.nontrivial(ver, t, label)
        ctx.see("fault kinds", parts[-1] if not generic else parts[2])
        ctx.see("slot kinds", parts[1] if len(parts) > 1 else "?")
        n += 1
        ctx.count("faults")
    check_state(ctx, reg0, {"version": ver, "type": t})
    if ctx.want_sample():
        ctx.sample({"version": ver, "type": t, "base": o, "faults_applied": n})


EXTRA_VALUES = [10 ** 400, -(10 ** 400), 2 ** 63, 1e308, -1e-320, "\u0000", "a" * 70000, [[]], [{}], {"": None}, {"extension_type": "toplevel-property-extension"},
                {"extension_type": "property-extension"}, {"extension_type": "new-sdo"}, "toplevel-property-extension", 0.0, -0.0]


def nested(depth, leaf, kind):
    v = leaf
    for j in range(depth):
        k = kind if kind != "mixed" else ("list" if j % 2 else "dict")
        v = [v] if k == "list" else {"a": v}
    return v


def ext_faults(ver, rng):
    """odd values for the raw `extensions` argument, which is inspected before it is cleaned"""
    m = M.model(ver)
    reg = sorted(m.extensions)
    edef = "extension-definition--d83fce45-ef58-4c6c-a3f4-1fbc32e98c6e"
    et = rng.choice(["toplevel-property-extension", "property-extension", "new-sdo", "new-sco", "new-sro", 5, None, ["x"], {"a": 1}, ""])
    body = rng.choice([{}, {"x_a": 1}, {"a": [1]}, {"extension_type": et}, {"extension_type": et, "foo": "bar"}])
    body = dict(body)
    if rng.random() < 0.7:
        body["extension_type"] = et
    key = rng.choice(reg + [edef, edef, "x-unregistered-ext", "", "extension-definition--bad"])
    if rng.random() < 0.3:
        return {edef: {"extension_type": "property-extension", "x_a": 1}}        # well formed: what follows the extensions check is reached
    out = {key: body}
    if rng.random() < 0.3:
        out[rng.choice(reg + [edef])] = rng.choice([{}, 5, None, {"extension_type": "toplevel-property-extension"}, {"extension_type": "property-extension", "v": 1}])
    return out


def wl_multi(ctx, rng, i):
    """Several property values replaced / removed at once, incl. the raw extensions argument."""
    ver, bname = BASES[i % len(BASES)]
    g = ObjGen(rng, ver, hostile=False, ts_max_digits=6, openvocab_custom=False)
    t, o = make_base(g, ver, bname, rng.choice(["max", "random", "random"]), granular=False)
    if validator.validate(o, ver):
        ctx.skip("generator error")
        return
    m = M.model(ver)
    reg0 = registry_snapshot()
    import copy
    for rep in range(12):
        oo = copy.deepcopy(o)
        applied = []
        if ver == "2.1" and m.types[t]["cat"] == "sco" and rng.random() < 0.4:
            oo.pop("id", None)            # the identifier is then computed from the (faulted) contributing properties
            applied.append("remove id")
        for _ in range(rng.choice([2, 2, 3, 4])):
            try:
                sl, objects = corrupt.slots(ver, oo)
            except Exception:
                break
            r = rng.random()
            if r < 0.2:
                path, tbl, section = rng.choice(objects)
                host = corrupt.get(oo, path)
                if isinstance(host, dict):
                    host["extensions"] = ext_faults(ver, rng)
                    applied.append("%s.extensions:=odd" % ".".join(map(str, path)))
                continue
            if not sl:
                break
            s_ = rng.choice(sl)
            try:
                v = corrupt.get(oo, s_.path)
            except Exception:
                continue
            if r < 0.4:
                try:
                    corrupt.delp(oo, s_.path)
                    applied.append("remove %s" % ".".join(map(str, s_.path)))
                except Exception:
                    pass
                continue
            if s_.kind["k"] in ("int", "float") and r < 0.7:
                nv, lab = rng.choice([10 ** 400, -(10 ** 400), 2 ** 63, 2 ** 53 + 1, 1e308, -1e308, 5e-324]), "numeric-extreme"
            elif r < 0.6:
                nv, lab = copy.deepcopy(rng.choice(corrupt.JUNK)), "junk"
            elif r < 0.75:
                nv, lab = copy.deepcopy(rng.choice(EXTRA_VALUES)), "extra"
            else:
                try:
                    ks = corrupt.kind_specific(ver, s_, v, m)      # written for valid current values; v may already be faulted
                except Exception:
                    ks = []
                if not ks:
                    continue
                lab, nv = rng.choice(ks)
            try:
                corrupt.setp(oo, s_.path, nv)
                applied.append("%s:=%s" % (".".join(map(str, s_.path)), lab))
            except Exception:
                pass
        if not applied:
            continue
        try:
            json.dumps(oo)
        except Exception:
            continue
        for rname, fn in routes(ver, t, oo):
            observe(ctx, "%s %s multi-fault [%s] via %s" % (ver, t, "; ".join(applied), rname), fn,
                    {"version": ver, "type": t, "faults": applied, "route": rname, "input": oo})
        ctx.nontrivial(ver, t, tuple(a.split(":=")[-1][:20] for a in applied), rep)
        ctx.count("multi_faults")
        ctx.see("multi-fault sizes", len(applied))
    check_state(ctx, reg0, {"version": ver, "type": t, "workload": "multi"})


DEPTHS = [60, 150, 330, 700, 900, 940, 960, 975, 985, 992]      # up to where this interpreter's json module still decodes from here


def wl_deep(ctx, rng, i):
    """Deeply nested values (decodable by this interpreter's json module from this call depth) in every slot position."""
    import copy
    import stix2
    ver, bname = BASES[i % len(BASES)]
    g = ObjGen(rng, ver, hostile=False, ts_max_digits=6, openvocab_custom=False)
    t, o = make_base(g, ver, bname, "random", granular=False)
    if validator.validate(o, ver):
        ctx.skip("generator error")
        return
    reg0 = registry_snapshot()
    sl, objects = corrupt.slots(ver, o)
    targets = [("slot", s_.path) for s_ in rng.sample(sl, min(4, len(sl)))]
    targets += [("custom", path + ("x_deep",)) for path, tbl, section in rng.sample(objects, min(2, len(objects)))]
    targets += [("extension", ("extensions",)), ("whole", ())]
    for what, path in targets:
        depth = rng.choice(DEPTHS)
        kind = rng.choice(["list", "dict", "mixed"])
        leaf = rng.choice([1, "x", None, {"type": "identity"}, {"extension_type": "toplevel-property-extension"}])
        v = nested(depth, leaf, kind)
        oo = copy.deepcopy(o)
        if ver == "2.1" and M.model(ver).types[t]["cat"] == "sco" and rng.random() < 0.5:
            oo.pop("id", None)            # the identifier is then computed from (possibly very deep) contributing content
        if what == "whole":
            oo = nested(depth, oo, kind) if rng.random() < 0.5 else {"type": "bundle", "id": "bundle--d83fce45-ef58-4c6c-a3f4-1fbc32e98c6e", "objects": nested(depth, oo, "list")}
        elif what == "extension":
            oo["extensions"] = {rng.choice(["extension-definition--d83fce45-ef58-4c6c-a3f4-1fbc32e98c6e", "x-deep-ext", "archive-ext"]): v if isinstance(v, dict) else {"a": v}}
        else:
            try:
                corrupt.setp(oo, path, v)
            except Exception:
                continue
        try:
            text = json.dumps(oo)
            json.loads(text)
        except (RecursionError, ValueError):
            ctx.count("deep_not_decodable_here")
            continue
        w = {"version": ver, "type": t, "where": "%s %s" % (what, ".".join(map(str, path))), "depth": depth, "nesting": kind, "leaf": leaf}
        rs = [("parse-text/strict", lambda: stix2.parse(text)), ("parse-text/custom", lambda: stix2.parse(text, allow_custom=True)),
              ("parse-dict/versioned/custom", lambda: stix2.parse(oo, allow_custom=True, version=ver))]
        if isinstance(oo, dict) and M.model(ver).types.get(t, {}).get("cat") == "sco" or ver == "2.0" and t in M.model("2.0").types and M.model("2.0").types[t].get("cat") == "sco":
            rs.append(("parse_observable/custom", lambda: stix2.parse_observable(oo, allow_custom=True, version=ver)))
            rs.append(("parse_observable-text", lambda: stix2.parse_observable(text, version=ver)))
        cls = cls_for(ver, t)
        if cls is not None and isinstance(oo, dict) and what != "whole":
            rs.append(("constructor/custom", lambda: cls(allow_custom=True, **oo)))
            rs.append(("constructor/strict", lambda: cls(**oo)))
        for rname, fn in rs:
            r = observe(ctx, "%s %s nested %d deep (%s) at %s via %s" % (ver, t, depth, kind, w["where"], rname), fn, dict(w, route=rname))
            ctx.see("deep outcomes", r)
        ctx.nontrivial("deep", ver, t, what, depth, kind)
        ctx.count("deep_inputs")
        ctx.see("depths", depth)
    # the same base with a granular marking whose selector addresses nothing, and a very deep custom property: the walk that
    # checks selectors runs outside property cleaning
    if M.model(ver).can_carry_granular(t) and not (ver == "2.0" and M.model(ver).types[t]["cat"] == "sco"):
        for depth in rng.sample([700, 940, 975, 985, 990, 992, 994], 3):
            oo = copy.deepcopy(o)
            oo["x_deep"] = nested(depth, 1, rng.choice(["dict", "mixed"]))
            oo["granular_markings"] = [{"marking_ref": "marking-definition--d83fce45-ef58-4c6c-a3f4-1fbc32e98c6e", "selectors": ["zzz_no_such_property"]}]
            try:
                text = json.dumps(oo)
                json.loads(text)
            except (RecursionError, ValueError):
                continue
            observe(ctx, "%s %s with a dangling selector and a custom property nested %d deep via parse-text/custom" % (ver, t, depth),
                    lambda: stix2.parse(text, allow_custom=True), {"version": ver, "type": t, "depth": depth, "selector": "zzz_no_such_property"})
            ctx.count("deep_selector_walks")
    # text nested beyond what this interpreter's json module decodes at all: refused through the family, too
    if i % 5 == 0:
        for depth in (1500, 20000):
            for text in ("[" * depth + "]" * depth, '{"type":"identity","x":' + '{"a":' * depth + "1" + "}" * depth + "}"):
                observe(ctx, "JSON text nested %d levels via parse-text" % depth, lambda: stix2.parse(text), {"depth": depth, "text_head": text[:40]})
                observe(ctx, "JSON text nested %d levels via parse_observable" % depth, lambda: stix2.parse_observable(text, version="2.1"), {"depth": depth, "text_head": text[:40]})
                # ... and the same content arriving as bytes or from a file-like object (text or binary)
                import io
                for form, mk in (("bytes", lambda: text.encode()), ("text stream", lambda: io.StringIO(text)), ("binary stream", lambda: io.BytesIO(text.encode()))):
                    observe(ctx, "JSON nested %d levels given as %s via parse" % (depth, form), lambda: stix2.parse(mk()), {"depth": depth, "form": form, "text_head": text[:40]})
                    observe(ctx, "JSON nested %d levels given as %s via parse_observable" % (depth, form), lambda: stix2.parse_observable(mk(), version="2.1"), {"depth": depth, "form": form})
                ctx.count("undecodable_texts")
            # ... and sitting in a file a store is pointed at (the stores read their files themselves)
            import os
            import shutil
            import tempfile
            tmpd = tempfile.mkdtemp(prefix="stixmon-c17-")
            try:
                deep_text = '{"type":"identity","id":"identity--d83fce45-ef58-4c6c-a3f4-1fbc32e98c6e","x":' + '{"a":' * depth + "1" + "}" * depth + "}"
                fp = os.path.join(tmpd, "deep.json")
                with open(fp, "w") as f:
                    f.write(deep_text)
                os.makedirs(os.path.join(tmpd, "fs", "identity"))
                shutil.copy(fp, os.path.join(tmpd, "fs", "identity", "identity--d83fce45-ef58-4c6c-a3f4-1fbc32e98c6e.json"))
                src = stix2.FileSystemSource(os.path.join(tmpd, "fs"), allow_custom=True)
                for rname, fn in (("MemoryStore.load_from_file", lambda: stix2.MemoryStore(allow_custom=True).load_from_file(fp)),
                                  ("MemorySource.load_from_file", lambda: stix2.MemorySource(allow_custom=True).load_from_file(fp)),
                                  ("FileSystemSource.get", lambda: src.get("identity--d83fce45-ef58-4c6c-a3f4-1fbc32e98c6e")),
                                  ("FileSystemSource.all_versions", lambda: src.all_versions("identity--d83fce45-ef58-4c6c-a3f4-1fbc32e98c6e")),
                                  ("FileSystemSource.query", lambda: src.query([stix2.Filter("type", "=", "identity")]))):
                    observe(ctx, "a file holding JSON nested %d levels via %s" % (depth, rname), fn, {"depth": depth, "route": rname})
                ctx.count("undecodable_files")
            finally:
                shutil.rmtree(tmpd, ignore_errors=True)
    check_state(ctx, reg0, {"version": ver, "type": t, "workload": "deep"})


def wl_shadow(ctx, rng, i):
    """A failed parse of a not yet registered type leaves nothing behind: once the type is registered, it parses to its class."""
    import stix2
    from stix2 import properties as P
    ver = VERSIONS[i % 2]
    mod = stix2.v20 if ver == "2.0" else stix2.v21
    kind = ["object", "observable"][(i // 2) % 2] if ver == "2.1" else "object"     # 2.0 observables have no top-level form
    name = "x-stixmon-c17-%s-%d-%s" % (ctx.seed, i, kind[:3])
    uid = "d83fce45-ef58-4c6c-a3f4-1fbc32e98c6e"
    obj = {"type": name, "id": "%s--%s" % (name, uid), "pname": "v"}
    if kind == "object":
        obj.update({"created": "2020-01-01T00:00:00.000Z", "modified": "2020-01-01T00:00:00.000Z"})
    if ver == "2.1":
        obj["spec_version"] = "2.1"
    w = {"version": ver, "kind": kind, "type": name, "object": obj}
    pre = rng.choice(["strict", "lenient", "bundle", "store", "strict+junk"])
    bad = dict(obj)
    if pre == "strict+junk":
        bad["pname"] = 5
    reg0 = registry_snapshot()
    try:
        with warnings.catch_warnings():
            warnings.simplefilter("ignore")
            if pre in ("strict", "strict+junk"):
                stix2.parse(bad, version=ver)
            elif pre == "lenient":
                stix2.parse(bad, allow_custom=True, version=ver)
            elif pre == "bundle":
                stix2.parse({"type": "bundle", "id": "bundle--" + uid, "objects": [bad]}, version=ver)
            else:
                stix2.MemoryStore(allow_custom=False).add(bad, version=ver)
        first = "returned"
    except family():
        first = "refused"
    except Exception as e:
        first = "escape"
        ctx.violation("escape:%s@%s" % (type(e).__name__, where_raised(e)), "parse of unregistered type raised %s" % type(e).__name__, dict(w, pre=pre))
    ctx.ev()
    if first == "refused":
        check_state(ctx, reg0, dict(w, pre=pre))
    if kind == "object":
        @mod.CustomObject(name, [("pname", P.StringProperty(required=True))])
        class Late(object):
            pass
    else:
        if ver == "2.1":
            @mod.CustomObservable(name, [("pname", P.StringProperty(required=True))], ["pname"])
            class Late(object):
                pass
        else:
            @mod.CustomObservable(name, [("pname", P.StringProperty(required=True))])
            class Late(object):
                pass
    try:
        got = stix2.parse(obj, version=ver)
        ok = isinstance(got, Late)
        how = type(got).__name__
    except Exception as e:
        ok, how = False, "%s: %s" % (type(e).__name__, str(e)[:120])
    ctx.ev()
    ctx.count("shadow_histories")
    ctx.see("shadow pre-steps", pre + "/" + first)
    ctx.nontrivial("shadow", ver, kind, pre)
    if not ok:
        ctx.violation("failed-parse-left-state-behind", "after a %s parse of the unregistered type %s (%s), registering it does not make it parse to its class: %s" % (pre, name, first, how),
                      dict(w, pre=pre, first=first, outcome=how))


def wl_subclass(ctx, rng, i):
    """A subclass of a public class is constructed like the class itself."""
    ver, bname = BASES[i % len(BASES)]
    g = ObjGen(rng, ver, hostile=False, ts_max_digits=6, openvocab_custom=False)
    t, o = make_base(g, ver, bname, "random", granular=False)
    cls = cls_for(ver, t)
    if cls is None or validator.validate(o, ver):
        ctx.skip("generator error")
        return
    sub = type("Sub" + cls.__name__, (cls,), {})
    r = observe(ctx, "%s subclass of %s via constructor" % (ver, cls.__name__), lambda: sub(**json.loads(json.dumps(o))), {"version": ver, "type": t, "input": o})
    ctx.count("subclass_constructions")
    ctx.nontrivial("subclass", ver, t)
    if r == "family":
        try:
            cls(**json.loads(json.dumps(o)))
            ctx.violation("subclass-refused", "a plain subclass of %s refuses what the class accepts" % cls.__name__, {"version": ver, "type": t, "input": o})
        except Exception:
            pass


def wl_stores(ctx, rng, i):
    """A failed add leaves the stores as they were (also for dictionary-kept objects and on disk)."""
    import os
    import shutil
    import tempfile
    import stix2
    u = "d83fce45-ef58-4c6c-a3f4-1fbc32e98c%02x" % (i % 250)
    good = {"type": "x-stixmon-kept", "id": "x-stixmon-kept--" + u, "created": "2020-01-01T00:00:00Z", "modified": "2020-01-01T00:00:00Z", "name": "v1"}
    bads = [dict(good, modified=rng.choice([3, [], {}, None, True, 1.5, "junk", ["2020-01-01T00:00:00Z"]]), name="bad"),
            dict(good, id="x-stixmon-kept--" + u[:-2] + "ff", modified=rng.choice([[], {}, 3]), name="bad-first")]
    tmp = tempfile.mkdtemp(prefix="stixmon-c17-")
    try:
        ms = stix2.MemoryStore()
        fs = stix2.FileSystemStore(tmp, allow_custom=True)
        ms.add(dict(good))
        fs.add(dict(good))

        def snap_mem():
            return sorted(json.dumps(x, sort_keys=True, default=str) for x in ms.query()) + [repr(ms.get(b["id"])) for b in bads[1:]]

        def snap_fs():
            return sorted(os.path.join(dp, f)[len(tmp):] + ":%d" % os.path.getsize(os.path.join(dp, f)) for dp, dn, fn in os.walk(tmp) for f in fn + dn)
        unserial = stix2.v21.Identity(id="identity--" + u, name="n", x_inf=float(rng.choice(["inf", "-inf", "nan"])), allow_custom=True)
        # several objects in one add (a list, a bundle dictionary, bundle text), a later one of which is refused: nothing of the lot is kept
        fresh = [dict(good, id="x-stixmon-kept--" + u[:-2] + "%02x" % k, name="fresh %d" % k) for k in (0xa0, 0xa1)]
        fresh_obj = stix2.v21.Identity(id="identity--" + u[:-2] + "a2", name="fresh object")
        refused = rng.choice([{"type": "identity", "spec_version": "2.1", "id": "identity--" + u, "name": 5, "bogus": 1}, {"type": "identity", "id": "not an id", "name": "n"},
                              {"type": "x-stixmon-kept"}, {}, {"id": "x-stixmon-kept--" + u}, dict(good, id="../../x-escape-%s" % u[-4:]),
                              dict(good, type="../x-escape", id="x-stixmon-kept--" + u[:-2] + "a3"), "{not json", 5,
                              # refused only by the version bookkeeping (the stored version of this id is compared with a junk modified) ...
                              dict(good, modified=[], name="junk modified on a stored id"), dict(good, modified=7, name="junk modified on a stored id"),
                              # ... an unversioned copy of an id stored with versions ...
                              {k_: v_ for k_, v_ in good.items() if k_ != "modified"},
                              # ... and ids no file can be named after
                              dict(good, id="x-stixmon-kept--\x00" + u[:-2] + "a4"), dict(good, id="x-stixmon-kept--" + "a" * 300)])
        pos = rng.choice(["last", "middle"])
        # (among the members that would be fine: a new version of an id the store holds already)
        members = [dict(good, modified="2021-01-01T00:00:00Z", name="a further version of a stored id")] + fresh + [fresh_obj]
        lot = members + [refused] if pos == "last" else members[:1] + [refused] + members[1:]
        lot_json = [json.loads(x.serialize()) if hasattr(x, "serialize") else x for x in lot]
        batches = [("list", lot), ("bundle dictionary", {"type": "bundle", "id": "bundle--" + u, "objects": lot_json})]
        if all(isinstance(x, dict) for x in lot_json):
            batches.append(("bundle text", json.dumps({"type": "bundle", "id": "bundle--" + u, "objects": lot_json})))
        ctx.see("refused members of a lot", (type(refused).__name__ + ":" + ",".join(sorted(refused))) if isinstance(refused, dict) else type(refused).__name__)
        for label, store, snapf, item in [("MemoryStore", ms, snap_mem, b) for b in bads] + [("FileSystemStore", fs, snap_fs, b) for b in bads] + \
                [("FileSystemStore", fs, snap_fs, unserial), ("FileSystemStore", fs, snap_fs, stix2.v21.Identity(id="identity--" + u[:-2] + "ee", name="unencodable \ud800 name"))] + \
                [("MemoryStore", ms, snap_mem, ("lot", b)) for b in batches if b[0] != "bundle text"] + [("FileSystemStore", fs, snap_fs, ("lot", b)) for b in batches]:
            before = snapf()
            outside_before = sorted(os.listdir(os.path.dirname(tmp)))
            islot = isinstance(item, tuple) and item[0] == "lot"
            try:
                with warnings.catch_warnings():
                    warnings.simplefilter("ignore")
                    if islot:
                        store.add(json.loads(json.dumps(item[1][1], default=lambda x: json.loads(x.serialize()))) if item[1][0] != "list" else list(item[1][1]))
                    else:
                        store.add(item if not isinstance(item, dict) else dict(item))
                if islot and label == "FileSystemStore" and isinstance(refused, dict) and any(".." in str(refused.get(k, "")) for k in ("id", "type")):
                    ctx.ev()
                    ctx.violation("store-wrote-outside-its-directory", "%s accepted an object whose %s leaves the store directory" % (label, "id/type"),
                                  {"store": label, "member": refused, "directory_listing_outside": sorted(set(os.listdir(os.path.dirname(tmp))) - set(outside_before))[:5]})
                continue            # accepted: not this clause's business
            except family():
                pass
            except Exception as e:
                from stix2.datastore import DataSourceError
                if not isinstance(e, DataSourceError):     # (the stores' own documented error, e.g. for a version which is there already)
                    ctx.ev()
                    ctx.violation("escape:%s@store-add" % type(e).__name__, "%s.add(%s) let %s escape: %s" % (label, "a lot with a refused member" if islot else "a refused object", type(e).__name__, str(e)[:120]),
                                  {"store": label, "item": repr(item)[:400], "exception": repr(e)[:300]})
            ctx.ev()
            ctx.count("store_unchanged_checks")
            ctx.count("failed_adds_judged")
            try:
                after = snapf()
            except Exception as e:
                after = ["<reading the store failed: %r>" % (e,)]
            if after != before:
                ctx.violation("store-changed-by-failed-add", "%s contents changed although add() raised" % label,
                              {"store": label, "item": repr(item)[:300], "before": before[:6], "after": after[:6]})
        # a saved file is part of what the store keeps: a save which fails leaves the file that was there
        saved = os.path.join(tmp, "saved-before.json")
        try:
            keep = stix2.MemoryStore([stix2.v21.Identity(id="identity--" + u[:-2] + "b0", name="saved")])
            keep.save_to_file(saved)
            before_bytes = open(saved, "rb").read()
            keep.add(rng.choice([unserial, stix2.v21.Identity(id="identity--" + u[:-2] + "b1", name="unencodable \ud800 name"),
                                 stix2.v21.Identity(id="identity--" + u[:-2] + "b2", name="caf\u00e9 needs more than ASCII")]))
            try:
                with warnings.catch_warnings():
                    warnings.simplefilter("ignore")
                    keep.save_to_file(saved, encoding="ascii")
                failed = False
            except Exception:
                failed = True
            if failed:
                ctx.ev()
                ctx.count("store_unchanged_checks")
                ctx.count("failed_saves_judged")
                if open(saved, "rb").read() != before_bytes:
                    ctx.violation("saved-file-destroyed-by-failed-save", "save_to_file raised and left %d bytes of the %d that were in the file" % (os.path.getsize(saved), len(before_bytes)),
                                  {"store": "MemoryStore.save_to_file", "bytes_before": len(before_bytes), "bytes_after": os.path.getsize(saved)})
        except family():
            pass
        ctx.nontrivial("stores", i % 50)
    finally:
        shutil.rmtree(tmp, ignore_errors=True)


def junk(rng, depth):
    r = rng.random()
    if depth <= 0 or r < 0.4:
        return rng.choice([None, True, False, 0, -1, 1.5, "", "junk", "identity", "bundle", "2.1", "2.0", 2 ** 70, 1e308,
                           "identity--d83fce45-ef58-4c6c-a3f4-1fbc32e98c6e", "2020-01-01T00:00:00Z", "\u0000", "\U0001f600"])
    if r < 0.6:
        return [junk(rng, depth - 1) for _ in range(rng.randrange(0, 4))]
    keys = ["type", "id", "spec_version", "objects", "extensions", "created", "modified", "name", "definition", "definition_type",
            "granular_markings", "object_marking_refs", "selectors", "hashes", "custom_properties", "x_foo", "", "0", "labels",
            "extension_type", "pattern", "pattern_type", "source_ref", "target_ref", "relationship_type", "value", "number"]
    d = {}
    for _ in range(rng.randrange(0, 6)):
        d[rng.choice(keys)] = junk(rng, depth - 1)
    return d


def wl_junk(ctx, rng, i):
    import stix2
    m21 = M.model("2.1")
    alltypes = sorted(set(m21.types) | set(M.model("2.0").types))
    reg0 = registry_snapshot()
    for j in range(25):
        v = junk(rng, rng.choice([1, 2, 3, 5]))
        if isinstance(v, dict) and rng.random() < 0.7:
            v["type"] = rng.choice(alltypes + ["x-unknown", 5, None, ["identity"], {"a": 1}])
            if rng.random() < 0.5:
                v["id"] = rng.choice(["%s--d83fce45-ef58-4c6c-a3f4-1fbc32e98c6e" % v["type"], 5, None, "x"])
            if rng.random() < 0.3:
                v["spec_version"] = rng.choice(["2.1", "2.0", "3.0", 2.1, None, ["2.1"], ""])
        if j == 0 and i % 20 == 0:
            deep = v
            for _ in range(rng.choice([50, 150, 300])):
                deep = {"type": "bundle", "objects": [deep]} if rng.random() < 0.5 else [deep]
            v = deep
        try:
            text = json.dumps(v)
        except (ValueError, RecursionError):
            continue
        w = {"input": v}
        for rname, fn in (("parse-text/strict", lambda: stix2.parse(text)), ("parse-value/strict", lambda: stix2.parse(v)),
                          ("parse-text/custom", lambda: stix2.parse(text, allow_custom=True)),
                          ("parse-value/v20", lambda: stix2.parse(v, version="2.0")),
                          ("parse-value/v21/custom", lambda: stix2.parse(v, allow_custom=True, version="2.1")),
                          ("parse_observable", lambda: stix2.parse_observable(v)),
                          ("parse_observable/v20", lambda: stix2.parse_observable(text, {"0": "file"}, version="2.0"))):
            observe(ctx, "junk via %s" % rname, fn, dict(w, route=rname))
            ctx.see("routes", rname)
        ctx.nontrivial("junk", text)
        ctx.count("junk_values")
    check_state(ctx, reg0, {"workload": "junk"})


def targeted_cases():
    """Inputs inspected before cleaning."""
    idn = {"type": "identity", "spec_version": "2.1", "id": "identity--d83fce45-ef58-4c6c-a3f4-1fbc32e98c6e",
           "created": "2020-01-01T00:00:00.000Z", "modified": "2020-01-01T00:00:00.000Z", "name": "n", "identity_class": "individual"}
    f21 = {"type": "file", "spec_version": "2.1", "id": "file--d83fce45-ef58-4c6c-a3f4-1fbc32e98c6e", "name": "f"}
    md = {"type": "marking-definition", "spec_version": "2.1", "id": "marking-definition--d83fce45-ef58-4c6c-a3f4-1fbc32e98c6e",
          "created": "2020-01-01T00:00:00.000Z", "definition_type": "statement", "definition": {"statement": "s"}}
    bun = {"type": "bundle", "id": "bundle--d83fce45-ef58-4c6c-a3f4-1fbc32e98c6e", "objects": [idn]}
    od20 = {"type": "observed-data", "id": "observed-data--d83fce45-ef58-4c6c-a3f4-1fbc32e98c6e", "created": "2020-01-01T00:00:00.000Z",
            "modified": "2020-01-01T00:00:00.000Z", "first_observed": "2020-01-01T00:00:00Z", "last_observed": "2020-01-01T00:00:00Z",
            "number_observed": 1, "objects": {"0": {"type": "file", "name": "f"}}}
    rel = {"type": "relationship", "spec_version": "2.1", "id": "relationship--d83fce45-ef58-4c6c-a3f4-1fbc32e98c6e",
           "created": "2020-01-01T00:00:00.000Z", "modified": "2020-01-01T00:00:00.000Z", "relationship_type": "uses",
           "source_ref": "malware--d83fce45-ef58-4c6c-a3f4-1fbc32e98c6e", "target_ref": "tool--d83fce45-ef58-4c6c-a3f4-1fbc32e98c6e"}
    cases = []
    J = corrupt.JUNK + ["toplevel-property-extension", [{"extension_type": "toplevel-property-extension"}]]
    for base in (idn, f21, md, od20, rel):
        for k in ("extensions", "type", "spec_version", "id", "custom_properties", "granular_markings", "object_marking_refs", "created",
                  "definition_type", "definition", "objects", "source_ref", "relationship_type", "target_ref", "sighting_of_ref"):
            for j in J:
                o = dict(base)
                o[k] = j
                cases.append((base["type"], "%s=%s" % (k, json.dumps(j)[:30]), o))
        for ext in ({"x": "y"}, {"x": 5}, {"x": None}, {"x": [1]}, {"extension-definition--d83fce45-ef58-4c6c-a3f4-1fbc32e98c6e": 5},
                    {"extension-definition--d83fce45-ef58-4c6c-a3f4-1fbc32e98c6e": {"extension_type": 5}},
                    {"extension-definition--d83fce45-ef58-4c6c-a3f4-1fbc32e98c6e": {"extension_type": ["toplevel-property-extension"]}},
                    {"extension-definition--bad": {"extension_type": "property-extension"}}, {"archive-ext": 5}, {"archive-ext": [1]},
                    {"ntfs-ext": {"alternate_data_streams": 5}}, {5: {}}, {"": {}}, {"windows-pebinary-ext": {"pe_type": "exe", "sections": [5]}}):
            o = dict(base)
            o["extensions"] = ext
            cases.append((base["type"], "extensions=%r" % (ext,), o))
    # property names the library itself looks at (markings, extensions, versioning) on types which do not define them: there they are
    # custom properties of any shape
    er = {"source_name": "s", "url": "u"}
    for k in ("granular_markings", "object_marking_refs", "extensions", "revoked", "modified", "created", "spec_version", "labels"):
        for j in J + [[5], [{"selectors": 5}], [["a"]], [{"selectors": ["name"], "marking_ref": 5}]]:
            cases.append(("bundle", "bundle.%s=%s" % (k, json.dumps(j)[:30]), dict(bun, **{k: j})))
            cases.append(("identity", "external_references[0].%s=%s" % (k, json.dumps(j)[:30]), dict(idn, external_references=[dict(er, **{k: j})])))
            cases.append(("observed-data", "2.0 objects.0.%s=%s" % (k, json.dumps(j)[:30]), dict(od20, objects={"0": dict({"type": "file", "name": "f"}, **{k: j})})))
    for objs in J + [[{}], [{"type": "identity"}], [{"id": "x"}], [[idn]], [idn, 5], {"0": idn}, [{"type": "bundle", "objects": []}], [{"type": ["x"]}],
                     [{"type": "identity", "spec_version": 5}], [{"type": "x-foo", "extensions": 5}], [{"type": "x-foo", "extensions": {"extension-definition--x": 5}}]]:
        o = dict(bun)
        o["objects"] = objs
        cases.append(("bundle", "objects=%s" % json.dumps(objs)[:40], o))
        o = dict(bun)
        o["objects"] = objs
        o["spec_version"] = "2.0"
        cases.append(("bundle", "2.0 objects=%s" % json.dumps(objs)[:40], o))
    for objs in J + [{"0": 5}, {"0": {}}, {"0": {"type": 5}}, {"0": {"type": "file", "extensions": 5}}, {"0": {"type": "file", "name": "f", "parent_directory_ref": 5}},
                     {"0": {"type": "file", "name": "f", "contains_refs": [5]}}, {"0": {"type": "email-message", "is_multipart": True, "body_multipart": [5]}},
                     {5: {"type": "file", "name": "f"}}, {"0": {"type": "x-unknown"}}, {"0": {"type": "file", "name": "f", "parent_directory_ref": "1"}, "1": "directory"}]:
        o = dict(od20)
        o["objects"] = objs
        cases.append(("observed-data", "objects=%r" % (objs,), o))
    # marking-definition: definition_type x definition x extensions jointly (its constructor and constraints read all three)
    ABSENT = object()
    edef = "extension-definition--d83fce45-ef58-4c6c-a3f4-1fbc32e98c6e"
    for spec in ("2.1", "2.0"):
        for dt in (ABSENT, "tlp", "statement", "x-unknown", 5, None):
            for df in (ABSENT, {"tlp": "white"}, {"statement": "s"}, {}, 5, None, "x"):
                for ext in (ABSENT, {edef: {"extension_type": "property-extension", "x_a": 1}}, {}):
                    o = {k: v for k, v in md.items() if k not in ("definition_type", "definition")}
                    if spec == "2.0":
                        del o["spec_version"]
                    for k, v in (("definition_type", dt), ("definition", df), ("extensions", ext)):
                        if v is not ABSENT:
                            o[k] = v
                    cases.append(("marking-definition", "%s joint %s" % (spec, json.dumps({k: o.get(k, "<absent>") for k in ("definition_type", "definition", "extensions")})[:90]), o))
    # a type-less / id-less / unknown-type object with odd extensions (unregistered-type shortcut in dict_to_stix2)
    for ext in J + [{"extension-definition--x": 5}, {"extension-definition--x": {"extension_type": 5}}, {"extension-definition--x": None}, {"a": "b"}]:
        cases.append(("x-unknown-type", "extensions=%r" % (ext,), {"type": "x-unknown-type", "id": "x-unknown-type--d83fce45-ef58-4c6c-a3f4-1fbc32e98c6e", "extensions": ext}))
    return cases


TARGETED = targeted_cases()


def wl_targeted(ctx, rng, i):
    import stix2
    t, label, o = TARGETED[i]
    ver = validator.guess_version(o) if isinstance(o.get("type"), str) else "2.1"
    reg0 = registry_snapshot()
    try:
        json.dumps(o)
        enc = True
    except Exception:
        enc = False
    for rname, fn in routes(ver, t if isinstance(o.get("type"), str) and o.get("type") == t else None, o):
        if "text" in rname and not enc:
            continue
        observe(ctx, "targeted %s %s via %s" % (t, label, rname), fn, {"type": t, "fault": label, "route": rname, "input": o})
    cls = cls_for(ver, t)
    if cls is not None:
        kw = {k: v for k, v in o.items() if isinstance(k, str)}
        observe(ctx, "targeted %s %s via constructor" % (t, label), lambda: cls(**kw), {"type": t, "fault": label, "route": "constructor", "input": o})
    # positional conveniences
    if t == "relationship":
        for args in ((5,), (None, 5), ([], {}, 7), ("x", "y", "z"), ({"id": 5},), (o.get("source_ref"), 0, o.get("target_ref"))):
            observe(ctx, "Relationship%r" % (args,), lambda a=args: stix2.v21.Relationship(*a), {"type": t, "positional": repr(args)})
            observe(ctx, "v20.Relationship%r" % (args,), lambda a=args: stix2.v20.Relationship(*a), {"type": t, "positional": repr(args)})
        for a in (5, [], {}, "x", {"id": 5}):
            observe(ctx, "Sighting(%r)" % (a,), lambda a=a: stix2.v21.Sighting(a), {"type": "sighting", "positional": repr(a)})
    if t == "bundle":
        for args in ((5,), ([5],), ({},), ([{}],), ("x",), (None,), ([[o]],)):
            observe(ctx, "Bundle%r" % (args,), lambda a=args: stix2.v21.Bundle(*a), {"type": t, "positional": repr(args)[:200]})
            observe(ctx, "v20.Bundle%r" % (args,), lambda a=args: stix2.v20.Bundle(*a), {"type": t, "positional": repr(args)[:200]})
    # a failed add leaves the store unchanged
    store = stix2.MemoryStore()
    good = {"type": "identity", "spec_version": "2.1", "id": "identity--11111111-1111-4111-8111-111111111111",
            "created": "2020-01-01T00:00:00.000Z", "modified": "2020-01-01T00:00:00.000Z", "name": "n"}
    store.add(good)
    before = sorted(json.dumps(json.loads(x.serialize() if hasattr(x, "serialize") else json.dumps(x)), sort_keys=True) for x in store.query())
    # Only the "unchanged" clause is judged on this route (the exception class of add() is not part of the statement;
    # DataStoreMixin.add re-labels any AttributeError).  A bundle is several objects: partial addition of its good
    # members is outside the deciding set (DESIGN section 8).
    res = None
    if o.get("type") != "bundle":
        try:
            with warnings.catch_warnings():
                warnings.simplefilter("ignore")
                store.add(o)
            res = "returned"
        except Exception:
            res = "raised"
    if res == "raised":
        try:
            after = sorted(json.dumps(json.loads(x.serialize() if hasattr(x, "serialize") else json.dumps(x)), sort_keys=True) for x in store.query())
        except Exception as e:
            after = ["<query failed: %r>" % (e,)]
        ctx.ev()
        ctx.count("store_unchanged_checks")
        if after != before:
            ctx.violation("store-changed-by-failed-add", "MemoryStore contents changed although add() raised",
                          {"input": o, "before": before, "after": after[:5]})
    check_state(ctx, reg0, {"type": t, "fault": label})
    ctx.nontrivial("targeted", t, label)
    ctx.count("targeted")


def wl_toplevel(ctx, rng, i):
    """An object extended by several toplevel-property extensions at once, some registered and some not, in every order: a value
    which breaks the definition of a registered one is refused wherever that extension stands among the entries."""
    import stix2
    from ..gen import custom as gcustom
    gcustom.ensure_registered()
    g = ObjGen(rng, "2.1", hostile=False, ts_max_digits=6)
    which = ["a", "ua", "au", "uba", "ub", "bu", "ab", "uab"][i % 8]
    o = gcustom.toplevel21(g, which)
    o.pop("revoked", None)
    bad = []
    if "a" in which:
        bad += [("rank", rng.choice(["junk", [], {"a": 1}, 1.5, "1.5"])), ("seen_at", rng.choice(["yesterday", 5, "2020-13-01T00:00:00Z"])), ("aliases", rng.choice([5, [5, {}], [[]], {"a": {}}]))]
    if "b" in which:
        bad += [("grade", rng.choice([11, -1, "high", 10 ** 30])), ("graded_by", rng.choice([{"a": 1}, ["x", "y"]]) if False else None)]
    bad = [b for b in bad if b[1] is not None]
    name, val = rng.choice(bad)
    oo = dict(o)
    oo[name] = val
    w = {"extensions_in_order": list(oo["extensions"]), "property": name, "value": repr(val), "input": oo}
    for rname, fn in (("parse/strict", lambda: stix2.parse(json.dumps(oo))), ("parse/lenient", lambda: stix2.parse(json.dumps(oo), allow_custom=True)),
                      ("constructor/strict", lambda: stix2.v21.Identity(**json.loads(json.dumps(oo)))),
                      ("bundle member", lambda: stix2.parse({"type": "bundle", "id": "bundle--" + oo["id"].split("--")[1], "objects": [json.loads(json.dumps(oo))]}).objects[0])):
        ctx.ev()
        ctx.count("toplevel_extension_faults")
        ctx.nontrivial("toplevel", which, name, rname)
        try:
            with warnings.catch_warnings():
                warnings.simplefilter("ignore")
                obj = fn()
        except family():
            ctx.count("refused")
            continue
        except Exception as e:
            ctx.violation("escape:%s@%s" % (type(e).__name__, where_raised(e)), "%s of an object with toplevel extensions let %s escape" % (rname, type(e).__name__), dict(w, route=rname, exception=repr(e)[:300]))
            continue
        try:
            out = json.loads(obj.serialize())
        except Exception:
            out = None
        # accepted: then the value must have been normalised into one the definition admits
        # ([] means "not given" to every constructor: the property is then simply absent)
        ok = out is not None and (val == [] and name not in out) or out is not None and name in out and ((name in ("rank", "grade") and isinstance(out[name], int) and not isinstance(out[name], bool) and (name != "grade" or 0 <= out[name] <= 10))
                                                  or (name == "aliases" and isinstance(out[name], list) and out[name] and all(isinstance(x, str) for x in out[name]))
                                                  or (name == "seen_at" and isinstance(out[name], str) and prime_ts(out[name])))
        if not ok:
            ctx.violation("returned-object-not-validated:toplevel-extension-property", "%s returned an object whose %s = %r breaks the registered extension's definition (extensions in the order %s)" % (
                rname, name, val, [k[-4:] for k in oo["extensions"]]), dict(w, route=rname, output=out))


def wl_ref_names(ctx, rng, i):
    """Custom observables (and a toplevel extension used on an observable) whose property names look like references (*_ref, *_refs,
    with one or several underscores) but are declared with all sorts of property classes: whether the registration is accepted or
    refused, nothing but the documented errors ever comes out -- at registration and at every later parse of content carrying the property."""
    import stix2
    from stix2 import properties as P
    ver = ["2.1", "2.0"][i % 2]
    name = ["linked_ref", "linked_file_ref", "a_b_c_ref", "linked_refs", "linked_file_refs", "a_b_c_refs", "x_refs", "some_ref_thing", "ref", "refs", "my_refs_"][(i // 2) % 11]
    refp = (lambda: P.ReferenceProperty(valid_types="file", spec_version="2.1")) if ver == "2.1" else (lambda: P.ObjectReferenceProperty(valid_types="file"))
    pcname, pc = [("StringProperty", P.StringProperty), ("IntegerProperty", P.IntegerProperty), ("ListProperty(String)", lambda: P.ListProperty(P.StringProperty)),
                  ("reference", refp), ("ListProperty(reference)", lambda: P.ListProperty(refp())), ("DictionaryProperty", lambda: P.DictionaryProperty(spec_version=ver)),
                  ("BooleanProperty", P.BooleanProperty)][(i // 22) % 7]
    tname = "x-stixmon-c17-%s-refname-%d" % (ctx.seed, i)
    how = "observable" if ver == "2.0" or (i // 154) % 2 == 0 else "toplevel-extension"
    w = {"version": ver, "property": name, "declared_as": pcname, "through": how, "type": tname}
    reg0 = registry_snapshot()
    ctx.ev()
    ctx.count("ref_named_registrations")
    ctx.nontrivial("ref-name", ver, name, pcname, how)
    try:
        with warnings.catch_warnings():
            warnings.simplefilter("ignore")
            if how == "observable":
                dec = (stix2.v20 if ver == "2.0" else stix2.v21).CustomObservable
                dec(tname, [("label", P.StringProperty()), (name, pc())])(type("RefNamed", (object,), {}))
            else:
                ext_id = "extension-definition--" + "%08x" % (i + 1) + "-0a4e-4f0f-9c57-0d7f7a1b2c00"
                stix2.v21.CustomExtension(ext_id, [(name, pc())])(type("RefNamedExt", (object,), {"extension_type": "toplevel-property-extension"}))
        accepted = True
    except family():
        accepted = False
        ctx.count("refused")
        if registry_snapshot() != reg0:
            ctx.violation("failed-registration-changed-registry", "refused registration of a property named %r left something registered" % name, w)
    except Exception as e:
        ctx.violation("escape:%s@%s" % (type(e).__name__, where_raised(e)), "registering a property named %r as %s let %s escape" % (name, pcname, type(e).__name__), dict(w, exception=repr(e)[:300]))
        return
    if not accepted:
        return
    ctx.count("ref_named_registrations_accepted")
    for val in ("file--" + "0" * 8 + "-0000-4000-8000-" + "0" * 12, "0", 3, ["0"], [3], {"a": "b"}, True, [["0"]]):
        if how == "observable" and ver == "2.1":
            content = {"type": tname, "spec_version": "2.1", "id": tname + "--5b3b0b3c-0a4e-4f0f-9c57-0d7f7a1b2c%02x" % (i % 250), "label": "l", name: val}
        elif how == "observable":
            content = {"type": "observed-data", "id": "observed-data--5b3b0b3c-0a4e-4f0f-9c57-0d7f7a1b2c%02x" % (i % 250), "created": "2020-01-01T00:00:00.000Z", "modified": "2020-01-01T00:00:00.000Z",
                       "first_observed": "2020-01-01T00:00:00Z", "last_observed": "2020-01-01T00:00:00Z", "number_observed": 1,
                       "objects": {"0": {"type": "file", "name": "f"}, "1": {"type": tname, "label": "l", name: val}}}
        else:
            content = {"type": "file", "spec_version": "2.1", "id": "file--5b3b0b3c-0a4e-4f0f-9c57-0d7f7a1b2c%02x" % (i % 250), "name": "f", "extensions": {ext_id: {"extension_type": "toplevel-property-extension"}}, name: val}
        for strict in (True, False):
            ctx.ev()
            try:
                with warnings.catch_warnings():
                    warnings.simplefilter("ignore")
                    stix2.parse(json.loads(json.dumps(content)), allow_custom=not strict, version=ver)
                ctx.count("ref_named_parses_returned")
            except family():
                ctx.count("refused")
            except Exception as e:
                ctx.violation("escape:%s@%s" % (type(e).__name__, where_raised(e)), "parsing content with the registered property %r (declared as %s) = %r let %s escape: %s" % (
                    name, pcname, val, type(e).__name__, str(e)[:100]), dict(w, content=content, strict=strict, exception=repr(e)[:300]))
                return


def prime_ts(text):
    from ..gen import prime
    return bool(prime.TS_RE.match(text))


REDECLARED = ["granular_markings", "object_marking_refs", "extensions", "external_references", "labels", "created_by_ref", "lang", "confidence"]
REDECLARED_VALUES = [["a"], "abc", 5, {"k": "v"}, [{"selectors": ["val"], "marking_ref": "marking-definition--34098fce-860f-48ae-8e50-ebd3cc5e41da"}], [5], [["a"]], True, [], {}, None, "", 0]


def wl_redeclared(ctx, rng, i):
    """Custom types which declare, as a property of their own and in a shape of their own, a name the library gives a meaning to on
    other types (granular_markings, object_marking_refs, extensions, ...): content of such a type is judged by the declared property,
    and whatever is wrong with it is reported through the error family."""
    import stix2
    from stix2 import properties as P
    special = REDECLARED[i % len(REDECLARED)]
    shape = ["strings", "string", "integer", "dictionary"][(i // len(REDECLARED)) % 4]
    kind, ver = [("observable", "2.0"), ("marking", "2.0"), ("marking", "2.1"), ("extension", "2.1"), ("extension", "2.0"), ("observable", "2.1"), ("object", "2.1"), ("object", "2.0")][(i // (len(REDECLARED) * 4)) % 8]
    mod = stix2.v20 if ver == "2.0" else stix2.v21
    prop = {"strings": lambda: P.ListProperty(P.StringProperty), "string": P.StringProperty, "integer": P.IntegerProperty, "dictionary": lambda: P.DictionaryProperty(spec_version=ver)}[shape]()
    name = "x-stixmon-c17r-%s-%s-%s%s" % (kind[:3], special.replace("_", "")[:12], shape[:3], ver.replace(".", "")) + ("-ext" if kind == "extension" else "")
    done = ctx.state.setdefault("redeclared", {})
    w = {"version": ver, "kind": kind, "type": name, "redeclared_property": special, "declared_as": shape}
    if name not in done:
        props = [(special, prop), ("val", P.StringProperty())]
        try:
            with warnings.catch_warnings():
                warnings.simplefilter("ignore")
                body = type("Body", (object,), {})
                if kind == "observable":
                    done[name] = mod.CustomObservable(name, props)(body) if ver == "2.0" else mod.CustomObservable(name, props, ["val"])(body)
                elif kind == "marking":
                    done[name] = mod.CustomMarking(name, props)(body)
                elif kind == "object":
                    done[name] = mod.CustomObject(name, props)(body)
                else:
                    done[name] = mod.CustomExtension(name, props)(body) if ver == "2.0" else mod.CustomExtension(name, props)(type("Body", (object,), {"extension_type": "property-extension"}))
        except family():
            done[name] = None
        except Exception as e:
            done[name] = None
            ctx.violation("escape:%s@%s" % (type(e).__name__, where_raised(e)), "registering a %s %s declaring its own '%s' let %s escape" % (ver, kind, special, type(e).__name__), w)
    if done[name] is None:
        ctx.skip("registration declaring its own '%s' refused" % special)
        return
    ctx.count("redeclared_types_used")
    ctx.see("redeclared", "%s:%s:%s:%s" % (kind, ver, special, shape))
    ts, u = "2020-01-01T00:00:00.000Z", V.uuid_text(rng, 4)
    for v in rng.sample(REDECLARED_VALUES, 5):
        inner = {"val": "v"}
        if v is not None or rng.random() < 0.5:
            inner[special] = v
        if kind == "observable":
            sco = dict({"type": name}, **inner)
            if ver == "2.1":
                content = dict(sco, spec_version="2.1", id="%s--%s" % (name, u))
            else:
                content = {"type": "observed-data", "id": "observed-data--" + u, "created": ts, "modified": ts, "first_observed": ts, "last_observed": ts, "number_observed": 1, "objects": {"0": sco}}
            extra = [("parse_observable", lambda: stix2.parse_observable(json.loads(json.dumps(sco)), version=ver)),
                     ("parse_observable/lenient", lambda: stix2.parse_observable(json.loads(json.dumps(sco)), allow_custom=True, version=ver))]
        elif kind == "marking":
            content = dict({"type": "marking-definition", "id": "marking-definition--" + u, "created": ts, "definition_type": name, "definition": inner}, **({"spec_version": "2.1"} if ver == "2.1" else {}))
            extra = []
        elif kind == "object":
            content = dict({"type": name, "id": "%s--%s" % (name, u), "created": ts, "modified": ts}, **inner)
            if ver == "2.1":
                content["spec_version"] = "2.1"
            extra = []
        else:
            f = {"type": "file", "name": "f", "extensions": {name: inner}}
            content = dict(f, spec_version="2.1", id="file--" + u) if ver == "2.1" else \
                {"type": "observed-data", "id": "observed-data--" + u, "created": ts, "modified": ts, "first_observed": ts, "last_observed": ts, "number_observed": 1, "objects": {"0": f}}
            extra = []
        ww = dict(w, input=content)
        for rname, fn in [("parse strict", lambda: stix2.parse(json.loads(json.dumps(content)), version=ver)), ("parse lenient", lambda: stix2.parse(json.loads(json.dumps(content)), allow_custom=True)),
                          ("parse text", lambda: stix2.parse(json.dumps(content))), ("memory store", lambda: stix2.MemoryStore(allow_custom=True).add(json.loads(json.dumps(content))))] + extra:
            observe(ctx, "redeclared %s via %s" % (special, rname), fn, ww)
        ctx.nontrivial("redeclared", kind, ver, special, shape, json.dumps(v))


def wl_refusals(ctx, rng, i):
    """The refusals of the rest of the public surface (assignment, versioning, marking, registration, TLP instances): each comes from
    the error family, and each error object can be shown (the error monitor prints every one created)."""
    import stix2
    import stix2.markings as mk
    import stix2.versioning
    from stix2 import properties as P
    ver = VERSIONS[i % 2]
    mod = stix2.v20 if ver == "2.0" else stix2.v21
    ts = "2020-01-01T00:00:00.000Z"
    ident = mod.Identity(name="n", identity_class="individual", created=ts, modified=ts)
    sco = stix2.v21.File(name="f.txt")
    w = {"version": ver}
    probes = [
        ("attribute assignment", lambda: setattr(ident, "name", "m")), ("item assignment", lambda: __import__("operator").setitem(ident, "name", "m")),
        ("new_version(id=...)", lambda: ident.new_version(id="identity--" + V.uuid_text(rng, 4))), ("new_version(created=...)", lambda: ident.new_version(created="2021-01-01T00:00:00Z")),
        ("new_version(type=...)", lambda: stix2.versioning.new_version(json.loads(ident.serialize()), type="malware")),
        ("new_version of an observable", lambda: stix2.versioning.new_version(sco, name="g")), ("new_version of a dictionary without versioning properties", lambda: stix2.versioning.new_version({"type": "x-thing", "id": "x-thing--" + V.uuid_text(rng, 4)}, name="g")),
        ("new_version of a versionable type's dictionary lacking created", lambda: stix2.versioning.new_version({"type": "identity", "id": "identity--" + V.uuid_text(rng, 4), "name": "n"}, name="g")),
        ("revoke twice", lambda: ident.revoke().revoke()), ("new_version after revoke", lambda: ident.revoke().new_version(name="m")),
        ("remove a marking that is not there", lambda: mk.remove_markings(ident, "marking-definition--" + V.uuid_text(rng, 4), None)),
        ("remove a granular marking that is not there", lambda: mk.remove_markings(ident, "marking-definition--" + V.uuid_text(rng, 4), ["name"])),
        ("clear markings where there are none", lambda: mk.clear_markings(ident.new_version(object_marking_refs=["marking-definition--" + V.uuid_text(rng, 4)]), ["name"])),
        ("marking with a selector that addresses nothing", lambda: mk.add_markings(ident, "marking-definition--" + V.uuid_text(rng, 4), ["no_such_property"])),
        ("TLP marking with another id", lambda: mod.MarkingDefinition(definition_type="tlp", definition={"tlp": "green"}, created=ts)),
        ("TLP marking with another created", lambda: mod.MarkingDefinition(id="marking-definition--34098fce-860f-48ae-8e50-ebd3cc5e41da", definition_type="tlp", definition={"tlp": "green"}, created="2018-01-01T00:00:00.000Z")),
        ("duplicate registration", lambda: mod.CustomObject("identity", [("prop_one", P.StringProperty())])(type("Body", (object,), {}))),
        ("duplicate extension registration", lambda: mod.CustomExtension("ntfs-ext", [("prop_one", P.StringProperty())])(type("Body", (object,), {}))),
        ("registration of an object named like an observable", lambda: mod.CustomObject(rng.choice(["domain-name", "file", "ipv4-addr"]), [("prop_one", P.StringProperty())])(type("Body", (object,), {}))),
        ("registration of an observable named like an object", lambda: mod.CustomObservable(rng.choice(["identity", "indicator", "report"]), [("prop_one", P.StringProperty())])(type("Body", (object,), {}))),
        ("registration of a marking that is taken", lambda: mod.CustomMarking("tlp", [("prop_one", P.StringProperty())])(type("Body", (object,), {}))),
        ("missing required properties", lambda: mod.Identity()), ("mutually exclusive properties", lambda: stix2.v21.Artifact(payload_bin="AAAA", url="http://x", hashes={"MD5": "0" * 32})),
        ("dependent properties", lambda: stix2.v21.Artifact(url="http://x")), ("at least one property", lambda: stix2.v21.Process()),
        ("invalid object reference", lambda: stix2.v20.ObservedData(first_observed=ts, last_observed=ts, number_observed=1, objects={"0": {"type": "directory", "path": "/", "contains_refs": ["9"]}})),
        ("custom content", lambda: mod.Identity(name="n", identity_class="individual", x_foo=1)), ("unknown type", lambda: stix2.parse({"type": "x-nobody-registered-this", "id": "x-nobody-registered-this--" + V.uuid_text(rng, 4)})),
        ("2.1 observable with a custom id-contributing dictionary", lambda: _hashy()(hashes={"foo": "bar"}, val="v")),
    ]
    lab, fn = probes[(i // 2) % len(probes)]
    ctx.see("refusal probes", lab)
    reg0 = registry_snapshot()
    if observe(ctx, "refusal: " + lab, fn, dict(w, probe=lab)) == "family":
        # a refusal leaves the registries as they were (and ordinary content of the built-in types still parses to their classes)
        check_state(ctx, reg0, dict(w, probe=lab))
        for content, cls_name in (({"type": "domain-name", "spec_version": "2.1", "id": "domain-name--" + V.uuid_text(rng, 4), "value": "example.com"}, "DomainName"),
                                  ({"type": "identity", "spec_version": "2.1", "id": "identity--" + V.uuid_text(rng, 4), "created": ts, "modified": ts, "name": "n", "identity_class": "individual"}, "Identity")):
            ctx.ev()
            try:
                got = type(stix2.parse(content)).__name__
            except Exception as e:
                got = "refused: %s" % type(e).__name__
            if got != cls_name:
                ctx.violation("refused-operation-left-something-behind", "after the refused probe '%s', valid %s content gives %s" % (lab, content["type"], got), dict(w, probe=lab, content=content))
    ctx.nontrivial("refusal", ver, lab)


_HASHY = {}


def _hashy():
    import stix2
    from stix2 import properties as P
    if "cls" not in _HASHY:
        _HASHY["cls"] = stix2.v21.CustomObservable("x-stixmon-c17-hashy", [("hashes", P.DictionaryProperty(spec_version="2.1")), ("val", P.StringProperty())], ["hashes"])(type("Body", (object,), {}))
    return _HASHY["cls"]


PRINTABLE_ERRORS = True
WORKLOADS = [
    Workload("refusals", wl_refusals, quick=116, thorough=580),
    Workload("redeclared-names", wl_redeclared, quick=256, thorough=2560),
    Workload("ref-named-properties", wl_ref_names, quick=308, thorough=1540),
    Workload("toplevel-extensions", wl_toplevel, quick=96, thorough=4800),
    Workload("faults", wl_faults, quick=lambda: len(BASES), thorough=lambda: len(BASES) * 6, exhaustive=True),
    Workload("junk", wl_junk, quick=120, thorough=20000),
    Workload("targeted", wl_targeted, quick=lambda: len(TARGETED), thorough=lambda: len(TARGETED), exhaustive=True),
    Workload("multi", wl_multi, quick=lambda: len(BASES) * 2, thorough=lambda: len(BASES) * 120),
    Workload("deep", wl_deep, quick=lambda: len(BASES), thorough=lambda: len(BASES) * 40),
    Workload("shadow", wl_shadow, quick=40, thorough=1000),
    Workload("subclasses", wl_subclass, quick=lambda: len(BASES), thorough=lambda: len(BASES) * 4),
    Workload("stores", wl_stores, quick=40, thorough=1000),
]


def floors(m, tier):
    c = m["counters"]
    out = []
    if c.get("timeouts", 0):
        out.append("%d cases hit the 20 s alarm (termination not decided on this machine)" % c["timeouts"])
    if c.get("faults", 0) < 20000:
        out.append("fewer than 20000 faults (%d)" % c.get("faults", 0))
    if c.get("raised_in_family", 0) < 20000:
        out.append("fewer than 20000 in-family refusals observed (%d): the workload is not reaching the validation code" % c.get("raised_in_family", 0))
    if c.get("store_unchanged_checks", 0) < 100:
        out.append("store-unchanged oracle evaluated fewer than 100 times")
    kinds = m["seen"].get("slot kinds", set())
    for need in ("string", "int", "ts", "list", "ref", "hashes", "extensions", "embedded", "dict", "bool", "enum", "id"):
        if need not in kinds:
            out.append("slot kind %s never corrupted" % need)
    return out


MANIFEST = {
    "text": ("Fault enumeration at the input boundary: every slot of a valid object of every type is replaced by every other JSON "
             "kind and by kind-specific malformed values, arbitrary junk JSON is parsed, and the inputs the library inspects "
             "before property cleaning get a dedicated exhaustive table; each call is observed for the class of exception that "
             "escapes, with registry and store snapshots around failures; custom types redeclaring library-known names, the refusals of the rest "
             "of the public surface and files too deep to read go the same way, and an error-object monitor asks every error instance the "
             "library created for str() and repr().  Held = no exception outside the documented family was "
             "observed on ~10^5 (quick) / ~10^6 (thorough) faulted calls."),
    "note": "assumes the documented family is STIXError/ValueError/TypeError; wall-clock alarms only ever yield inconclusive",
    "technique": "runtime monitoring with input-fault injection: exception-class monitor, error-object monitor (hooked STIXError.__new__) + state snapshots at the API boundary",
}
