"""C16 -- canonical JSON output conforms to RFC 8785.

Events: canonicalize(v, utf8=False) and canonicalize(v, utf8=True) on generated JSON values.
Oracle: stixmon.oracles.jcs (independent implementation), plus the metamorphic clauses of the
property: insertion-order independence, parse-back equality, fixed point, NaN/inf refusal.
"""
import json
import math
import struct

from ..ctx import Workload
from ..oracles import jcs

ID = "C16"
LEVEL = "exploration"
SHARDS = {"quick": 4, "thorough": 16}
RULE = ("numbers: random 64-bit patterns reinterpreted as doubles (all exponents, subnormals), decimal-boundary "
        "neighbours, integers up to 2^1023; documents: random nesting with hostile keys/strings (controls, quotes, "
        "U+2028, U+E000-U+FFFF vs astral).  Non-trivial: a number whose ES6 text has a fraction, an exponent or >15 "
        "digits, or a document with an escaped string or >=2 keys whose UTF-16 and code-point orders are both "
        "exercised.  distinct = distinct (sign, binary exponent, output layout) for numbers, distinct canonical text "
        "for documents")
ASSUMPTIONS = [
    "stixmon/oracles/jcs.py is a correct reading of RFC 8785 / ECMA-262 Number::toString (checked against the RFC's test vectors in selftest)",
    "lone surrogates and integers >= 2^1024 are outside the JSON/I-JSON domain of RFC 8785 and are not generated",
    "'refused' = any exception instead of a return value",
]
BATCH = 250


def canonicalize(v, utf8=False):
    from stix2.canonicalization.Canonicalize import canonicalize as c
    return c(v, utf8=utf8)


def layout(text):
    t = text.lstrip("-")
    if "e" in t:
        return "exp" + ("+" if "e+" in t else "-")
    if t.startswith("0."):
        return "small"
    if "." in t:
        return "frac"
    return "int%d" % min(len(t), 22)


def num_equal(a, b):
    if isinstance(a, bool) or isinstance(b, bool) or a is None or b is None:
        return a is b
    if isinstance(a, (int, float)) and isinstance(b, (int, float)):
        return float(a) == float(b)
    if isinstance(a, str) and isinstance(b, str):
        return a == b
    if isinstance(a, (list, tuple)) and isinstance(b, (list, tuple)):
        return len(a) == len(b) and all(num_equal(x, y) for x, y in zip(a, b))
    if isinstance(a, dict) and isinstance(b, dict):
        return a.keys() == b.keys() and all(num_equal(a[k], b[k]) for k in a)
    return False


def check_value(ctx, v, kind, nontrivial_key=None):
    """All clauses of the property on one JSON value.  Returns canonical text or None."""
    try:
        exp = jcs.canon(v)
    except (jcs.NotCanonicalizable, OverflowError, RecursionError):
        ctx.skip("oracle cannot canonicalize (outside RFC 8785 domain)")
        return None
    try:
        got = canonicalize(v, utf8=False)
    except Exception as e:
        ctx.ev()
        ctx.violation("canonicalize-raised", "canonicalize raised %s on a valid JSON value" % type(e).__name__,
                      {"kind": kind, "input": v, "exception": repr(e), "expected": exp})
        return None
    ctx.ev()
    if got != exp:
        key = "number-format" if kind in ("double", "int") else "document-text"
        if kind == "doc":
            # localise: numbers only / strings only / key order
            try:
                if json.loads(got) == json.loads(exp) and sorted(got) == sorted(exp):
                    key = "key-order"
            except Exception:
                pass
        ctx.violation(key, "canonicalize output differs from the independent RFC 8785 canonicaliser",
                      {"kind": kind, "input": v, "got": got, "expected": exp})
        return None
    # bytes form
    try:
        gb = canonicalize(v, utf8=True)
        ctx.ev()
        if gb != exp.encode("utf-8"):
            ctx.violation("utf8-form", "utf8=True output is not the UTF-8 encoding of the text form",
                          {"input": v, "got": repr(gb)[:500], "expected": exp})
    except Exception as e:
        ctx.violation("canonicalize-raised", "canonicalize(utf8=True) raised %s" % type(e).__name__,
                      {"input": v, "exception": repr(e)})
    # parse back, fixed point
    try:
        back = json.loads(got)
    except Exception as e:
        ctx.violation("not-json", "canonical output is not parseable JSON", {"input": v, "got": got})
        return None
    ctx.ev()
    if not num_equal(back, v):
        ctx.violation("parse-back", "canonical output parses to a different value", {"input": v, "got": got, "back": back})
    try:
        again = canonicalize(back, utf8=False)
        ctx.ev()
        if again != got:
            ctx.violation("fixed-point", "canonicalizing the parsed output is not a fixed point",
                          {"input": v, "first": got, "second": again})
    except Exception as e:
        ctx.violation("canonicalize-raised", "canonicalize raised on its own parsed output", {"input": v, "got": got})
    return got


BOUNDARY = [1e21, 1e-6, 1e-7, 2.0 ** 53, 2.0 ** 63, 2.0 ** 64, 1e15, 1e16, 1e17, 1e20, 1e22, 1e23, 1e-5, 1e-4, 1e-3,
            0.1, 0.5, 1 / 3, 2 / 3, 5e-324, 2.2250738585072014e-308, 1.7976931348623157e308, 123456789012345680000.0,
            999999999999999900000.0, 4.35, 0.000001, 0.0000001, 1e100, 1e-100, 9007199254740993.0, 100.0, 1.0, 10.0]


def neighbours(x, rng, n=3):
    out = [x]
    up = dn = x
    for _ in range(n):
        up = math.nextafter(up, math.inf)
        dn = math.nextafter(dn, -math.inf)
        out += [up, dn]
    return out


def wl_doubles(ctx, rng, i):
    vals = []
    if i == 0:
        for b in BOUNDARY:
            for v in neighbours(b, rng):
                vals += [v, -v]
        vals += [0.0, -0.0]
    while len(vals) < BATCH:
        mode = rng.random()
        if mode < 0.6:
            x = struct.unpack(">d", struct.pack(">Q", rng.getrandbits(64)))[0]
        elif mode < 0.75:  # short decimals
            x = float("%de%d" % (rng.randrange(1, 10 ** rng.randrange(1, 17)), rng.randrange(-30, 30)))
        elif mode < 0.9:   # powers of ten and neighbours
            x = rng.choice(neighbours(float("1e%d" % rng.randrange(-320, 309)), rng, 2))
        else:              # integers as floats
            x = float(rng.randrange(0, 2 ** rng.randrange(1, 70)))
        if x != x or x in (math.inf, -math.inf):
            continue
        vals.append(x)
    for x in vals:
        got = check_value(ctx, x, "double")
        if got is not None:
            m, e = math.frexp(x) if x else (0, 0)
            lay = layout(got)
            ctx.see("number layouts", lay)
            if lay != "int1" and not (lay.startswith("int") and len(got.lstrip("-")) <= 15):
                ctx.nontrivial("d", x < 0, e, lay)
            if ctx.want_sample() and lay.startswith("exp"):
                ctx.sample({"input_double_hex": struct.pack(">d", x).hex(), "input_repr": repr(x), "canonicalize": got,
                            "oracle": jcs.es6_number(x)})


def wl_ints(ctx, rng, i):
    vals = []
    if i == 0:
        for k in (0, 1, 31, 32, 52, 53, 54, 63, 64, 69, 70, 100, 1000, 1023):
            for d in (-1, 0, 1):
                vals += [2 ** k + d, -(2 ** k + d)]
        for k in range(0, 25):
            for d in (-1, 0, 1):
                vals.append(10 ** k + d)
    while len(vals) < BATCH:
        bits = rng.randrange(1, 1024)
        v = rng.getrandbits(bits)
        vals.append(v if rng.random() < 0.5 else -v)
    for x in vals:
        try:
            float(x)
        except OverflowError:
            continue
        got = check_value(ctx, x, "int")
        if got is not None:
            lay = layout(got)
            ctx.see("number layouts", lay)
            if abs(x) > 2 ** 53:
                ctx.nontrivial("i", x < 0, x.bit_length(), lay)


STR_POOL = ["", "a", "A", "abc", "\u0000", "\u0001", "\u001f", "\u007f", "\b", "\f", "\n", "\r", "\t", '"', "\\", "/",
            " ", " ", "é", "€", "", "￿", "�", "퟿", "\U00010000", "\U0001f600",
            "\U0010ffff", "<", ">", "&", "'", " ", " ", "﻿", "\u0080", "\u009f", "10", "9", "1", "-1", "e", "E"]


def gen_str(rng, maxlen=6):
    n = rng.choice([0, 1, 1, 2, 2, 3, maxlen])
    return "".join(rng.choice(STR_POOL) for _ in range(n))


def gen_num(rng):
    r = rng.random()
    if r < 0.3:
        return rng.randrange(-1000, 1000)
    if r < 0.5:
        return rng.choice(BOUNDARY) * rng.choice([1, -1])
    if r < 0.7:
        return rng.randrange(-2 ** 70, 2 ** 70)
    x = struct.unpack(">d", struct.pack(">Q", rng.getrandbits(64)))[0]
    return x if math.isfinite(x) else 0.5


def gen_doc(rng, depth):
    r = rng.random()
    if depth <= 0 or r < 0.35:
        k = rng.random()
        if k < 0.35:
            return gen_str(rng)
        if k < 0.7:
            return gen_num(rng)
        return rng.choice([None, True, False])
    if r < 0.65:
        return [gen_doc(rng, depth - 1) for _ in range(rng.randrange(0, 5))]
    d = {}
    for _ in range(rng.randrange(0, 7)):
        d[gen_str(rng, 4)] = gen_doc(rng, depth - 1)
    return d


def shuffled(v, rng):
    if isinstance(v, dict):
        items = list(v.items())
        rng.shuffle(items)
        return {k: shuffled(x, rng) for k, x in items}
    if isinstance(v, list):
        return [shuffled(x, rng) for x in v]
    return v


def has_escape(s):
    return any(ord(c) < 0x20 or c in '"\\' for c in s)


def doc_features(v, feats):
    if isinstance(v, dict):
        ks = list(v)
        if len(ks) >= 2:
            feats.add("multi-key")
            if sorted(ks) != sorted(ks, key=jcs.utf16_units):
                feats.add("utf16-vs-codepoint-order-differs")
        for k, x in v.items():
            if has_escape(k):
                feats.add("escaped-key")
            if any(ord(c) > 0xFFFF for c in k):
                feats.add("astral-key")
            doc_features(x, feats)
    elif isinstance(v, list):
        for x in v:
            doc_features(x, feats)
    elif isinstance(v, str):
        if has_escape(v):
            feats.add("escaped-string")
        if any(ord(c) > 0xFFFF for c in v):
            feats.add("astral-string")
    elif isinstance(v, float):
        feats.add("float")


def collect_containers(v, acc):
    if isinstance(v, (dict, list)):
        acc.append(v)
        for x in (v.values() if isinstance(v, dict) else v):
            collect_containers(x, acc)


def wl_docs(ctx, rng, i):
    for j in range(20):
        if j == 0 and i % 50 == 0:
            # deep nesting
            v = gen_doc(rng, 2)
            for _ in range(30):
                v = {gen_str(rng, 3): v} if rng.random() < 0.5 else [v]
        elif j == 1:
            # keys chosen to separate UTF-16 order from code-point order
            v = {k: n for n, k in enumerate(rng.sample(
                ["", "￿", "\U00010000", "\U0010ffff", "퟿", "a", "€", "a", "\U00010000a", ""], 6))}
        else:
            v = gen_doc(rng, rng.choice([2, 3, 4, 6]))
        if j % 3 == 2 and isinstance(v, (dict, list)):
            # history: the same containers were first refused (a NaN / Infinity / out-of-range integer somewhere inside), then
            # repaired in place; a refusal must leave nothing behind that a later call can trip over
            spots = []
            collect_containers(v, spots)
            host = rng.choice(spots)
            bad = rng.choice([float("nan"), float("inf"), -float("inf"), 10 ** 400])
            if isinstance(host, list):
                host.append(bad)
            else:
                host["poison"] = bad
            try:
                canonicalize(v, utf8=False)
                ctx.violation("non-finite-accepted", "canonicalize accepted a document containing %r" % (bad,), {"input": repr(v)[:1500]})
            except Exception:
                ctx.count("refused_then_repaired")
            if isinstance(host, list):
                host.pop()
            else:
                del host["poison"]
        got = check_value(ctx, v, "doc")
        if got is None:
            continue
        feats = set()
        doc_features(v, feats)
        for f in feats:
            ctx.see("document features", f)
        if feats & {"escaped-key", "escaped-string", "multi-key", "utf16-vs-codepoint-order-differs"}:
            ctx.nontrivial("doc", got)
        # insertion-order independence
        if isinstance(v, (dict, list)):
            w = shuffled(v, rng)
            try:
                g2 = canonicalize(w, utf8=False)
                ctx.ev()
                if g2 != got:
                    ctx.violation("insertion-order", "output depends on member insertion order",
                                  {"first": got, "second": g2, "input": v})
            except Exception as e:
                ctx.violation("canonicalize-raised", "canonicalize raised on a shuffled copy", {"input": w, "exception": repr(e)})
        if ctx.want_sample() and "utf16-vs-codepoint-order-differs" in feats:
            ctx.sample({"input": v, "canonicalize": got})


def wl_refused(ctx, rng, i):
    bads = [float("nan"), float("inf"), -float("inf")]
    wraps = [lambda b: b, lambda b: [b], lambda b: {"a": b}, lambda b: {"a": [1, {"b": b}]}, lambda b: [[[b]]],
             lambda b: {"x": 1, "y": [0.5, b, "s"]}]
    for b in bads:
        for w in wraps:
            v = w(b)
            ctx.ev()
            ctx.count("refusal_probes")
            try:
                got = canonicalize(v, utf8=False)
            except Exception:
                ctx.count("refused")
                continue
            ctx.violation("nan-inf-accepted", "NaN/Infinity was not refused", {"input": repr(v), "got": got})
    ctx.nontrivial("refusal", "nan")
    ctx.nontrivial("refusal", "inf")


# pure by their documentation: a sample of the calls is repeated in a fresh interpreter, in reverse order (stixmon/echo.py)
ECHO = ['stix2.canonicalization.Canonicalize:canonicalize']
WORKLOADS = [
    Workload("doubles", wl_doubles, quick=320, thorough=40000),
    Workload("integers", wl_ints, quick=12, thorough=2000),
    Workload("documents", wl_docs, quick=600, thorough=40000),
    Workload("refused", wl_refused, quick=1, thorough=1),
    __import__("stixmon.ambient", fromlist=["workload"]).workload("C16"),
]


def floors(m, tier):
    c = m["counters"]
    out = []
    if c.get("evaluations", 0) < 20000:
        out.append("fewer than 20000 oracle evaluations (%d)" % c.get("evaluations", 0))
    lays = m["seen"].get("number layouts", set())
    for need in ("exp+", "exp-", "small", "frac", "int21"):
        if need not in lays:
            out.append("number layout %s never observed" % need)
    feats = m["seen"].get("document features", set())
    for need in ("utf16-vs-codepoint-order-differs", "escaped-string", "astral-key"):
        if need not in feats:
            out.append("document feature %s never observed" % need)
    if c.get("refused", 0) + sum(1 for k in m["violations"] if k == "nan-inf-accepted") == 0:
        out.append("refusal of NaN/Infinity never probed")
    return out


MANIFEST = {
    "text": ("Every canonicalize() call on tens of thousands (quick) to millions (thorough) of generated doubles, big "
             "integers and hostile documents is compared byte-for-byte with an independent RFC 8785 implementation, and "
             "the order-independence / parse-back / fixed-point / refusal clauses are checked on the same executions. "
             "Exploration, not proof: it covers every exponent range and layout branch, not every double. Echo monitor: a sample of the canonicalize calls is repeated in a fresh interpreter in reverse order and must answer alike."),
    "note": "trusts stixmon/oracles/jcs.py (validated against the RFC 8785 appendix vectors) and CPython's correctly rounded '%.Ne' formatting",
    "technique": "runtime monitoring: differential oracle (independent RFC 8785 canonicaliser) on every call/return; echo monitor (pure calls repeated in a fresh interpreter)",
}
