"""C04 -- custom content is admitted only on request and is always detected.

Events: (a) strict construct/parse/store-add of an object with one injected customisation -> outcome;
(b) allow_custom=True construct/parse -> has_custom, text; strict re-parse of text -> accepted | refused.
Oracle: (a) must raise; (b) has_custom is True <=> strict re-parse refused, False <=> accepted (equivalence form,
independent of the library's policy on what counts as custom).
"""
import copy
import json
import os
import shutil
import tempfile
import warnings

from ..ctx import Workload
from ..gen import corrupt
from ..gen import custom as gcustom
from ..gen import values as V
from ..gen.objects import ObjGen
from ..oracles import validator
from ..spec import model as M
from .c02 import BASES, TYPES, cls_for, make_base

ID = "C04"
LEVEL = "exploration"
SHARDS = {"quick": 4, "thorough": 16}
RULE = ("every valid base object (maximal and random profiles, all types of both versions) x every injection site: top-level custom "
        "property; custom property in each embedded object / predefined extension / container element / marking definition body; "
        "unregistered extension key; non-specification hash algorithm in every hashes dictionary; reference to x-... and to "
        "unregistered types in every reference slot; unregistered or customised member in bundles and observed-data containers; "
        "registered custom types; and the un-injected object.  Each through strict constructors, parse and four store entry points, "
        "and through the allow_custom=True route with the flag/re-parse equivalence.  Non-trivial: every injected case; "
        "distinct = distinct (version, type, site kind, nesting section, entry point)")
ASSUMPTIONS = [
    "the documented custom_properties= keyword is itself a request for customisation and is not used as an injection route",
    "if even allow_custom=True refuses the injected object (e.g. a custom reference where one specific type is required), the case is a type error, not custom content, and is skipped for clause (b)",
    "a result that is kept as a plain dictionary (unregistered type) counts as flag-true",
]


def setup(ctx):
    gcustom.ensure_registered()
    ctx.count("refused_registrations_before_the_workload", gcustom.refused_registrations())
    ctx.count("refused_registrations_that_left_something_behind", len(gcustom.LEFT_BEHIND))


def injections(ver, o, rng):
    """Yield (site kind, section, mutated object)."""
    m = M.model(ver)
    sl, objects = corrupt.slots(ver, o)
    for path, tbl, section in objects:
        for pname, val in (("x_custom_prop", "v"), ("foo_custom_prop", 5)):
            oo = copy.deepcopy(o)
            corrupt.get(oo, path)[pname] = val
            yield "custom-property" + ("" if pname.startswith("x_") else "-unprefixed"), section, oo
        # a custom property without a value is not part of the object: whatever strict mode says to the attempt, the flag of
        # the lenient result must agree with a strict parse of what was serialised
        for val in (None, []):
            oo = copy.deepcopy(o)
            corrupt.get(oo, path)["x_custom_prop"] = val
            yield "custom-property-without-value", section, oo
    for s in sl:
        k = s.kind["k"]
        v = corrupt.get(o, s.path)
        if k == "hashes" and isinstance(v, dict):
            oo = copy.deepcopy(o)
            corrupt.get(oo, s.path)["FOOHASH-99"] = "abcdef"
            yield "custom-hash-algorithm", s.section, oo
            # the same with the custom algorithm first / in the middle of the dictionary (order of detection must not matter)
            for pos in ("first", "middle"):
                oo = copy.deepcopy(o)
                items = list(v.items())
                if pos == "middle" and len(items) < 2:
                    items.append(("SHA-256" if "SHA-256" not in v else "SHA-512", V.hash_value(rng, "SHA-256" if "SHA-256" not in v else "SHA-512")))
                at = 0 if pos == "first" else len(items) // 2
                items.insert(at, ("FOOHASH-99", "abcdef"))
                corrupt.setp(oo, s.path, dict(items))
                yield "custom-hash-algorithm", s.section, oo
            alt = "SHA-224" if ver == "2.1" else "TLSH"
            oo = copy.deepcopy(o)
            corrupt.get(oo, s.path)[alt] = V.hash_value(rng, alt)
            yield "library-known-but-non-spec-hash", s.section, oo
        elif k == "ref" and isinstance(v, str):
            u = V.uuid_text(rng, 4)
            for lab, val in (("reference-to-x-type", "x-custom-thing--" + u), ("reference-to-unregistered-type", "frobnicator--" + u)):
                oo = copy.deepcopy(o)
                corrupt.setp(oo, s.path, val)
                yield lab, s.section, oo
            if ver == "2.0":
                # a type only the other specification version defines is, in a 2.0 object, a type outside the specification
                oo = copy.deepcopy(o)
                corrupt.setp(oo, s.path, "%s--%s" % (rng.choice(["location", "grouping", "infrastructure", "note", "opinion", "malware-analysis", "language-content"]), u))
                yield "reference-to-type-of-the-other-version", s.section, oo
        elif k == "extensions" and isinstance(v, dict):
            oo = copy.deepcopy(o)
            corrupt.get(oo, s.path)["x-unregistered-ext"] = {"some_prop": 1}
            yield "unregistered-extension", s.section, oo
            # the name of a type registered in another category (a marking, an object) is no extension type either, even with a body that
            # class would take
            for key2, body2 in (("statement", {"statement": "s"}), ("tlp", {"tlp": "white"}),
                                ("external-reference", {"source_name": "s", "url": "u"}), ("identity", {"name": "n"}) if ver == "2.1" else ("identity", {"name": "n", "identity_class": "individual"})):
                oo = copy.deepcopy(o)
                corrupt.get(oo, s.path)[key2] = body2
                yield "unregistered-extension:name-of-another-category", s.section, oo
            # a registered extension's name in another letter case (or with blanks around it) is another, unregistered, name
            for key_, body in list(v.items())[:1]:
                for lab, respelt in (("other-letter-case", key_.title() if key_.title() != key_ else key_.upper()), ("upper-case", key_.upper()), ("padded", key_ + " ")):
                    if respelt == key_ or not isinstance(body, dict):
                        continue
                    oo = copy.deepcopy(o)
                    ext = corrupt.get(oo, s.path)
                    ext.pop(key_)
                    ext[respelt] = copy.deepcopy(body)
                    yield "unregistered-extension:registered-name-" + lab, s.section, oo
    EDEF = "extension-definition--d83fce45-ef58-4c6c-a3f4-1fbc32e98c6e"
    for path, tbl_, section in objects:
        host = corrupt.get(o, path)
        if not isinstance(host, dict):
            continue
        if ver == "2.0" and "extensions" not in host:
            # STIX 2.0 has no extension definitions: an unregistered toplevel-property-extension entry excuses nothing there
            oo = copy.deepcopy(o)
            corrupt.get(oo, path)["extensions"] = {EDEF: {"extension_type": "toplevel-property-extension"}}
            corrupt.get(oo, path)["x_smuggled"] = 1
            yield "toplevel-extension-claim-in-2.0", section, oo
        if ver == "2.1" and section.startswith(("embedded", "marking")) and "extensions" not in host:
            # only objects can be extended: inside an embedded object (which has no `extensions` property at all) such an entry
            # excuses nothing
            oo = copy.deepcopy(o)
            corrupt.get(oo, path)["extensions"] = {EDEF: {"extension_type": "toplevel-property-extension"}}
            corrupt.get(oo, path)["x_smuggled"] = 1
            yield "toplevel-extension-claim-in-embedded-object", section, oo
        if section.startswith(("embedded", "marking", "extension")):
            # the name of the other constructor switch: no way to have identifiers checked less strictly
            oo = copy.deepcopy(o)
            corrupt.get(oo, path)["x_custom_prop"] = "v"
            corrupt.get(oo, path)["interoperability"] = True
            yield "custom-property-with-interoperability-key", section, oo
        # keys that are constructor switches rather than properties, arriving as data
        if section.startswith(("embedded", "marking", "extension")):
            oo = copy.deepcopy(o)
            corrupt.get(oo, path)["x_custom_prop"] = "v"
            corrupt.get(oo, path)["allow_custom"] = True
            yield "custom-property-with-allow-custom-key", section, oo
    for s in sl:
        if s.kind["k"] == "ref" and isinstance(corrupt.get(o, s.path), str) and "observable" not in s.section:
            # a reference to a known type that the property's rule excludes: admitted, if at all, only as custom content
            cur_t = corrupt.get(o, s.path).split("--")[0]
            for other in ("marking-definition", "bundle", "language-content" if ver == "2.1" else "bundle"):
                if other == cur_t:
                    continue
                oo = copy.deepcopy(o)
                corrupt.setp(oo, s.path, "%s--%s" % (other, V.uuid_text(rng, 4)))
                if validator.validate(oo, ver):       # only where the specification really excludes that type here
                    yield "reference-to-excluded-known-type", s.section, oo
                break
    tbl = m.types[o["type"]]
    if "extensions" in tbl["by_name"] and "extensions" not in o:
        oo = copy.deepcopy(o)
        oo["extensions"] = {"x-unregistered-ext": {"some_prop": 1}}
        yield "unregistered-extension", "top", oo
    if o["type"] == "bundle":
        for lab, member in (("unregistered-member", {"type": "x-unknown-member", "id": "x-unknown-member--" + V.uuid_text(rng, 4), "foo": 1}),):
            for pos in ("last", "first", "middle"):
                oo = copy.deepcopy(o)
                mem = dict(member)
                if ver == "2.1":
                    mem["spec_version"] = "2.1"
                objs = oo.setdefault("objects", [])
                objs.insert({"last": len(objs), "first": 0, "middle": len(objs) // 2}[pos], mem)
                yield lab, "member", oo
    if o["type"] == "observed-data" and isinstance(o.get("objects"), dict):
        oo = copy.deepcopy(o)
        oo["objects"][str(len(oo["objects"]))] = {"type": "x-unknown-observable", "foo": "bar"}
        yield "unregistered-observable", "observable", oo
        # the custom element first in the container, the registered ones after it
        oo = copy.deepcopy(o)
        oo["objects"] = dict([("99", {"type": "x-unknown-observable", "foo": "bar"})] + list(oo["objects"].items()))
        yield "unregistered-observable", "observable", oo


def instance_injections(ver, o, rng):
    """Pre-built library objects carrying custom content (built with allow_custom=True), to be handed to a host constructor
    as Python objects: embedded objects, predefined extensions, observed-data elements, bundle members.
    Yields (site kind, section, path of the nested object in o, instance)."""
    import stix2
    mod = stix2.v20 if ver == "2.0" else stix2.v21
    m = M.model(ver)
    sl, objects = corrupt.slots(ver, o)
    for path, tbl, section in objects:
        if not path:
            continue
        cur = corrupt.get(o, path)
        kind = section.split(":")[0]
        name = section.split(":", 1)[1] if ":" in section else ""
        cls = None
        if kind == "embedded":
            cls = getattr(mod, name, None)
        elif kind == "extension":
            from stix2 import registry
            cls = registry.class_for_type(name, ver, "extensions")
        elif kind == "observable":
            from stix2 import registry
            cls = registry.class_for_type(name, ver, "observables")
        elif kind == "member":
            from stix2 import registry
            cls = registry.class_for_type(name, ver, "objects") or registry.class_for_type(name, ver, "observables")
        elif kind == "marking":
            cls = {"statement": mod.StatementMarking, "tlp": mod.TLPMarking}.get(name)
        if cls is None:
            continue
        kw = copy.deepcopy(cur)
        kw["x_custom_prop"] = "v"
        if kind == "observable" and ver == "2.0":
            kw["_valid_refs"] = {"*": "*"}
        try:
            with warnings.catch_warnings():
                warnings.simplefilter("ignore")
                inst = cls(allow_custom=True, **kw)
        except Exception:
            continue
        if not getattr(inst, "has_custom", False):
            continue
        yield "prebuilt-instance-with-custom-content", section, path, inst


def reference_object_injections(ver, o, rng):
    """A reference given as a library object (not an id string) of a registered custom type: the reference is custom content
    exactly as the id string 'x-stixmon-widget--...' would be."""
    g = ObjGen(rng, ver, hostile=False, ts_max_digits=6)
    cls = gcustom.ensure_registered()[(ver, "object")]
    try:
        with warnings.catch_warnings():
            warnings.simplefilter("ignore")
            inst = cls(**gcustom.widget(g, "min"))
    except Exception:
        return
    sl, objects = corrupt.slots(ver, o)
    for s in sl:
        if s.kind["k"] == "ref" and isinstance(corrupt.get(o, s.path), str) and "observable" not in s.section:
            yield "reference-given-as-object-of-custom-type", s.section, s.path, inst


def substitute(o, path, inst):
    """kwargs for the host constructor: o with the nested dictionary at `path` replaced by the library object"""
    kw = copy.deepcopy(o)
    corrupt.setp(kw, path, inst)
    return kw


def strict_routes(ver, t, o, tmp, reads=True):
    import stix2
    rs = [("parse-text", lambda: stix2.parse(json.dumps(o), allow_custom=False)), ("parse-dict", lambda: stix2.parse(copy.deepcopy(o), allow_custom=False))]
    cls = cls_for(ver, t)
    if cls is not None:
        rs.append(("constructor", lambda: cls(allow_custom=False, **copy.deepcopy(o))))
    if t != "bundle":
        rs.append(("MemoryStore(allow_custom=False).add", lambda: stix2.MemoryStore(allow_custom=False).add(copy.deepcopy(o))))
        rs.append(("MemorySource(stix_data, allow_custom=False)", lambda: stix2.MemorySource(stix_data=[copy.deepcopy(o)], allow_custom=False)))
        rs.append(("MemorySink(allow_custom=False).add", lambda: stix2.MemorySink(allow_custom=False).add(copy.deepcopy(o))))

        def fs_add(text=False):
            d = tempfile.mkdtemp(dir=tmp)
            stix2.FileSystemSink(d, allow_custom=False).add(json.dumps(o) if text else copy.deepcopy(o))
        rs.append(("FileSystemSink(allow_custom=False).add(dict)", lambda: fs_add(False)))
        rs.append(("FileSystemSink(allow_custom=False).add(json)", lambda: fs_add(True)))

        # the reading side: a directory which holds the content already (written by someone who allowed it), read with customization disallowed
        def fs_read(kind, op):
            d = tempfile.mkdtemp(dir=tmp)
            stix2.FileSystemSink(d, allow_custom=True).add(copy.deepcopy(o))
            src = stix2.FileSystemStore(d, allow_custom=False) if kind == "store" else stix2.FileSystemSource(d, allow_custom=False)
            r = src.get(o["id"]) if op == "get" else src.all_versions(o["id"]) if op == "all_versions" else src.query([stix2.Filter("type", "=", o["type"])])
            if not r:
                raise ValueError("nothing returned")       # (not handing the content out is a refusal too)
            return r
        if "id" in o and reads:
            # (each of these routes writes a directory: at the thorough tier every fourth case takes them)
            for kind in ("store", "source"):
                for op in ("get", "all_versions", "query"):
                    rs.append(("FileSystem%s(allow_custom=False).%s" % ("Store" if kind == "store" else "Source", op), lambda kind=kind, op=op: fs_read(kind, op)))
    return rs


def run(fn):
    try:
        with warnings.catch_warnings():
            warnings.simplefilter("ignore")
            return "returned", fn()
    except Exception as e:
        return "refused", e


def flag_of(obj):
    import stix2.base
    if isinstance(obj, stix2.base._STIXBase):
        return bool(obj.has_custom)
    return True


def clause_b(ctx, ver, t, o, site, section, case):
    """allow_custom=True: flag <=> strict re-parse refused"""
    import stix2
    cls = cls_for(ver, t)
    for route, fn in (("parse", lambda: stix2.parse(json.dumps(o), allow_custom=True)),
                      ("constructor", (lambda: cls(allow_custom=True, **copy.deepcopy(o))) if cls is not None else None)):
        if fn is None:
            continue
        st, obj = run(fn)
        if st == "refused":
            ctx.skip("refused even with allow_custom=True (%s): a type error, not custom content" % type(obj).__name__)
            continue
        flag = flag_of(obj)
        try:
            with warnings.catch_warnings():
                warnings.simplefilter("ignore")
                text = obj.serialize() if hasattr(obj, "serialize") else json.dumps(obj)
        except Exception as e:
            ctx.skip("serialize refused (%s)" % type(e).__name__)
            continue
        st0, _ = run(lambda: stix2.parse(text, allow_custom=True))
        if st0 == "refused":
            ctx.skip("own output not re-parseable even with allow_custom=True (C01's subject)")
            continue
        st2, r2 = run(lambda: stix2.parse(text, allow_custom=False))
        ctx.ev()
        ctx.count("flag_true" if flag else "flag_false")
        ctx.see("sites", site)
        ctx.nontrivial(ver, t, site, section, "b:" + route)
        if flag and st2 == "returned":
            ctx.violation("flagged-custom-but-strict-accepts:" + site, "%s %s (%s in %s, via %s): has_custom is True but a strict parse of the serialisation succeeds" % (ver, t, site, section, route),
                          dict(case, route=route, has_custom=flag, text=text[:2500]))
        elif not flag and st2 == "refused":
            ctx.violation("custom-content-not-flagged:" + site, "%s %s (%s in %s, via %s): has_custom is False but a strict parse of the serialisation is refused: %s" % (
                ver, t, site, section, route, str(r2)[:160]), dict(case, route=route, has_custom=flag, text=text[:2500], strict_error=repr(r2)[:400]))


def wl_inject(ctx, rng, i):
    ver, bname = BASES[i % len(BASES)]
    rnd = i // len(BASES)
    g = ObjGen(rng, ver, hostile=False, ts_max_digits=6, openvocab_custom=False)
    t, o = make_base(g, ver, bname, "max" if rnd % 2 == 0 else "random", granular=False)
    if validator.validate(o, ver):
        ctx.skip("generator error")
        return
    tmp = tempfile.mkdtemp(prefix="stixmon-c04-")
    try:
        # the un-injected object: flag false, strict accepts
        clause_b(ctx, ver, t, o, "none", "top", {"version": ver, "type": t, "input": o})
        n = 0
        for site, section, oo in injections(ver, o, rng):
            case = {"version": ver, "type": t, "site": site, "section": section, "input": oo}
            # policy-independent precondition for clause (a): the injected thing is custom by the property's own list
            for rname, fn in strict_routes(ver, t, oo, tmp, reads=(ctx.tier == "quick" or i % 4 == 0)):
                if site == "custom-property-without-value":
                    break          # the object would not contain the property: only the flag clause is judged for this site
                if ctx.tier == "quick" and n % 3 and rname not in ("parse-text", "constructor"):
                    continue
                st, r = run(fn)
                ctx.ev()
                ctx.count("strict_attempts")
                ctx.see("strict entry points", rname)
                ctx.nontrivial(ver, t, site, section, "a:" + rname)
                if st == "returned":
                    ctx.violation("custom-admitted-in-strict-mode:" + site, "%s %s: %s in %s was accepted by %s with customisation disallowed" % (ver, t, site, section, rname),
                                  dict(case, entry_point=rname))
            clause_b(ctx, ver, t, oo, site, section, case)
            n += 1
            ctx.count("injections")
        # pre-built instances with custom content handed to the host constructor
        cls = cls_for(ver, t)
        if cls is not None:
            for site, section, path, inst in list(instance_injections(ver, o, rng)) + list(reference_object_injections(ver, o, rng)):
                case = {"version": ver, "type": t, "site": site, "section": section, "nested_path": [str(p) for p in path], "input": o}
                kw = substitute(o, path, inst)
                st, r = run(lambda: cls(allow_custom=False, **kw))
                ctx.ev()
                ctx.count("strict_attempts")
                ctx.count("instance_injections")
                ctx.see("sites", site)
                ctx.nontrivial(ver, t, site, section, "a:constructor-with-instance")
                if st == "returned":
                    ctx.violation("custom-admitted-in-strict-mode:" + site, "%s %s: a pre-built %s carrying custom content was accepted by the strict constructor" % (ver, t, section),
                                  dict(case, entry_point="constructor(allow_custom=False) with nested library object"))
                st, obj = run(lambda: cls(allow_custom=True, **substitute(o, path, inst)))
                if st == "returned":
                    import stix2
                    flag = flag_of(obj)
                    try:
                        with warnings.catch_warnings():
                            warnings.simplefilter("ignore")
                            text = obj.serialize()
                    except Exception:
                        continue
                    if run(lambda: stix2.parse(text, allow_custom=True))[0] == "refused":
                        continue
                    st2, r2 = run(lambda: stix2.parse(text, allow_custom=False))
                    ctx.ev()
                    ctx.count("flag_true" if flag else "flag_false")
                    if flag and st2 == "returned":
                        ctx.violation("flagged-custom-but-strict-accepts:" + site, "has_custom True but strict parse succeeds (pre-built %s)" % section, dict(case, text=text[:2000]))
                    elif not flag and st2 == "refused":
                        ctx.violation("custom-content-not-flagged:" + site, "%s %s: host built from a pre-built %s with custom content has has_custom False, yet a strict parse of its serialisation is refused" % (ver, t, section),
                                      dict(case, text=text[:2000], strict_error=repr(r2)[:300]))
        # a new version of a strict object: custom content among the changes is refused unless the caller opts in, and an empty
        # custom_properties mapping opts into nothing (it does not in the constructors either)
        if cls is not None and "modified" in o and not o.get("revoked"):
            import stix2.versioning
            st0, base_obj = run(lambda: cls(allow_custom=False, **copy.deepcopy(o)))
            if st0 == "returned":
                for lab, kw in (("plain-keyword", {"x_smuggled": 1}), ("empty-custom-properties", {"custom_properties": {}, "x_smuggled": 1}),
                                ("custom-properties-none", {"custom_properties": None, "x_smuggled": 1}),
                                ("empty-custom-properties-method", {"custom_properties": {}, "x_smuggled": 1})):
                    if lab.endswith("method"):
                        st, r = run(lambda: base_obj.new_version(**copy.deepcopy(kw)))
                    else:
                        st, r = run(lambda: stix2.versioning.new_version(base_obj, **copy.deepcopy(kw)))
                    ctx.ev()
                    ctx.count("strict_attempts")
                    ctx.count("versioning_injections")
                    ctx.see("sites", "new-version:" + lab)
                    if st == "returned":
                        ctx.violation("custom-admitted-in-strict-mode:new-version-with-" + lab, "%s %s: new_version(%s) of a strict object accepted a custom property nobody opted into" % (
                            ver, t, ", ".join("%s=%r" % kv for kv in kw.items())), {"version": ver, "type": t, "input": o, "changes": kw, "entry_point": "new_version"})
                        break
        if ctx.want_sample() and n:
            ctx.sample({"version": ver, "type": t, "base": o, "injection_sites": n})
    finally:
        shutil.rmtree(tmp, ignore_errors=True)


def wl_registered(ctx, rng, i):
    """registered custom types, with and without extras; custom extension; custom marking"""
    ver = ["2.0", "2.1"][i % 2]
    g = ObjGen(rng, ver, hostile=False, ts_max_digits=6)
    kind = (i // 2) % 5
    try:
        if kind == 0:
            o = gcustom.widget(g)
            o.pop("x_extra", None)
            site = "registered-custom-object"
        elif kind == 1:
            o = gcustom.widget(g)
            o["x_not_declared"] = 1
            site = "registered-custom-object+extra"
        elif kind == 2:
            o = gcustom.marking_definition(g)
            site = "registered-custom-marking"
        elif kind == 3 and ver == "2.1":
            o = gcustom.sensor21(g)
            site = "registered-custom-observable"
        elif kind == 4 and ver == "2.1":
            o = gcustom.file_with_ext(g)
            site = "registered-custom-extension"
        else:
            o = gcustom.observed20_with_sensor(g) if ver == "2.0" else gcustom.widget(g)
            site = "registered-custom-in-container"
    except KeyError:
        return
    clause_b(ctx, ver, o["type"], o, site, "top", {"version": ver, "type": o["type"], "site": site, "input": o})
    ctx.count("registered_cases")


def wl_unknown(ctx, rng, i):
    """An unregistered object type under strict parse: refused, unless an extension that defines a new object type vouches for it
    (the library's documented pass-through)."""
    import stix2
    ver = ["2.1", "2.0"][i % 2]
    u = V.uuid_text(rng, 4)
    o = {"type": "x-stixmon-unknown", "id": "x-stixmon-unknown--" + u, "created": "2020-01-01T00:00:00.000Z", "modified": "2020-01-01T00:00:00.000Z", "foo": 1}
    if ver == "2.1":
        o["spec_version"] = "2.1"
    key = rng.choice(["extension-definition--" + V.uuid_text(rng, 4), "extension-definition--not-a-uuid", "extension-definition--", "x-some-ext"])
    body = rng.choice([{}, {"extension_type": ""}, {"extension_type": "made-up"}, {"extension_type": "property-extension"}, {"extension_type": "toplevel-property-extension"},
                       {"extension_type": "new-sdo"}, {"extension_type": "new-sco"}, {"extension_type": "new-sro"}, {"extension_type": None}, {"some": "thing"}])
    variant = rng.choice(["none", "ext", "ext"])
    if variant == "ext":
        o["extensions"] = {key: body}
    vouched = variant == "ext" and key.startswith("extension-definition--") and body.get("extension_type") in ("new-sdo", "new-sco", "new-sro")
    case = {"version": ver, "input": o, "vouched_for_by_new_object_extension": vouched}
    for rname, fn in (("parse-dict", lambda: stix2.parse(copy.deepcopy(o), allow_custom=False)), ("parse-text", lambda: stix2.parse(json.dumps(o), allow_custom=False)),
                      ("parse-dict/version", lambda: stix2.parse(copy.deepcopy(o), allow_custom=False, version=ver)),
                      ("bundle-member", lambda: stix2.parse({"type": "bundle", "id": "bundle--" + u, "objects": [copy.deepcopy(o)]}, allow_custom=False)),
                      ("bundle-member/text", lambda: stix2.parse(json.dumps({"type": "bundle", "id": "bundle--" + u, "objects": [o]}), allow_custom=False)),
                      ("bundle-constructor", lambda: (stix2.v21 if ver == "2.1" else stix2.v20).Bundle(objects=[copy.deepcopy(o)])),
                      ("bundle-constructor/after-a-registered-member", lambda: (stix2.v21 if ver == "2.1" else stix2.v20).Bundle(objects=[
                          dict({"type": "identity", "id": "identity--" + u, "created": "2020-01-01T00:00:00.000Z", "modified": "2020-01-01T00:00:00.000Z", "name": "n", "identity_class": "individual"},
                               **({"spec_version": "2.1"} if ver == "2.1" else {})), copy.deepcopy(o)]))):
        st, r = run(fn)
        ctx.ev()
        ctx.count("unknown_type_attempts")
        ctx.nontrivial("unknown", ver, variant, key.split("--")[0], json.dumps(body), rname)
        # the pass-through hands the caller of parse() a plain dictionary, which is no object; a bundle is one, and what it holds is
        # its content: as a member the unregistered type is custom content whatever vouches for it
        if st == "returned" and (not vouched or rname.startswith("bundle")):
            ctx.violation("custom-admitted-in-strict-mode:unregistered-type" + (":vouched-for-bundle-member" if vouched else ""),
                          "an object of an unregistered type was passed through by %s with customisation disallowed (extensions: %s)" % (rname, json.dumps(o.get("extensions"))),
                          dict(case, entry_point=rname))
    # ... and a bundle that was allowed to take it says so
    st, lax = run(lambda: stix2.parse({"type": "bundle", "id": "bundle--" + u, "objects": [copy.deepcopy(o)]}, allow_custom=True))
    if st == "returned" and hasattr(lax, "serialize"):
        ctx.count("bundles_with_unregistered_member_flag_judged")
        flag_vs_strict(ctx, ver, "bundle", lax, "bundle-member-of-unregistered-type" + ("/vouched" if vouched else ""), "parse(allow_custom=True)", case)


def flag_vs_strict(ctx, ver, t, obj, site, route, case):
    """the flag of an object however it was made <=> a strict parse of its serialisation is refused"""
    import stix2
    flag = flag_of(obj)
    try:
        with warnings.catch_warnings():
            warnings.simplefilter("ignore")
            text = obj.serialize()
    except Exception as e:
        ctx.skip("serialize refused (%s)" % type(e).__name__)
        return
    st2, r2 = run(lambda: stix2.parse(text, allow_custom=False))
    ctx.ev()
    ctx.count("flag_true" if flag else "flag_false")
    ctx.see("sites", site)
    ctx.nontrivial(ver, t, site, "b:" + route)
    if flag and st2 == "returned":
        ctx.violation("flagged-custom-but-strict-accepts:" + site, "%s %s (%s, via %s): has_custom is True but a strict parse of the serialisation succeeds" % (ver, t, site, route),
                      dict(case, route=route, has_custom=flag, text=text[:2500]))
    elif not flag and st2 == "refused":
        ctx.violation("custom-content-not-flagged:" + site, "%s %s (%s, via %s): has_custom is False but a strict parse of the serialisation is refused: %s" % (
            ver, t, site, route, str(r2)[:160]), dict(case, route=route, has_custom=flag, text=text[:2500], strict_error=repr(r2)[:400]))


def wl_toplevel(ctx, rng, i):
    """Toplevel-property extensions (registered, unregistered, several at once), with or without a really custom property beside them, built
    through every route an object comes into being by: parse, constructor (entries as dictionaries or as instances of the registered class,
    the extension's properties as keywords or through custom_properties), deepcopy, new_version, marking."""
    import stix2
    g = ObjGen(rng, "2.1", hostile=False, ts_max_digits=6)
    which = ["a", "b", "ab", "ba", "u", "au", "ua"][i % 7]
    o = gcustom.toplevel21(g, which)
    o.pop("revoked", None)           # (a revoked object has no new versions, whatever it carries)
    really_custom = (i // 7) % 3 == 0
    if really_custom:
        o["x_really_custom"] = 1
    site = "toplevel-extension:" + ("registered" if "u" not in which else "unregistered") + ("+custom-property" if really_custom else "")
    case = {"version": "2.1", "site": site, "input": o}
    reg = gcustom.ensure_registered()
    cls = cls_for("2.1", o["type"])
    tl_names = [n for n in ("rank", "seen_at", "aliases", "grade", "graded_by", "zone", "area") if n in o]
    # a property of the OTHER registered toplevel extension, which the object does not carry, is custom content on it -- whatever
    # objects carrying both extensions this process has made before (every seventh case makes some, in either order)
    for have, foreign, val in (("a", "grade", 3), ("b", "rank", 7)):
        o2 = gcustom.toplevel21(g, have)
        o2.pop("revoked", None)
        o2[foreign] = val
        case2 = {"version": "2.1", "site": "toplevel-extension:property-of-another-registered-extension", "input": o2, "cases_before_in_this_process": ctx.counters.get("foreign_toplevel_probes", 0)}
        ctx.count("foreign_toplevel_probes")
        for rname, fn in (("parse-dict", lambda: stix2.parse(copy.deepcopy(o2), allow_custom=False)), ("constructor", lambda: cls(**copy.deepcopy(o2)))):
            st, r = run(fn)
            ctx.ev()
            if st == "returned":
                ctx.violation("custom-admitted-in-strict-mode:property-of-another-toplevel-extension", "%s accepted '%s' (a property of a registered toplevel extension the object does not carry) with customisation disallowed" % (rname, foreign),
                              dict(case2, entry_point=rname))
        st, lax = run(lambda: stix2.parse(copy.deepcopy(o2), allow_custom=True))
        ctx.ev()
        if st == "returned" and hasattr(lax, "serialize") and not flag_of(lax):
            ctx.violation("custom-content-not-flagged:property-of-another-toplevel-extension", "has_custom is False on an object with '%s', a property of a registered toplevel extension it does not carry" % foreign, case2)

    def as_instances():
        kw = copy.deepcopy(o)
        for key, name in ((gcustom.TOPLEVEL_A, "toplevel-a"), (gcustom.TOPLEVEL_B, "toplevel-b")):
            if key in kw["extensions"]:
                kw["extensions"][key] = reg[("2.1", name)]()
        return cls(allow_custom=True, **kw)

    def through_custom_properties():
        kw = copy.deepcopy(o)
        cp = {n: kw.pop(n) for n in tl_names[:max(1, len(tl_names) // 2)]}
        return cls(allow_custom=True, custom_properties=cp, **kw)

    def entries_without_extension_type():
        # a registered extension's entry may leave extension_type to its class
        kw = copy.deepcopy(o)
        for key in (gcustom.TOPLEVEL_A, gcustom.TOPLEVEL_B):
            if key in kw["extensions"]:
                kw["extensions"][key] = {}
        return cls(allow_custom=True, **kw)

    made = []
    for route, fn in (("parse", lambda: stix2.parse(json.dumps(o), allow_custom=True)), ("constructor", lambda: cls(allow_custom=True, **copy.deepcopy(o))),
                      ("constructor/entries-without-extension_type", entries_without_extension_type if "u" not in which else None),
                      ("constructor/instances", as_instances), ("constructor/custom_properties", through_custom_properties if tl_names else None)):
        if fn is None:
            continue
        st, obj = run(fn)
        if st == "refused":
            ctx.skip("refused even with allow_custom=True (%s)" % type(obj).__name__)
            continue
        made.append((route, obj))
        flag_vs_strict(ctx, "2.1", o["type"], obj, site, route, case)
    for route, obj in made[:2]:
        for droute, fn in (("deepcopy", lambda: copy.deepcopy(obj)), ("new_version", lambda: obj.new_version(name="renamed")),
                           ("add_markings", lambda: obj.add_markings("marking-definition--613f2e26-407d-48c7-9eca-b8e91df99dc9")),
                           ("new_version/strict", lambda: stix2.new_version(obj, allow_custom=False, name="renamed") if not really_custom else None)):
            st, obj2 = run(fn)
            if st == "refused" or obj2 is None:
                if st == "refused" and not really_custom and "u" not in which:
                    ctx.ev()
                    ctx.violation("legal-object-refused-as-custom:" + droute, "%s of a 2.1 %s whose only extras belong to registered toplevel-property extensions was refused: %s" % (
                        droute, o["type"], str(obj2)[:160]), dict(case, route=route + "+" + droute, error=repr(obj2)[:300]))
                continue
            flag_vs_strict(ctx, "2.1", o["type"], obj2, site, route + "+" + droute, case)
    ctx.count("toplevel_cases")


WORKLOADS = [
    Workload("toplevel-extensions", wl_toplevel, quick=84, thorough=4200),
    Workload("unknown-type", wl_unknown, quick=80, thorough=2000),
    Workload("inject", wl_inject, quick=lambda: len(BASES) * 2, thorough=lambda: len(BASES) * 200),
    Workload("registered", wl_registered, quick=60, thorough=6000),
]


def floors(m, tier):
    c = m["counters"]
    out = []
    if c.get("flag_true", 0) < 300 or c.get("flag_false", 0) < 50:
        out.append("too few flag/re-parse equivalence evaluations (true %d, false %d)" % (c.get("flag_true", 0), c.get("flag_false", 0)))
    if c.get("strict_attempts", 0) < 2000:
        out.append("fewer than 2000 strict-mode attempts")
    sites = m["seen"].get("sites", set())
    if c.get("versioning_injections", 0) < 100:
        out.append("fewer than 100 custom properties offered to new_version of a strict object (%d)" % c.get("versioning_injections", 0))
    if c.get("instance_injections", 0) < 100:
        out.append("fewer than 100 pre-built-instance injections (%d)" % c.get("instance_injections", 0))
    for s in ("custom-property", "custom-hash-algorithm", "reference-to-x-type", "reference-to-unregistered-type", "reference-to-type-of-the-other-version", "unregistered-extension",
              "unregistered-member", "unregistered-observable", "none"):
        if s not in sites:
            out.append("injection site %s never exercised" % s)
    return out[:6]


MANIFEST = {
    "text": ("One customisation at a time is injected at every place the frozen model says custom content can hide (every nested "
             "object, hashes dictionary, reference slot, extension dictionary, container) of valid objects of all types; strict "
             "constructors, parse and four store entry points must refuse it, and on the allow_custom route the custom-content flag "
             "must be true exactly when a strict parse of the object's own serialisation is refused.  Exploration over thousands of injected cases."),
    "note": "the equivalence form makes clause (b) independent of the library's policy on what counts as custom; clause (a) uses the property's own list of customisation kinds",
    "technique": "runtime monitoring with systematic injection: refusal monitor + flag/re-parse equivalence oracle",
}
