"""C09 -- pattern equivalence is a total, sound equivalence relation.

Events: equivalent_patterns(p, q), find_equivalent_patterns(p, L) -> bool/list | raised.
Oracles: (1) totality on syntactically valid patterns; (2) reflexive / symmetric / transitive on generated pairs and
rewrite chains; (3) soundness -- whenever the library answers True, an independent evaluator must find p and q matching
exactly the same members of bounded universes of observation sequences; (4) completeness only for the documented rewrites,
each first confirmed semantics-preserving by the evaluator; (5) find_equivalent_patterns == filter by equivalent_patterns.
"""
import random
import traceback
import warnings

from ..ctx import Workload
from ..oracles import pattern_ast as P
from ..oracles import pattern_eval as E
from .c10 import has_consecutive_indices, has_exists, has_unsatisfiable_and, validate_text

ID = "C09"
LEVEL = "exploration"
SHARDS = {"quick": 4, "thorough": 16}
RULE = ("patterns from the own generator (all operators with/without NOT, all constant kinds, nested AND/OR/FOLLOWEDBY with "
        "qualifiers); pairs made by the documented rewrites (commute, re-associate, duplicate OR operand, absorption, distribution "
        "of AND/FOLLOWEDBY over OR, set-literal reordering, numerically equal constants, != vs NOT =) and by tempting-but-wrong "
        "rewrites (duplicate AND/FOLLOWEDBY operand, commute FOLLOWEDBY, flip NOT, perturb constant/operator, distribute a qualifier, "
        "merge observations); triples from rewrite chains.  Every True answer is audited on 3 (quick) / 6 (thorough) universes of "
        "2^7 observation subsets.  Non-trivial: a pair with >= 2 atoms; distinct = distinct (normalised p, normalised q)")
ASSUMPTIONS = [
    "validity is decided by the third-party stix2patterns validator",
    "soundness universe excludes the specially canonicalised paths (ipv4-addr:value, ipv6-addr:value, windows-registry-key:key / values[*].name), index path steps and EXISTS; those stay in the totality and relation workloads",
    "patterning semantics as stated in stixmon/oracles/pattern_eval.py, validated against every equivalent pair of the repository's own equivalence tests (selftest)",
    "incompleteness (answering False for equivalent patterns) is a violation only for the documented rewrites",
]
SPECIAL = {("ipv4-addr", "value"), ("ipv6-addr", "value"), ("windows-registry-key", "key"), ("windows-registry-key", "values")}


def eq(p, q):
    from stix2.equivalence.pattern import equivalent_patterns
    with warnings.catch_warnings():
        warnings.simplefilter("ignore")
        return bool(equivalent_patterns(p, q))


def where_raised(exc):
    tb = traceback.extract_tb(exc.__traceback__)
    inner = None
    for fr in tb:
        if "/stix2/" in fr.filename and "/test/" not in fr.filename:
            inner = fr
    return "%s:%s" % (inner.filename.split("/stix2/", 1)[1], inner.name) if inner else "outside-stix2"


def lib_eq(ctx, p, q, trees, what):
    """equivalent_patterns with totality judged; returns True/False/None"""
    ctx.ev()
    ctx.count("equivalence_calls")
    try:
        return eq(p, q)
    except Exception as e:
        key = "raised:%s@%s" % (type(e).__name__, where_raised(e))
        if any(has_exists(t) for t in trees):
            key = "exists-unmodelled"
        elif any(has_consecutive_indices(t) for t in trees):
            key = "consecutive-index-steps-unmodelled"
        elif isinstance(e, ValueError) and "satisfiable with the same object type" in str(e) and where_raised(e).startswith("patterns.py"):
            key = "cross-type-and-refused" if any(has_unsatisfiable_and(t) for t in trees) else "satisfiable-and-refused"
        ctx.violation(key, "equivalent_patterns raised %s on valid patterns (%s): %s" % (type(e).__name__, what, str(e)[:120]),
                      {"pattern1": p, "pattern2": q, "exception": repr(e)[:300], "raised_in": where_raised(e)})
        return None


# ---------------------------------------------------------------------------------------------- generation for soundness

def simple_path(rng, t=None):
    t = t or rng.choice(["file", "process", "x-custom", "network-traffic", "user-account"])
    steps = [("k", rng.choice(["name", "size", "pid", "x_prop", "dst_port", "created", "mime_type", "is_hidden"]))]
    if rng.random() < 0.25:
        steps.append(("k", rng.choice(["inner", "value", "n1"])))
    elif rng.random() < 0.25:
        # index steps and keys that look like them (quoted in the text)
        steps.append(rng.choice([("i", 0), ("i", 1), ("i", "*"), ("k", "*"), ("k", "1"), ("k", "0")]))
        if rng.random() < 0.5:
            steps.append(("k", rng.choice(["inner", "name"])))
    return (t, tuple(steps))


def simple_cmp(rng, t=None):
    c = P.gen_cmp(rng, exists_ok=False)
    while c[2] in ("ISSUBSET", "ISSUPERSET") and rng.random() < 0.7:
        c = P.gen_cmp(rng, exists_ok=False)
    path = simple_path(rng, t)
    return ("cmp", path) + tuple(c[2:])


def simple_bool(rng, depth, t):
    if depth <= 0 or rng.random() < 0.45:
        return simple_cmp(rng, t)
    return (rng.choice(["and", "or"]), [simple_bool(rng, depth - 1, t) for _ in range(rng.choice([2, 2, 3]))])


def simple_obs(rng, depth):
    r = rng.random()
    if depth <= 0 or r < 0.45:
        t = rng.choice(["file", "process", "x-custom"])
        return ("obs", simple_bool(rng, rng.choice([0, 1, 1, 2]), t))
    if r < 0.85:
        return (rng.choice(["oand", "oor", "ofb"]), [simple_obs(rng, depth - 1) for _ in range(rng.choice([2, 2, 3]))])
    inner = simple_obs(rng, depth - 1)
    q = rng.choice([("repeats", rng.choice([1, 2, 3])), ("within", float(rng.choice([1, 5, 60])), str(rng.choice([1, 5, 60]))),
                    ("startstop", 63713433600000000, 63713433600000000 + rng.choice([1, 60, 86400]) * 10 ** 6)])
    if q[0] == "within":
        q = ("within", float(q[2]), q[2])
    cur = inner
    while cur[0] == "qual":
        if cur[2][0] == q[0]:
            return inner
        cur = cur[1]
    return ("qual", inner, q)


# ---------------------------------------------------------------------------------------------- rewrites

def subexprs(e, path=()):
    yield path, e
    k = e[0]
    if k in ("and", "or", "oand", "oor", "ofb"):
        for i, x in enumerate(e[1]):
            yield from subexprs(x, path + (i,))
    elif k in ("obs", "qual"):
        yield from subexprs(e[1], path + ("in",))


def replace(e, path, new):
    if not path:
        return new
    k = e[0]
    if path[0] == "in":
        if k == "obs":
            return ("obs", replace(e[1], path[1:], new))
        return ("qual", replace(e[1], path[1:], new), e[2])
    ops = list(e[1])
    ops[path[0]] = replace(ops[path[0]], path[1:], new)
    return (k, ops)


def level(e):
    return "cmp" if e[0] in ("cmp", "and", "or", "exists") else "obs"


def obj_type_of(e):
    if e[0] == "cmp":
        return e[1][0]
    if e[0] in ("and", "or"):
        return obj_type_of(e[1][0])
    return None


def perturb_const(rng, c):
    k = c[0]
    if k == "int":
        return ("int", c[1] + rng.choice([1, -1, 7]))
    if k == "float":
        x = c[1] + 0.5
        return ("float", x, P._float_text(x))
    if k == "str":
        return ("str", c[1] + "z")
    if k == "bool":
        return ("bool", not c[1])
    if k == "ts":
        return ("ts", c[1] + 10 ** 6)
    if k == "hex":
        return ("hex", c[1] + "00")
    if k == "bin":
        return ("bin", "AQIDBA==" if c[1] != "AQIDBA==" else "AQID")
    if k == "set":
        return ("set", tuple(c[1]) + (perturb_const(rng, c[1][0]),))
    return c


RIGHT = ["commute", "reassociate", "dup-or", "absorb", "distribute", "set-reorder", "numeric-equal", "neq-vs-not-eq", "distribute-fully"]


def distribute_fully(e):
    """AND / FOLLOWEDBY distributed over OR again and again, until no OR is left below them (observations and qualifiers are not split)"""
    k = e[0]
    if k in ("and", "oand", "ofb"):
        ork = "or" if k == "and" else "oor"
        ops = [distribute_fully(x) for x in e[1]]
        for i, x in enumerate(ops):
            if x[0] == ork:
                alts = [distribute_fully((k, ops[:i] + [a] + ops[i + 1:])) for a in x[1]]
                flat = []
                for a in alts:
                    flat.extend(a[1] if a[0] == ork else [a])
                return (ork, flat)
        return (k, ops)
    if k in ("or", "oor"):
        flat = []
        for x in e[1]:
            x = distribute_fully(x)
            flat.extend(x[1] if x[0] == k else [x])
        return (k, flat)
    if k == "obs":
        return ("obs", distribute_fully(e[1]))
    return e
WRONG = ["dup-and", "commute-followedby", "flip-not", "perturb-constant", "perturb-operator", "distribute-qualifier", "merge-observations",
         "drop-operand", "perturb-qualifier", "and-to-or", "absorb-wrong", "perturb-path-step"]
STEP_SWAPS = {("i", "*"): [("k", "*"), ("i", 0)], ("k", "*"): [("i", "*")], ("i", 0): [("k", "0"), ("i", "*"), ("i", 1)], ("i", 1): [("k", "1"), ("i", "*"), ("i", 0)],
              ("k", "0"): [("i", 0)], ("k", "1"): [("i", 1)],
              # keys which differ in backslashes only (escaped in the text: none, one, two) are different keys
              ("k", "back\\slash"): [("k", "backslash"), ("k", "back\\\\slash")], ("k", "backslash"): [("k", "back\\slash")], ("k", "back\\\\slash"): [("k", "back\\slash"), ("k", "backslash")],
              ("k", "it's"): [("k", "its")], ("k", "a b"): [("k", "ab")],
              # what follows an index step (also the falsy index 0) is part of the path like everything else
              ("k", "inner"): [("k", "other")], ("k", "other"): [("k", "inner")]}


def rewrite(rng, e, kind):
    """apply one rewrite of the given kind at a random applicable position; None if not applicable"""
    subs = list(subexprs(e))
    rng.shuffle(subs)
    for path, s in subs:
        k = s[0]
        new = None
        if kind == "commute" and k in ("and", "or", "oand", "oor") and len(s[1]) >= 2:
            ops = list(s[1])
            rng.shuffle(ops)
            if ops != list(s[1]):
                new = (k, ops)
        elif kind == "reassociate" and k in ("and", "or", "oand", "oor", "ofb") and len(s[1]) >= 3:
            ops = list(s[1])
            cut = rng.randrange(1, len(ops) - 1)
            new = (k, [(k, ops[:cut + 1])] + ops[cut + 1:]) if rng.random() < 0.5 else (k, ops[:cut] + [(k, ops[cut:])])
        elif kind == "dup-or" and k in ("or", "oor"):
            ops = list(s[1])
            ops.insert(rng.randrange(len(ops) + 1), rng.choice(ops))
            new = (k, ops)
        elif kind == "dup-or" and k in ("cmp", "obs") and rng.random() < 0.3:
            new = ("or" if k == "cmp" else "oor", [s, s])
        elif kind == "absorb" and k in ("cmp", "and", "obs", "oand", "ofb"):
            if level(s) == "cmp":
                y = simple_cmp(rng, obj_type_of(s))
                new = ("or", [s, ("and", [s, y])]) if rng.random() < 0.5 else ("or", [("and", [y, s]), s])
            elif k in ("oand", "ofb") and rng.random() < 0.6:
                # the container holds the operands of s in the same order with something mixed in
                ops = list(s[1])
                ops.insert(rng.randrange(len(ops) + 1), simple_obs(rng, 0))
                new = ("oor", [s, (k, ops)])
            else:
                # A or (A op B) = A wherever A stands among the operands (FOLLOWEDBY keeps them in the order written, so A may come
                # after operands which sort before or after it) and whichever side of the OR the container is on
                inner = [s]
                for _ in range(rng.choice([1, 1, 2])):
                    inner.insert(rng.randrange(len(inner) + 1), simple_obs(rng, 0))
                cont = (rng.choice(["oand", "ofb", "ofb"]), inner)
                new = ("oor", [s, cont] if rng.random() < 0.6 else [cont, s])
        elif kind == "absorb-wrong" and k == "obs" and rng.random() < 0.5:
            # multiset, not set, containment: (X AND X) is not absorbed by / does not absorb (X AND Y)
            op = rng.choice(["oand", "ofb"])
            new = ("oor", [(op, [s, s]), (op, [s, simple_obs(rng, 0)] if rng.random() < 0.5 else [simple_obs(rng, 0), s])])
            return replace(e, path, new), replace(e, path, (op, [s, s]))
        elif kind == "absorb-wrong" and k == "ofb" and len(s[1]) >= 2:
            ops = list(s[1])
            if rng.random() < 0.6:
                ops.reverse()                                  # same operands, wrong order
                container = ("ofb", ops + [simple_obs(rng, 0)])
            else:
                container = ("oand", ops + [simple_obs(rng, 0)])     # AND does not imply the order
            new = ("oor", [s, container])
        elif kind == "absorb-wrong" and k in ("and", "or") and len(s[1]) >= 2:
            t = obj_type_of(s)
            ops = list(s[1])
            outer = "or" if k == "and" else "and"
            new = (outer, [s, (k, ops[:-1] + [simple_cmp(rng, t), simple_cmp(rng, t)])])   # shares only part of s
        elif kind == "absorb-wrong" and k == "oand" and len(s[1]) >= 2:
            ops = list(s[1])
            new = ("oor", [s, ("oand", ops[:-1] + [simple_obs(rng, 0)])])   # container lacks one operand
        elif kind == "distribute" and k in ("and", "oand", "ofb"):
            ops = list(s[1])
            ork = "or" if k == "and" else "oor"
            idx = [i for i, x in enumerate(ops) if x[0] == ork]
            if idx:
                i = rng.choice(idx)
                alts = ops[i][1]
                new = (ork, [(k, ops[:i] + [a] + ops[i + 1:]) for a in alts])
        elif kind == "distribute-fully" and k in ("and", "oand", "ofb"):
            d = distribute_fully(s)
            if d != s:
                new = d
        elif kind == "set-reorder" and k == "cmp" and s[4][0] == "set" and len(s[4][1]) >= 2:
            items = list(s[4][1])
            rng.shuffle(items)
            if items != list(s[4][1]):
                new = s[:4] + (("set", tuple(items)),)
        elif kind == "numeric-equal" and k == "cmp" and s[4][0] == "int" and abs(s[4][1]) < 2 ** 40:
            x = float(s[4][1])
            new = s[:4] + (("float", x, P._float_text(x)),)
        elif kind == "numeric-equal" and k == "cmp" and s[4][0] == "float" and float(s[4][1]).is_integer() and abs(s[4][1]) < 2 ** 40:
            new = s[:4] + (("int", int(s[4][1])),)
        elif kind == "neq-vs-not-eq" and k == "cmp" and s[2] in ("=", "!="):
            new = ("cmp", s[1], "!=" if s[2] == "=" else "=", not s[3], s[4])
        # ---- wrong ones
        elif kind == "dup-and" and k in ("obs", "oand", "ofb", "qual"):
            new = (rng.choice(["oand", "ofb"]), [s, s])
        elif kind == "commute-followedby" and k == "ofb":
            ops = list(s[1])
            ops.reverse()
            new = (k, ops)
        elif kind == "flip-not" and k == "cmp":
            new = ("cmp", s[1], s[2], not s[3], s[4])
        elif kind == "perturb-constant" and k == "cmp":
            new = s[:4] + (perturb_const(rng, s[4]),)
        elif kind == "perturb-path-step" and k == "cmp":
            t_, steps = s[1]
            idx = [j for j, st in enumerate(steps) if tuple(st) in STEP_SWAPS and j > 0]
            if idx:
                j = rng.choice(idx)
                ns = list(steps)
                ns[j] = rng.choice(STEP_SWAPS[tuple(steps[j])])
                if not (ns[j][0] == "i" and ns[j - 1][0] == "i"):
                    new = ("cmp", (t_, tuple(ns))) + tuple(s[2:])
        elif kind == "perturb-operator" and k == "cmp" and s[2] in ("<", ">", "<=", ">=", "=", "!="):
            alt = {"<": "<=", ">": ">=", "<=": "<", ">=": ">", "=": ">=", "!=": "<"}[s[2]]
            if not (alt in ("<", ">", "<=", ">=") and s[4][0] == "bool"):
                new = ("cmp", s[1], alt, s[3], s[4])
        elif kind == "distribute-qualifier" and k == "qual" and s[1][0] in ("oor", "oand", "ofb"):
            new = (s[1][0], [("qual", x, s[2]) for x in s[1][1]])
        elif kind == "merge-observations" and k == "oand" and all(x[0] == "obs" for x in s[1]) and len({obj_type_of(x[1]) for x in s[1]}) == 1:
            new = ("obs", ("and", [x[1] for x in s[1]]))
        elif kind == "drop-operand" and k in ("and", "or", "oand", "oor", "ofb") and len(s[1]) >= 2:
            ops = list(s[1])
            ops.pop(rng.randrange(len(ops)))
            new = (k, ops) if len(ops) > 1 else ops[0]
        elif kind == "perturb-qualifier" and k == "qual":
            q = s[2]
            if q[0] == "repeats":
                q2 = ("repeats", q[1] + 1)
            elif q[0] == "within":
                q2 = ("within", q[1] + 1.0, P._float_text(q[1] + 1.0) if q[1] + 1.0 != int(q[1] + 1.0) else str(int(q[1] + 1)))
            else:
                q2 = ("startstop", q[1], q[2] + 10 ** 6)
            new = ("qual", s[1], q2)
        elif kind == "and-to-or" and k in ("and", "oand"):
            new = ("or" if k == "and" else "oor", s[1])
        if new is not None:
            return replace(e, path, new)
    return None


def audit(ctx, p_ast, q_ast, p_txt, q_txt, rng, label):
    """library said True: the evaluator must not be able to separate p and q.  Returns 'same' | 'separated' | 'unknown'"""
    pools = 3 if ctx.tier == "quick" else 6
    pn, qn = P.normalize(p_ast), P.normalize(q_ast)
    done = 0
    for _ in range(pools * 2):
        pool = E.make_pool(rng, [pn, qn], 7)
        if pool is None:
            continue
        try:
            sep = E.separate(pn, qn, pool)
        except E.TooBig:
            ctx.count("evaluator_gave_up")
            continue
        except Exception as ex:
            ctx.count("evaluator_errors")
            continue
        done += 1
        ctx.count("universes_evaluated")
        if sep is not None:
            return "separated", {"pool": E.describe_pool(pool), "difference": sep}
        if done >= pools:
            break
    return ("same", None) if done else ("unknown", None)


def prepare(rng, ast):
    text = P.to_text(ast, rng)
    errs = validate_text(text)
    if errs is None or errs:
        return None
    try:
        if P.normalize(P.read(text)) != P.normalize(ast):
            return None
    except Exception:
        return None
    return text


def shape_for(rng, kind):
    """a pattern on which the given rewrite is applicable"""
    t = rng.choice(["file", "process", "x-custom"])
    o = lambda: ("obs", simple_bool(rng, rng.choice([0, 1]), rng.choice(["file", "process", "x-custom"])))   # noqa: E731
    if kind in ("distribute-qualifier", "perturb-qualifier"):
        q = rng.choice([("repeats", 2), ("within", 5.0, "5"), ("startstop", 63713433600000000, 63713433660000000)])
        return ("qual", (rng.choice(["oor", "oand", "ofb"]), [o(), o()]), q)
    if kind == "merge-observations":
        return ("oand", [("obs", simple_bool(rng, 0, t)), ("obs", simple_bool(rng, 1, t))])
    if kind == "absorb-wrong":
        if rng.random() < 0.4:
            return ("obs", (rng.choice(["and", "or"]), [simple_cmp(rng, t), simple_cmp(rng, t)] + ([simple_cmp(rng, t)] if rng.random() < 0.4 else [])))
        return (rng.choice(["ofb", "ofb", "oand"]), [o(), o()] + ([o()] if rng.random() < 0.4 else []))
    if kind in ("commute-followedby", "reassociate"):
        return (rng.choice(["ofb"] if kind == "commute-followedby" else ["ofb", "oand", "oor"]), [o(), o(), o()])
    if kind == "distribute":
        if rng.random() < 0.5:
            return (rng.choice(["oand", "ofb"]), [o(), ("oor", [o(), o()])])
        return ("obs", ("and", [simple_cmp(rng, t), ("or", [simple_cmp(rng, t), simple_cmp(rng, t)])]))
    if kind == "distribute-fully":
        # three and four alternating levels, inside one observation and between observations
        c = lambda: simple_cmp(rng, t)       # noqa: E731
        if rng.random() < 0.6:
            inner = ("and", [c(), ("or", [c(), c()])]) if rng.random() < 0.5 else ("and", [("or", [c(), c()]), c()])
            mid = ("or", [c(), inner]) if rng.random() < 0.5 else ("or", [inner, c()])
            top = ("and", [c(), mid]) if rng.random() < 0.5 else ("and", [mid, c()])
            return ("obs", top)
        inner = (rng.choice(["oand", "ofb"]), [o(), ("oor", [o(), o()])])
        return (rng.choice(["oand", "ofb"]), [o(), ("oor", [o(), inner])])
    if kind == "set-reorder":
        c = ("set", tuple(("int", v) for v in rng.sample(range(1, 50), 3)))
        return ("obs", ("and", [("cmp", simple_path(rng, t), "IN", rng.random() < 0.3, c), simple_cmp(rng, t)]))
    if kind == "numeric-equal":
        return ("obs", ("cmp", simple_path(rng, t), rng.choice(["=", "<", ">="]), False, ("int", rng.randrange(0, 1000))))
    if kind == "perturb-path-step" and rng.random() < 0.35:
        path = (t, (("k", rng.choice(["x_prop", "name", "values"])), ("i", rng.choice([0, 0, 1, "*"])), ("k", rng.choice(["inner", "other"]))) + ((("k", "deeper"),) if rng.random() < 0.3 else ()))
        return ("obs", ("cmp", path, rng.choice(["=", "!=", ">"]), False, ("int", 1)))
    if kind == "perturb-path-step":
        step = rng.choice(list(STEP_SWAPS))
        path = (t, (("k", rng.choice(["x_prop", "name", "values"])), step) + ((("k", "inner"),) if rng.random() < 0.5 or step[0] == "k" and step[1] not in ("*", "0", "1") else ()))
        c = ("cmp", path, rng.choice(["=", "!=", ">", "MATCHES"]), rng.random() < 0.2, ("int", 1))
        if c[2] == "MATCHES":
            c = c[:4] + (("str", "^a"),)
        return ("obs", ("and", [c, simple_cmp(rng, t)])) if rng.random() < 0.5 else ("obs", c)
    return simple_obs(rng, rng.choice([1, 1, 2, 2]))


def wl_rewrites(ctx, rng, i):
    allk = RIGHT + WRONG
    focus = allk[i % len(allk)]
    p = shape_for(rng, focus) if rng.random() < 0.7 else simple_obs(rng, rng.choice([0, 1, 1, 2, 2]))
    ptxt = prepare(rng, p)
    if ptxt is None:
        ctx.skip("generator error")
        return
    r0 = lib_eq(ctx, ptxt, ptxt, [p], "reflexivity")
    if r0 is False:
        ctx.violation("not-reflexive", "a pattern is reported as not equivalent to itself", {"pattern": ptxt})
    kinds = [focus] + rng.sample([k for k in RIGHT if k != focus], 2) + rng.sample([k for k in WRONG if k != focus], 2)
    chain = [(p, ptxt)]
    p0, ptxt0 = p, ptxt
    for kind in kinds:
        p, ptxt = p0, ptxt0
        q = rewrite(rng, p, kind)
        if q is None:
            continue
        p_here, ptxt_here = p, ptxt
        if isinstance(q, tuple) and len(q) == 2 and isinstance(q[0], tuple) and q[0] and isinstance(q[0][0], str) and isinstance(q[1], tuple) \
                and q[1] and isinstance(q[1][0], str) and q[0][0] in P.PREC and q[1][0] in P.PREC and not isinstance(q[0][1], str):
            q, p_here = q
            ptxt_here = prepare(rng, p_here)
            if ptxt_here is None:
                continue
        qtxt = prepare(rng, q)
        if qtxt is None:
            ctx.skip("rewrite produced text the validator rejects")
            continue
        p_saved, ptxt_saved = p, ptxt
        p, ptxt = p_here, ptxt_here
        ans = lib_eq(ctx, ptxt, qtxt, [p, q], kind)
        if ans is None:
            continue
        back = lib_eq(ctx, qtxt, ptxt, [p, q], kind + " (swapped)")
        ctx.count("pairs")
        ctx.see("rewrite kinds", kind)
        ctx.nontrivial(P.jsonable(P.normalize(p)), P.jsonable(P.normalize(q)))
        w = {"rewrite": kind, "pattern1": ptxt, "pattern2": qtxt}
        # the 2.0 route answers the same on the sub-language both grammars share
        try:
            from .c10 import shared_sublanguage
            if shared_sublanguage(p) and shared_sublanguage(q) and validate_text(ptxt, "2.0") == [] and validate_text(qtxt, "2.0") == []:
                from stix2.equivalence.pattern import equivalent_patterns
                with warnings.catch_warnings():
                    warnings.simplefilter("ignore")
                    ans20 = bool(equivalent_patterns(ptxt, qtxt, stix_version="2.0"))
                ctx.ev()
                ctx.count("v20_rewrite_pairs")
                if ans20 != ans:
                    ctx.violation("version-dependent-answer", "equivalent_patterns answers %s under 2.1 and %s under 2.0 for a pair both grammars accept (made by %s)" % (ans, ans20, kind), w)
        except Exception as e20:
            if not (isinstance(e20, ValueError) and "satisfiable" in str(e20)):
                ctx.violation("raised:%s@%s" % (type(e20).__name__, where_raised(e20)), "equivalent_patterns(stix_version='2.0') raised %s on a rewrite pair" % type(e20).__name__, dict(w, exception=repr(e20)[:300]))
        if back is not None and back != ans:
            ctx.violation("not-symmetric", "equivalent_patterns(p, q) = %s but (q, p) = %s" % (ans, back), w)
        if ans:
            ctx.count("true_answers")
            verdict, detail = audit(ctx, p, q, ptxt, qtxt, rng, kind)
            ctx.ev()
            if verdict == "separated":
                ctx.violation("unsound:" + kind if kind in WRONG else "unsound:after-" + kind,
                              "patterns reported equivalent match different observation sequences (pair made by %s)" % kind, dict(w, **detail))
            elif verdict == "same":
                ctx.count("true_answers_confirmed")
                if kind in RIGHT:
                    chain.append((q, qtxt))
        elif kind in RIGHT:
            # completeness for a documented rewrite -- only if the evaluator confirms the rewrite preserved the meaning
            verdict, detail = audit(ctx, p, q, ptxt, qtxt, rng, kind)
            ctx.ev()
            if verdict == "same":
                ctx.violation("documented-rewrite-not-recognised:" + kind, "patterns related by %s are reported as not equivalent" % kind, w)
            elif verdict == "separated":
                ctx.count("generator_rewrite_not_semantics_preserving")
        p, ptxt = p_saved, ptxt_saved
    p, ptxt = p0, ptxt0
    # transitivity along the chain of confirmed-equivalent rewrites
    if len(chain) >= 3:
        a, b, c = chain[0], chain[1], chain[2]
        ab, bc = lib_eq(ctx, a[1], b[1], [a[0], b[0]], "chain"), lib_eq(ctx, b[1], c[1], [b[0], c[0]], "chain")
        if ab and bc:
            ac = lib_eq(ctx, a[1], c[1], [a[0], c[0]], "chain")
            ctx.count("triples")
            if ac is False:
                ctx.violation("not-transitive", "p~q and q~r but not p~r", {"p": a[1], "q": b[1], "r": c[1]})
    # find_equivalent_patterns == filter
    if len(chain) >= 2 and i % 3 == 0:
        from stix2.equivalence.pattern import find_equivalent_patterns
        others = [prepare(rng, simple_obs(rng, 1)) for _ in range(3)]
        L = [t for _, t in chain[1:]] + [t for t in others if t]
        rng.shuffle(L)
        ctx.ev()
        try:
            with warnings.catch_warnings():
                warnings.simplefilter("ignore")
                found = list(find_equivalent_patterns(ptxt, L))
            expect = [x for x in L if eq(ptxt, x)]
            ctx.count("find_calls")
            if found != expect:
                ctx.violation("find-differs-from-filter", "find_equivalent_patterns disagrees with pairwise equivalent_patterns", {"query": ptxt, "collection": L, "found": found, "expected": expect})
        except Exception as e:
            ctx.violation("raised:%s@%s" % (type(e).__name__, where_raised(e)), "find_equivalent_patterns raised %s" % type(e).__name__, {"query": ptxt, "collection": L, "exception": repr(e)[:300]})
    if ctx.want_sample() and len(chain) >= 2:
        ctx.sample({"pattern": ptxt, "equivalent_rewrites_confirmed": [t for _, t in chain[1:]]})


def wl_totality(ctx, rng, i):
    """any two valid patterns (full grammar, incl. index steps, special paths with every constant kind, cross-type booleans)"""
    a = P.gen_pattern(rng)
    b = P.gen_pattern(rng)
    if rng.random() < 0.4:
        # specials with unusual constants
        t, prop = rng.choice([("ipv4-addr", "value"), ("ipv6-addr", "value"), ("windows-registry-key", "key"), ("windows-registry-key", "values")])
        steps = [("k", prop)] + ([("i", rng.choice([0, "*"])), ("k", "name")] if prop == "values" else [])
        c = P.gen_const(rng) if rng.random() < 0.6 else ("str", rng.choice(["198.51.100.1/32", "198.51.100.1", "2001:db8::1/128", "HKEY_LOCAL_MACHINE\\\\Foo", "hkey_local_machine\\\\foo", "1.2.3", "::ffff:1.2.3.4", "300.1.1.1", "1.2.3.4/33", ""]))
        op = rng.choice(["=", "!=", "IN", ">", "LIKE", "MATCHES", "ISSUBSET", "ISSUPERSET"])
        if op == "IN":
            c = ("set", (c, P.gen_const(rng, (c[0],) if c[0] != "set" else ("str",))))
        elif op in ("LIKE", "MATCHES", "ISSUBSET", "ISSUPERSET") and c[0] != "str":
            c = ("str", "198.51.100.0/24")
        elif op == ">" and c[0] == "bool":
            c = ("int", 5)
        a = ("obs", ("cmp", (t, tuple(steps)), op, rng.random() < 0.3, c))
    if rng.random() < 0.05:
        # comparisons on different object types joined by AND inside one observation: valid by the grammar, never matching
        a = ("obs", ("and", [simple_cmp(rng, "file"), simple_cmp(rng, "process")] + ([simple_cmp(rng, "file")] if rng.random() < 0.3 else [])))
        ctx.count("cross_type_and_patterns")
    at, bt = prepare(rng, a), prepare(rng, b)
    if not at or not bt:
        ctx.skip("generator error")
        return
    r = lib_eq(ctx, at, bt, [a, b], "random pair")
    lib_eq(ctx, at, at, [a], "reflexive (full grammar)")
    # the same under the 2.0 grammar, for the sub-language both grammars share
    from .c10 import shared_sublanguage
    if shared_sublanguage(a) and shared_sublanguage(b) and validate_text(at, "2.0") == [] and validate_text(bt, "2.0") == []:
        from stix2.equivalence.pattern import equivalent_patterns
        ctx.ev()
        ctx.count("v20_pairs")
        try:
            with warnings.catch_warnings():
                warnings.simplefilter("ignore")
                r20 = bool(equivalent_patterns(at, bt, stix_version="2.0"))
                refl = bool(equivalent_patterns(at, at, stix_version="2.0"))
            if not refl:
                ctx.violation("not-reflexive", "a pattern is not equivalent to itself under stix_version=2.0", {"pattern": at})
            if r is not None and r20 != r:
                ctx.violation("version-dependent-answer", "equivalent_patterns answers %s under 2.1 and %s under 2.0 for patterns both grammars accept" % (r, r20),
                              {"pattern1": at, "pattern2": bt})
        except Exception as e:
            key20 = "raised:%s@%s" % (type(e).__name__, where_raised(e))
            if isinstance(e, ValueError) and "satisfiable with the same object type" in str(e):
                key20 = "cross-type-and-refused"
            elif has_consecutive_indices(a) or has_consecutive_indices(b):
                key20 = "consecutive-index-steps-unmodelled"
            elif has_exists(a) or has_exists(b):
                key20 = "exists-unmodelled"
            ctx.violation(key20, "equivalent_patterns(stix_version='2.0') raised %s" % type(e).__name__,
                          {"pattern1": at, "pattern2": bt, "exception": repr(e)[:300]})
    ctx.count("totality_pairs")
    if r:
        ctx.count("random_pair_true")


RESPELL4 = [("10", "0.0.0.10"), ("1.2.3.004", "1.2.3.4"), ("198.51.100.7/32", "198.51.100.7"), ("10.1.2.3/8", "10.0.0.0/8"), ("127.1", "127.0.0.1"),
            ("0x7f.0.0.1", "127.0.0.1"), ("198.51.100.77/24", "198.51.100.0/24"), ("1.2.3.4", "01.02.03.04")]
RESPELL6 = [("2001:db8:0:0::1", "2001:db8::1"), ("2001:DB8::1", "2001:db8::1"), ("2001:db8::1/128", "2001:db8::1"), ("2001:db8::1:2/112", "2001:db8::1:0/112"),
            ("::ffff:1.2.3.4", "::ffff:102:304"), ("2001:db8::0:1", "2001:db8::1")]
RESPELLK = [("HKEY_LOCAL_MACHINE\\\\Foo\\\\S+", "hkey_local_machine\\\\foo\\\\s+"), ("\\S+", "\\s+"), ("^HKLM\\\\\\D", "^hklm\\\\\\d"), ("[A-Z]+", "[a-z]+"), ("\\W", "\\w")]


# strings which are no spelling of a dotted-decimal address / hexadecimal IPv6 address / decimal prefix at all (although the platform's
# address functions or int() would take them): under = they are plain different strings
NOT_SPELLINGS = [("ipv4-addr", "127.1", "127.0.0.1"), ("ipv4-addr", "10", "0.0.0.10"), ("ipv4-addr", "1.2.3.4 x", "1.2.3.4"), ("ipv4-addr", "0x7f.0.0.1", "127.0.0.1"),
                 ("ipv4-addr", "16909060", "1.2.3.4"), ("ipv4-addr", "1.2.3.4/+8", "1.0.0.0/8"), ("ipv4-addr", "1.2.3.4/ 8", "1.0.0.0/8"),
                 ("ipv4-addr", "1.2.3.4/1_6", "1.2.0.0/16"), ("ipv4-addr", "1.2.3.4/\u0668", "1.0.0.0/8"), ("ipv4-addr", "\u0661.2.3.4", "1.2.3.4"),
                 ("ipv4-addr", "1.2.3.4\n", "1.2.3.4"), ("ipv4-addr", " 1.2.3.4", "1.2.3.4"), ("ipv4-addr", "1.2.3.4/8 ", "1.0.0.0/8"),
                 ("ipv6-addr", "::1/+128", "::1"), ("ipv6-addr", "::1/ 8", "::/8"), ("ipv6-addr", "2001:db8::1/1_6", "2001::/16"),
                 ("ipv6-addr", "::1/\u0668", "::/8"), ("ipv6-addr", "::1 ", "::1"),
                 # a NUL inside the text: the platform's address functions raise ValueError (not OSError) for it
                 ("ipv6-addr", "::1\u0000", "::1"), ("ipv6-addr", "2001:db8::\u00001", "2001:db8::1"), ("ipv6-addr", "::1\u0000/64", "::/64"),
                 ("ipv4-addr", "1.2.3.4\u0000", "1.2.3.4"), ("ipv4-addr", "1.2.3.4\u0000/8", "1.0.0.0/8")]
# constants of other kinds on the specially canonicalised paths: their text is not the compared value
OTHER_KINDS = [("windows-registry-key", (("k", "key"),), ("bin", "QUJD"), ("bin", "qujd")), ("windows-registry-key", (("k", "key"),), ("hex", "ab"), ("hex", "cd")),
               ("ipv4-addr", (("k", "value"),), ("hex", "1234"), ("hex", "1234")), ("ipv4-addr", (("k", "value"),), ("bin", "MTIzNA=="), ("bin", "MTIzNA==")),
               ("ipv4-addr", (("k", "value"),), ("bin", "MS4yLjMuNA=="), ("str", "1.2.3.4")), ("ipv6-addr", (("k", "value"),), ("hex", "1234"), ("hex", "1234")),
               ("ipv4-addr", (("k", "value"),), ("int", 16909060), ("str", "1.2.3.4")), ("windows-registry-key", (("k", "values"), ("i", 0), ("k", "name")), ("bin", "QUJD"), ("bin", "qujd"))]


def wl_specials(ctx, rng, i):
    """Soundness on the specially canonicalised paths, for the operators whose meaning is plain string comparison / pattern
    matching: a respelled operand (another spelling of the same address, another letter case) is a different operand there."""
    fam = ["v4", "v6", "key", "not-a-spelling", "other-kind"][i % 5]
    if fam in ("not-a-spelling", "other-kind"):
        if fam == "not-a-spelling":
            t, c1, c2 = NOT_SPELLINGS[(i // 5) % len(NOT_SPELLINGS)]
            path, k1, k2 = (t, (("k", "value"),)), ("str", c1), ("str", c2)
        else:
            t, steps, k1, k2 = OTHER_KINDS[(i // 5) % len(OTHER_KINDS)]
            path = (t, steps)
        op = rng.choice(["=", "=", "!="])
        same_operand = k1 == k2
        a, b = ("cmp", path, op, False, k1), ("cmp", path, op, False, k2)
        if fam == "other-kind" and rng.random() < 0.7:
            # history: the same texts were met as STRING constants on the same path earlier in the process (where they are indeed
            # respellings of one another); what the library worked out for those must not be reused for constants of another kind
            for kk in (k1, k2):
                if isinstance(kk[1], str):
                    try:
                        tw = prepare(rng, ("obs", ("cmp", path, op, False, ("str", kk[1]))))
                        if tw:
                            eq(tw, tw)
                            ctx.count("special_texts_met_as_strings_first")
                    except Exception:
                        pass
        ptxt, qtxt = prepare(rng, ("obs", a)), prepare(rng, ("obs", b))
        if not ptxt or not qtxt:
            ctx.skip("generator error")
            return
        ctx.count("special_pairs")
        ctx.see("special families", "%s:%s" % (fam, op))
        ctx.nontrivial("special", fam, op, repr(k1), repr(k2))
        ans = lib_eq(ctx, ptxt, qtxt, [("obs", a), ("obs", b)], "special: " + fam)
        ctx.ev()
        if ans is None:
            return            # (lib_eq has reported the failure)
        if same_operand and not ans:
            ctx.violation("not-reflexive", "a pattern with a %s constant on %s is not equivalent to itself" % (k1[0], t), {"pattern": ptxt})
        elif not same_operand and ans:
            ctx.violation("unsound:special-respelling:" + ("not-an-address-spelling" if fam == "not-a-spelling" else "constant-of-another-kind"),
                          "%s and %s are reported equivalent: the operands are different values" % (ptxt, qtxt), {"pattern1": ptxt, "pattern2": qtxt})
        else:
            ctx.count("special_pairs_kept_apart" if not same_operand else "special_true_answers_confirmed")
        return
    if fam == "v4":
        path, (c1, c2) = ("ipv4-addr", (("k", "value"),)), rng.choice(RESPELL4)
        op = rng.choice(["MATCHES", "LIKE", "<", ">", "<=", ">="])
    elif fam == "v6":
        path, (c1, c2) = ("ipv6-addr", (("k", "value"),)), rng.choice(RESPELL6)
        op = rng.choice(["MATCHES", "LIKE", "<", ">", "<=", ">="])
    else:
        path = ("windows-registry-key", rng.choice([(("k", "key"),), (("k", "values"), ("i", rng.choice([0, "*"])), ("k", "name"))]))
        c1, c2 = rng.choice(RESPELLK)
        op = "MATCHES"       # letter case of keys is the library's documented reading for =, LIKE and ordering; a regular expression is not a key
    if rng.random() < 0.5:
        c1, c2 = c2, c1
    neg = rng.random() < 0.2
    a = ("cmp", path, op, neg, ("str", c1))
    b = ("cmp", path, op, neg, ("str", c2))
    ctxt = rng.choice(["bare", "and", "or", "obs-and"])
    other = ("cmp", (path[0], (("k", "x_other"),)), "=", False, ("int", rng.randrange(5)))
    wrap = {"bare": lambda x: ("obs", x), "and": lambda x: ("obs", ("and", [x, other])), "or": lambda x: ("obs", ("or", [other, x])),
            "obs-and": lambda x: ("oand", [("obs", x), simple_obs(rng, 0)])}[ctxt]
    fixed_rng_state = rng.getstate()
    p = wrap(a)
    rng.setstate(fixed_rng_state)
    q = wrap(b)
    ptxt, qtxt = prepare(rng, p), prepare(rng, q)
    if not ptxt or not qtxt:
        ctx.skip("generator error")
        return
    ans = lib_eq(ctx, ptxt, qtxt, [p, q], "special respelling")
    ctx.count("special_pairs")
    ctx.see("special families", "%s:%s" % (fam, op))
    ctx.nontrivial("special", fam, op, c1, c2, ctxt, neg)
    if ans:
        verdict, detail = audit(ctx, p, q, ptxt, qtxt, rng, "special-respelling")
        ctx.ev()
        if verdict == "separated":
            ctx.violation("unsound:special-respelling:%s" % ("regular-expression" if op == "MATCHES" else "like" if op == "LIKE" else "ordering"),
                          "operands %r and %r of %s on %s are treated as the same, but they match different values" % (c1, c2, op, path[0]),
                          dict({"pattern1": ptxt, "pattern2": qtxt}, **detail))
        elif verdict == "same":
            ctx.count("special_true_answers_confirmed")
    else:
        ctx.count("special_pairs_kept_apart")


def relation_pool(rng):
    """Pattern texts that share literals: address families with and without prefixes, registry-key spellings, plain values."""
    h4 = "%d.%d.%d.%d" % (rng.randrange(1, 223), rng.randrange(256), rng.randrange(256), rng.randrange(1, 255))
    import ipaddress
    n24 = str(ipaddress.ip_network(h4 + "/24", strict=False))
    n8 = str(ipaddress.ip_network(h4 + "/8", strict=False))
    o4 = str(ipaddress.ip_address(int(ipaddress.ip_address(h4)) ^ 1))
    pl4 = rng.choice([25, 26, 27, 28, 29, 30, 31, 1, 7, 9, 15, 17, 23])          # prefixes that end inside a byte, incl. the last one
    npl4 = str(ipaddress.ip_network("%s/%d" % (h4, pl4), strict=False))
    fam4 = [h4, h4 + "/32", h4 + "/24", n24, h4 + "/8", n8, o4, o4 + "/24", "%s/%d" % (h4, pl4), npl4, "%s/%d" % (o4, pl4)]
    hi = rng.getrandbits(48)
    h6 = str(ipaddress.ip_address((0x20010db8 << 96) | (hi << 32) | (rng.randrange(1, 65535) << 16) | rng.randrange(1, 65535)))
    n112 = str(ipaddress.ip_network(h6 + "/112", strict=False))
    n32 = str(ipaddress.ip_network(h6 + "/32", strict=False))
    o6 = str(ipaddress.ip_address(int(ipaddress.ip_address(h6)) ^ 3))
    pl6 = rng.choice([121, 122, 124, 126, 127, 1, 7, 33, 63, 65, 113, 119])
    npl6 = str(ipaddress.ip_network("%s/%d" % (h6, pl6), strict=False))
    fam6 = [h6, h6 + "/128", h6 + "/112", n112, h6 + "/32", n32, o6, o6 + "/112", h6 + "/64", "%s/%d" % (h6, pl6), npl6, "%s/%d" % (o6, pl6)]
    key = rng.choice(["HKEY_LOCAL_MACHINE\\\\Software\\\\Foo", "HKEY_CURRENT_USER\\\\Bar"])
    famk = [key, key.lower(), key.upper(), key + "x"]
    pool = []
    which = rng.choice(["v4", "v6", "v6", "key", "mixed"])
    if which in ("v4", "mixed"):
        pool += ["[ipv4-addr:value = '%s']" % x for x in rng.sample(fam4, 7)]
    if which in ("v6", "mixed"):
        pool += ["[ipv6-addr:value = '%s']" % x for x in rng.sample(fam6, 8)]
    if which in ("key", "mixed"):
        pool += ["[windows-registry-key:key = '%s']" % x for x in famk]
    if which == "v6" and rng.random() < 0.5:
        pool += ["[ipv6-addr:value != '%s']" % h6, "[ipv6-addr:value IN ('%s', '%s')]" % (h6, o6), "[ipv6-addr:value = '%s' OR ipv6-addr:value = '%s']" % (n112, h6)]
    if which == "v4" and rng.random() < 0.5:
        pool += ["[ipv4-addr:value != '%s']" % h4, "[ipv4-addr:value = '%s' OR ipv4-addr:value = '%s']" % (n24, h4), "[network-traffic:src_ref.value = '%s']" % h4]
    rng.shuffle(pool)
    return pool[:10], which


def wl_relation(ctx, rng, i):
    """The verdict is a function of the pair (asked again later, in another order, it is the same), and on a pool of patterns
    sharing literals it is reflexive, symmetric and transitive; find_equivalent_patterns agrees with the pairwise verdicts."""
    from stix2.equivalence.pattern import find_equivalent_patterns
    pool, which = relation_pool(rng)
    if any(validate_text(p, "2.1") for p in pool):
        ctx.skip("generator error")
        return
    n = len(pool)
    pairs = [(a, b) for a in range(n) for b in range(n)]
    rounds = []
    for rnd in range(3):
        order = list(pairs)
        rng.shuffle(order)
        m = {}
        for a, b in order:
            r = lib_eq(ctx, pool[a], pool[b], [], "relation pool")
            if r is None:
                return
            m[(a, b)] = r
        rounds.append(m)
        if rnd == 1:
            # a search in between is one more piece of history
            for a in rng.sample(range(n), 3):
                ctx.ev()
                try:
                    with warnings.catch_warnings():
                        warnings.simplefilter("ignore")
                        found = list(find_equivalent_patterns(pool[a], pool))
                except Exception as e:
                    ctx.violation("raised:%s@%s" % (type(e).__name__, where_raised(e)), "find_equivalent_patterns raised %s" % type(e).__name__, {"pattern": pool[a], "pool": pool})
                    return
                exp = [pool[b] for b in range(n) if m[(a, b)]]
                if sorted(found) != sorted(exp):
                    ctx.violation("find-disagrees-with-pairwise", "find_equivalent_patterns returns other members than the pairwise verdicts give",
                                  {"pattern": pool[a], "pool": pool, "found": found, "pairwise": exp})
    case = {"pool": pool, "family": which}
    m0 = rounds[0]
    for rnd, m in enumerate(rounds[1:], 1):
        diff = [k for k in pairs if m[k] != m0[k]]
        if diff:
            a, b = diff[0]
            ctx.violation("verdict-depends-on-history", "equivalent_patterns answered %s for a pair and %s for the same pair later in the same process" % (m0[(a, b)], m[(a, b)]),
                          dict(case, pattern1=pool[a], pattern2=pool[b], first_answer=m0[(a, b)], later_answer=m[(a, b)], round=rnd))
            return
    for a in range(n):
        if not m0[(a, a)]:
            ctx.violation("not-reflexive", "a pattern is not equivalent to itself", dict(case, pattern=pool[a]))
        for b in range(n):
            if m0[(a, b)] != m0[(b, a)]:
                ctx.violation("not-symmetric", "equivalent_patterns(p, q) != equivalent_patterns(q, p)", dict(case, pattern1=pool[a], pattern2=pool[b]))
                return
            for c in range(n):
                if m0[(a, b)] and m0[(b, c)] and not m0[(a, c)]:
                    ctx.violation("not-transitive", "p~q and q~r but not p~r", dict(case, p=pool[a], q=pool[b], r=pool[c]))
                    return
    ctx.count("relation_pools")
    ctx.count("relation_true_verdicts", sum(1 for k in pairs if m0[k] and k[0] != k[1]))
    ctx.see("relation families", which)
    ctx.nontrivial("relation", which, tuple(sorted(pool)))


# pure by their documentation: a sample of the calls is repeated in a fresh interpreter, in reverse order (stixmon/echo.py)
ECHO = ['stix2.equivalence.pattern:equivalent_patterns']
WORKLOADS = [
    Workload("relation", wl_relation, quick=40, thorough=2000),
    Workload("specials", wl_specials, quick=150, thorough=6000),
    Workload("rewrites", wl_rewrites, quick=350, thorough=40000),
    Workload("totality", wl_totality, quick=500, thorough=60000),
]


def floors(m, tier):
    c = m["counters"]
    out = []
    if c.get("pairs", 0) < 800:
        out.append("fewer than 800 rewrite pairs (%d)" % c.get("pairs", 0))
    if c.get("true_answers_confirmed", 0) < 200:
        out.append("fewer than 200 True answers audited to the end (%d)" % c.get("true_answers_confirmed", 0))
    if c.get("universes_evaluated", 0) < 1000:
        out.append("fewer than 1000 universes evaluated")
    if c.get("totality_pairs", 0) < 300:
        out.append("fewer than 300 totality pairs")
    if c.get("relation_pools", 0) < 20 or c.get("relation_true_verdicts", 0) < 20:
        out.append("fewer than 20 literal-sharing pools judged as a relation, or fewer than 20 True verdicts among them")
    if c.get("special_pairs", 0) < 100:
        out.append("fewer than 100 respelled special-path pairs")
    if c.get("triples", 0) < 20:
        out.append("fewer than 20 transitivity triples")
    kinds = m["seen"].get("rewrite kinds", set())
    miss = [k for k in RIGHT + WRONG if k not in kinds]
    if miss:
        out.append("rewrite kinds never applied: %s" % ", ".join(miss))
    return out[:6]


MANIFEST = {
    "text": ("Every call of equivalent_patterns on generated pairs is observed for totality and for the relation laws; every True "
             "answer is audited by an independent evaluator of the patterning semantics that compares the match sets of the two "
             "patterns over several bounded universes (all subsets of a 7-observation pool built from the patterns' own constants), and "
             "pairs produced by the documented rewrites must be recognised.  Tempting-but-wrong rewrites supply the pairs on which an "
             "unsound normalisation step would answer True.  Exploration; bounded universes cannot prove equivalence, only refute it. Echo monitor: a sample of the equivalence calls is repeated in a fresh interpreter in reverse order and must answer alike."),
    "note": "trusts stixmon/oracles/pattern_eval.py (validated against the repository's own equivalent/non-equivalent pairs in selftest) and the third-party validator",
    "technique": "runtime monitoring: semantic evaluation oracle over bounded universes on every positive equivalence answer; law checks on recorded answers; echo monitor (pure calls repeated in a fresh interpreter)",
}
