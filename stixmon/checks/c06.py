"""C06 -- STIX 2.1 observable identifiers are deterministic and specification-exact.

Events: constructor / parse of a 2.1 SCO without id -> obj.id.
Oracle: type + "--" + uuid5(STIX namespace, RFC 8785 JSON of the contributing properties present), recomputed with
stixmon.oracles.jcs and the integer timestamp formatter; metamorphic clauses (argument order, dictionary order,
non-contributing changes, round trip, fresh interpreters with other hash seeds); injectivity.
"""
import json
import os
import random
import subprocess
import sys
import uuid
import warnings

from ..ctx import Workload
from ..gen import custom as gcustom
from ..gen import values as V
from ..gen.objects import ObjGen
from ..gen import prime
from ..oracles import jcs, validator
from ..oracles import ts as tsor
from ..spec import model as M
from .. import HOME, REPO

ID = "C06"
LEVEL = "exploration"
SHARDS = {"quick": 4, "thorough": 16}
RULE = ("every 2.1 observable type plus harness-registered custom observables (with and without contributing properties), "
        "generated with hostile strings (JSON escapes, astral characters), boundary integers, floats, timestamps, nested "
        "extensions, embedded value lists and reference lists; each id recomputed independently and re-derived under shuffled "
        "argument order, shuffled dictionary order, changed non-contributing properties, serialise->parse, and in fresh "
        "interpreters with different PYTHONHASHSEED.  Non-trivial: at least one contributing property present; "
        "distinct = distinct (type, canonical contributing JSON)")
ASSUMPTIONS = [
    "STIX namespace 00abedb4-aa42-466c-9c01-fed23315a9b7; hash priority MD5 > SHA-1 > SHA-256 > SHA-512 > first listed (from the property statement)",
    "contributing values enter the hash in their serialised JSON form (timestamps as canonical text at the property's precision)",
    "'else first' is order dependent by the statement itself, so dictionary-order independence is only demanded when a priority algorithm or a single entry is present",
]
NS = uuid.UUID("00abedb4-aa42-466c-9c01-fed23315a9b7")
PRIORITY = ["MD5", "SHA-1", "SHA-256", "SHA-512"]

m21 = M.model("2.1")
SCO_TYPES = m21.types_of_class("SCO")
CUSTOM_CONTRIB = {"x-stixmon-sensor": ["address", "port", "ratio", "seen"], "x-stixmon-anon": [], "x-stixmon-probe": ["address", "extensions"]}
PROBE_EXT = "extension-definition--5b3b0b3c-0a4e-4f0f-9c57-0d7f7a1b2c02"
UNREG_EXT = "extension-definition--5b3b0b3c-0a4e-4f0f-9c57-0d7f7a1b2cfe"
# member names whose order differs between code points and UTF-16 code units (RFC 8785 sorts by the latter), and other hostile ones
HOSTILE_NAMES = ["\U0001f600", "\ue000", "\uffff", "\U00010000", "\ufb33", "\u20ac", "\u00f6", "\r", "1", "\u0080", "a\U0001f600", "a\uffff", "A", "a", "", "10", "9", "\U0010ffff"]
CUSTOM_TS = {"x-stixmon-sensor": {"seen": {"k": "ts", "precision": "any", "constraint": "exact"}}}


def contrib_list(t):
    if t in CUSTOM_CONTRIB:
        return CUSTOM_CONTRIB[t]
    return m21.types[t].get("id_contrib", [])


def norm_value(kind, v):
    """Serialised JSON form of an input value (timestamps canonicalised by the integer codec, recursively)."""
    if kind is None:
        return v
    k = kind["k"]
    if k == "ts" and isinstance(v, str):
        return tsor.format_us(tsor.text_us(v), kind["precision"], kind["constraint"])
    if k == "list" and isinstance(v, list):
        return [norm_value(kind["of"], x) for x in v]
    if k == "embedded" and isinstance(v, dict):
        by = m21.embedded[kind["type"]]["by_name"]
        return {n: norm_value(by.get(n), x) for n, x in v.items()}
    if k == "extensions" and isinstance(v, dict):
        out = {}
        for key, ext in v.items():
            if key in m21.extensions and isinstance(ext, dict):
                by = m21.extensions[key]["by_name"]
                out[key] = {n: norm_value(by.get(n), x) for n, x in ext.items()}
            elif key == "x-stixmon-ext" and isinstance(ext, dict):
                out[key] = {n: (norm_value({"k": "ts", "precision": "any", "constraint": "exact"}, x) if n == "seen_at" else x) for n, x in ext.items()}
            else:
                out[key] = ext
        return out
    return v


def expected_id(o):
    t = o["type"]
    if t == "x-stixmon-probe":
        # a type declared with extension_name=: the extension which declares it is part of every object of the type, given or not
        o = dict(o, extensions=dict(o.get("extensions", {})))
        o["extensions"].setdefault(PROBE_EXT, {"extension_type": "new-sco"})
    by = m21.types[t]["by_name"] if t in m21.types else CUSTOM_TS.get(t, {})
    data = {}
    for p in contrib_list(t):
        if p in o:
            if p == "hashes":
                h = o[p]
                # "... else first": first by algorithm name -- the statement promises independence from dictionary order
                chosen = next((a for a in PRIORITY if a in h), None) or min(h)
                data[p] = {chosen: h[chosen]}
            else:
                data[p] = norm_value(by.get(p), o[p])
    if not data:
        return None, None
    canon = jcs.canon(data)
    return "%s--%s" % (t, uuid.uuid5(NS, canon)), canon


def construct(o, route, rng=None):
    import stix2
    with warnings.catch_warnings():
        warnings.simplefilter("ignore")
        if route == "parse":
            return stix2.parse(json.dumps(o), allow_custom=True)
        if route == "parse-dict":
            return stix2.parse(dict(o), allow_custom=True)
        cls = stix2.registry.class_for_type(o["type"], "2.1", "observables")
        items = list(o.items())
        if rng is not None:
            rng.shuffle(items)
        return cls(allow_custom=True, **dict(items))


def setup(ctx):
    gcustom.ensure_registered()
    ctx.state["canon_to_id"] = {}
    ctx.state["id_to_canon"] = {}
    ctx.state["child_batch"] = []


def gen_sco(rng, t, i):
    g = ObjGen(rng, "2.1", hostile=True, ts_max_digits=6, huge_ints=(i % 3 == 0), allow_empty_str=(i % 5 == 0))
    if t == "x-stixmon-sensor":
        o = gcustom.sensor21(g, with_id=False)
    elif t == "x-stixmon-probe":
        o = gcustom.probe21(g)
    elif t == "x-stixmon-anon":
        o = {"type": t, "spec_version": "2.1"}
        if rng.random() < 0.7:
            o["label"] = V.string(rng)
    else:
        o = g.make(t, ["random", "max", "min"][i % 3], granular=False)
        if i % 4 == 0 and t == "file":
            o = gcustom.file_with_ext(g)
        o.pop("id", None)
        if t in ("file", "network-traffic") and i % 3 == 1:
            # an extension the library knows nothing about contributes as it is: hostile member names, nesting, numbers
            names = rng.sample(HOSTILE_NAMES, rng.randrange(2, 7))
            body = {"extension_type": "property-extension"}
            for n in names:
                body[n] = rng.choice([1, "v", [1, 2, "x"], {"\uffff": 1, "\U0001f600": 2, "b": [1.5, {"k": "v"}]}, 1.5, True, 10 ** 20, "2020-01-01T00:00:00Z"])
            o["extensions"] = dict(o.get("extensions", {}))
            o["extensions"][UNREG_EXT] = body
    return o, g


ALL_TYPES = SCO_TYPES + ["x-stixmon-sensor", "x-stixmon-anon", "x-stixmon-probe"]


def wl_ids(ctx, rng, i):
    t = ALL_TYPES[i % len(ALL_TYPES)]
    o, g = gen_sco(rng, t, i // len(ALL_TYPES))
    if t in m21.types and [x for x in validator.validate(dict(o, id=g.new_id(t)), "2.1") if x[0] != "integer-type-range"]:
        ctx.skip("generator error")
        return
    exp, canon = expected_id(o)
    ids = {}
    # history: the same instants were first seen by an observable whose contributing timestamp properties have other precisions
    # (millisecond, second); how an instant was written for one object's identifier says nothing about the next object's
    try:
        stamp_cls = gcustom.ensure_registered()[("2.1", "stamp")]
        tsvals = [v for v in prime.leaves(o, []) if prime.TS_RE.match(v)][:3]
        for v in tsvals:
            with warnings.catch_warnings():
                warnings.simplefilter("ignore")
                stamp_cls(stamped=v, stamped_s=v)
            ctx.count("instants_seen_first_at_other_precision")
    except Exception:
        pass
    for route in ("parse", "parse-dict", "constructor", "parse-id-null", "constructor-id-empty-list", "constructor-extensions-empty-list"):
        if route == "constructor-extensions-empty-list" and "extensions" in o:
            continue
        ctx.ev()
        try:
            # null and [] = not given
            obj = construct(dict(o, id=None), "parse", rng) if route == "parse-id-null" else construct(dict(o, id=[]), "constructor", rng) if route == "constructor-id-empty-list" \
                else construct(dict(o, extensions=[]), "constructor", rng) if route == "constructor-extensions-empty-list" else construct(o, route, rng)
        except Exception as e:
            ctx.skip("construction refused (%s) -- C03's subject" % type(e).__name__)
            return
        ids[route] = obj["id"]
    # Python-native presentation: datetimes in assorted offsets, nested library objects, scalars for one-element lists
    if t in m21.types:
        from ..gen import native
        ctx.ev()
        try:
            import stix2
            cls = stix2.registry.class_for_type(t, "2.1", "observables")
            kw = native.to_native("2.1", o, rng, foreign_meta=True)     # incl. the library's own timestamp objects with foreign metadata
            with warnings.catch_warnings():
                warnings.simplefilter("ignore")
                ids["constructor-native"] = cls(allow_custom=True, **kw)["id"]
            ctx.count("native_constructions")
        except Exception as e:
            ctx.skip("native construction refused (%s)" % type(e).__name__)
    if UNREG_EXT in o.get("extensions", {}):
        # the same values with tuples where JSON has arrays (they serialise alike)
        def tup(v):
            if isinstance(v, list):
                return tuple(tup(x) for x in v)
            if isinstance(v, dict):
                return {k: tup(x) for k, x in v.items()}
            return v
        ctx.ev()
        try:
            ot = dict(o, extensions=dict(o["extensions"]))
            ot["extensions"][UNREG_EXT] = tup(o["extensions"][UNREG_EXT])
            ids["constructor-tuples"] = construct(ot, "constructor", rng)["id"]
            ctx.count("unregistered_extension_contributions")
        except Exception as e:
            ctx.skip("tuple presentation refused (%s)" % type(e).__name__)
    if "hashes" in o and "hashes" in contrib_list(t) and i % 4 == 2:
        # two spellings of one algorithm with different values: refused, or at least not a matter of dictionary order
        a = next(iter(o["hashes"]))
        alias = {"MD5": "md5", "SHA-1": "SHA1", "SHA-256": "sha256", "SHA-512": "SHA512"}.get(a)
        if alias:
            other = ("0" if o["hashes"][a][0] != "0" else "1") + o["hashes"][a][1:]
            got2 = []
            for pair in ([(a, o["hashes"][a]), (alias, other)], [(alias, other), (a, o["hashes"][a])]):
                try:
                    got2.append(construct(dict(o, hashes=dict(pair)), "parse", rng)["id"])
                except Exception:
                    got2.append(None)
            ctx.ev()
            ctx.count("duplicate_algorithm_spellings")
            if got2[0] != got2[1]:
                ctx.violation("dictionary-order-changes-id:two-spellings-of-one-algorithm", "hashes with %s and %s: the id depends on their order (%s / %s)" % (a, alias, got2[0], got2[1]),
                              {"input": o, "spellings": [a, alias], "ids": got2})
    got = ids["parse"]
    ctx.see("types", t)
    if exp is not None:
        ctx.count("uuid5_checked")
        ctx.nontrivial(t, canon)
        ctx.see("types with contributing values", t)
        for route, gid in ids.items():
            if gid != exp:
                key = "id-not-specification-exact" + (":tuple-values" if route == "constructor-tuples" and ids.get("constructor") == exp else "") + (
                    ":type-declared-with-extension_name" if t == "x-stixmon-probe" and route not in ("constructor-id-empty-list", "constructor-extensions-empty-list") else "") + (
                    ":id-given-as-empty-list" if route == "constructor-id-empty-list" and ids.get("constructor") == exp else "") + (
                    ":extensions-given-as-empty-list" if route == "constructor-extensions-empty-list" and ids.get("constructor") == exp else "")
                if "hashes" in o and "hashes" in contrib_list(t):
                    # which hash would reproduce the library's id?
                    for a, hv in o["hashes"].items():
                        alt = dict(o)
                        alt["hashes"] = {a: hv}
                        if expected_id(alt)[0] == gid:
                            key = "hash-choice-differs"
                ctx.violation(key, "%s via %s: id %s, specification says %s" % (t, route, gid, exp),
                              {"input": o, "route": route, "got": gid, "expected": exp, "canonical_contributing_json": canon})
                return
        # injectivity / determinism bookkeeping within this worker
        c2i, i2c = ctx.state["canon_to_id"], ctx.state["id_to_canon"]
        if i2c.get(got, (t, canon)) != (t, canon):
            ctx.violation("id-collision", "two different contributing values share id %s" % got, {"a": i2c[got], "b": [t, canon]})
        i2c[got] = (t, canon)
        c2i[(t, canon)] = got
        # metamorphic: non-contributing change
        contrib = set(contrib_list(t))
        o2 = dict(o)
        changed = None
        for p in list(o2):
            if p not in contrib and p not in ("type", "spec_version") and isinstance(o2[p], (str, bool, int)) and not isinstance(o2[p], bool):
                pk = m21.types[t]["by_name"].get(p) if t in m21.types else None
                if pk is not None and pk["k"] in ("string", "int") and p not in validator_sensitive(t):
                    o2[p] = (o2[p] + "x") if isinstance(o2[p], str) else o2[p]
                    changed = p
                    break
        o2["defanged"] = not o.get("defanged", False)
        ctx.ev()
        try:
            g2 = construct(o2, "constructor", rng)["id"]
            if g2 != got:
                ctx.violation("non-contributing-property-changes-id", "changing %s/defanged changed the id" % changed,
                              {"input": o, "changed": [changed, "defanged"], "before": got, "after": g2})
        except Exception:
            ctx.skip("metamorphic variant refused")
        # metamorphic: dictionary order of hashes, also when none of the preferred algorithms is present
        if "hashes" in o and "hashes" in contrib:
            o3 = dict(o)
            items = list(o["hashes"].items())
            items.reverse()
            o3["hashes"] = dict(items)
            if rng.random() < 0.5:
                # only non-preferred algorithms, in two orders
                np_ = [("SHA3-256", "a" * 64), ("SSDEEP", "3:abc:def"), ("SHA3-512", "b" * 128)]
                rng.shuffle(np_)
                o3["hashes"] = dict(np_)
                o4 = dict(o3)
                o4["hashes"] = dict(reversed(np_))
                try:
                    ga, gb = construct(o3, "parse", rng)["id"], construct(o4, "constructor", rng)["id"]
                    ea = expected_id(o3)[0]
                    ctx.ev()
                    ctx.count("non_preferred_hash_orders")
                    if ga != gb or ga != ea:
                        ctx.violation("dictionary-order-changes-id" if ga != gb else "hash-choice-differs", "hashes without a preferred algorithm: ids %s / %s for the two orders, specification says %s" % (ga, gb, ea),
                                      {"input": o3, "ids": [ga, gb], "expected": ea})
                except Exception:
                    pass
                o3 = dict(o)
                o3["hashes"] = dict(items)
            ctx.ev()
            try:
                g3 = construct(o3, "parse", rng)["id"]
                ctx.count("hash_order_checked")
                if g3 != got:
                    ctx.violation("dictionary-order-changes-id", "reversing the hashes dictionary changed the id", {"input": o, "before": got, "after": g3})
            except Exception:
                pass
        # metamorphic: serialise -> parse keeps the id; re-deriving from the serialised content without id gives it again
        ctx.ev()
        try:
            obj = construct(o, "parse")
            text = obj.serialize()
            back = construct(json.loads(text), "parse")
            j = json.loads(text)
            j.pop("id")
            rederived = construct(j, "parse")["id"]
            if back["id"] != got or rederived != got:
                ctx.violation("round-trip-changes-id", "id not stable across serialise/parse", {"input": o, "id": got, "after_round_trip": back["id"], "rederived": rederived})
        except Exception as e:
            ctx.skip("round trip refused (%s)" % type(e).__name__)
        ctx.state["child_batch"].append((o, got))
        if ctx.want_sample():
            ctx.sample({"input": o, "library_id": got, "recomputed": exp, "canonical_contributing_json": canon})
    else:
        # no contributing property present: random UUIDv4, different each time
        ctx.count("uuid4_checked")
        ctx.see("types without contributing values", t)
        u = got.split("--", 1)[1]
        ctx.ev()
        try:
            ok = uuid.UUID(u).version == 4 and got.startswith(t + "--")
        except ValueError:
            ok = False
        if not ok:
            ctx.violation("fallback-not-uuid4", "%s without contributing properties got id %s" % (t, got), {"input": o, "id": got})
        if len(set(ids.values())) != len(ids):
            ctx.violation("fallback-not-random", "two constructions without contributing properties share an id", {"input": o, "ids": ids})
    # explicit ids are kept
    explicit = "%s--%s" % (t, V.uuid_text(rng, rng.choice([1, 4, 5])))
    o4 = dict(o, id=explicit)
    ctx.ev()
    try:
        if construct(o4, "constructor", rng)["id"] != explicit or construct(o4, "parse")["id"] != explicit:
            ctx.violation("explicit-id-not-kept", "an explicit id was replaced", {"input": o4})
    except Exception:
        ctx.skip("explicit id variant refused")


def validator_sensitive(t):
    return {"pattern", "relationship_type", "mime_type", "lang", "path_enc", "name_enc", "cpe", "key"}


def teardown(ctx):
    """Fresh interpreters with other hash seeds must derive the same ids."""
    batch = ctx.state.get("child_batch", [])
    if not batch:
        return
    n_children = 2 if ctx.tier == "quick" else 4
    batch = batch[:400] if ctx.tier == "quick" else batch[:3000]
    payload = "\n".join(json.dumps(o) for o, _ in batch) + "\n"
    for c in range(n_children):
        env = dict(os.environ)
        env["PYTHONHASHSEED"] = str(1000 + 7919 * c + ctx.shard)
        env["TZ"] = ["JST-9", "EST5EDT", "UTC0", "NST3:30NDT"][c % 4]        # ... and in other time zones
        env["PYTHONPATH"] = os.pathsep.join([REPO, HOME])
        env["PYTHONDONTWRITEBYTECODE"] = "1"
        try:
            r = subprocess.run([sys.executable, "-m", "stixmon.child_ids", str(c)], input=payload, capture_output=True, text=True,
                               timeout=600, env=env, cwd=HOME)
        except subprocess.TimeoutExpired:
            ctx.harness_error("child interpreter timed out")
            return
        lines = [l for l in r.stdout.splitlines() if l.startswith("{")]
        if len(lines) != len(batch):
            ctx.harness_error("child interpreter returned %d of %d lines: %s" % (len(lines), len(batch), r.stderr[-500:]))
            return
        ctx.count("child_interpreters")
        for (o, want), line in zip(batch, lines):
            got = json.loads(line)
            ctx.ev()
            ctx.count("cross_process_ids")
            for route in ("parse", "ctor", "ctor-naive"):
                if route in got and got[route] != want and not (route == "ctor-naive" and got[route].startswith("ERR")):
                    ctx.violation("id-differs-across-processes" + (":naive-datetime-read-in-local-zone" if route == "ctor-naive" and got["ctor"] == want else ""),
                                  "a fresh interpreter (PYTHONHASHSEED=%s, TZ=%s) derived %s via %s, this process %s" % (env["PYTHONHASHSEED"], env["TZ"], got[route], route, want),
                                  {"input": o, "this_process": want, "child": got, "hash_seed": env["PYTHONHASHSEED"], "TZ": env["TZ"]})
                    break
                if route == "ctor-naive" and route in got:
                    ctx.count("cross_process_naive_datetime_ids")


SWAPS = [("user-account", {}, ["user_id", "account_login", "account_type"]), ("software", {"name": "sw"}, ["vendor", "version", "cpe", "swid"]),
         ("email-message", {"is_multipart": False}, ["subject", "body"]), ("windows-registry-key", {}, ["key"]), ("x509-certificate", {}, ["serial_number"]),
         ("process", {"pid": 7}, ["command_line", "cwd"]), ("artifact", {"mime_type": "text/plain"}, ["payload_bin"])]
HUGE = [10 ** 400, 2 ** 1024, -(2 ** 1024), 2 ** 1023 * 2 + 1, 10 ** 309]


def wl_swaps(ctx, rng, i):
    """The identifier comes from the NAMES and values of the contributing properties present -- nothing else, and nothing of what the
    process computed before: equal values under different property names, one object after the other; and contributing numbers too
    large for a double (refused, or at least never answered with a random identifier)."""
    import stix2
    fam = (stix2.exceptions.STIXError, ValueError, TypeError)
    if i % 5 == 4:
        n = HUGE[(i // 5) % len(HUGE)]
        for t, o in (("autonomous-system", {"type": "autonomous-system", "spec_version": "2.1", "number": n}),
                     ("file", {"type": "file", "spec_version": "2.1", "name": "f", "extensions": {UNREG_EXT: {"extension_type": "property-extension", "big": n}}})):
            for route in ("constructor", "parse-dict"):
                ctx.ev()
                ctx.count("huge_contributing_numbers")
                try:
                    got = construct(o, route, rng)["id"]
                except fam:
                    ctx.count("huge_contributing_numbers_refused")
                    continue
                except Exception as e:
                    ctx.count("huge_contributing_numbers_refused")       # (which exception: C17's subject)
                    continue
                if uuid.UUID(got.split("--", 1)[1]).version != 5:
                    ctx.violation("random-id-although-contributing-values-present", "%s with a contributing number of %d digits via %s got %s: no UUIDv5 although contributing properties are present" % (
                        t, len(str(abs(n))), route, got), {"type": t, "digits": len(str(abs(n))), "route": route, "got": got})
        return
    t, base, names = SWAPS[i % len(SWAPS)]
    v = rng.choice(["admin", "svc", "1.0", "x", "AAAA", "0", "true"]) if t != "artifact" else "AAAA"
    w = v + "2" if t != "artifact" else "BBBB"
    variants = []
    for a in names:
        variants.append({a: v})
    if len(names) > 1:
        a, b = rng.sample(names, 2)
        variants += [{a: v, b: w}, {a: w, b: v}, {b: v}, {a: v}]
    rng.shuffle(variants)
    for kv in variants + variants[:2]:
        o = dict({"type": t, "spec_version": "2.1"}, **base)
        o.update(kv)
        exp, canon = expected_id(o)
        ctx.ev()
        try:
            got = construct(o, rng.choice(["constructor", "parse-dict", "parse"]), rng)["id"]
        except Exception as e:
            ctx.skip("swap variant refused (%s)" % type(e).__name__)
            continue
        ctx.count("name_swap_ids")
        ctx.nontrivial("swap", t, sorted(kv), v)
        if exp is not None and got != exp:
            ctx.violation("id-not-specification-exact:after-equal-values-under-other-names", "%s with %s: id %s, specification says %s (objects with the same values under other property names were made before it)" % (
                t, kv, got, exp), {"input": o, "got": got, "expected": exp, "canonical_contributing_json": canon, "made_before": [list(x) for x in variants]})
            return


WORKLOADS = [
    Workload("name-swaps-and-huge-numbers", wl_swaps, quick=140, thorough=7000),
    Workload("ids", wl_ids, quick=lambda: len(ALL_TYPES) * 40, thorough=lambda: len(ALL_TYPES) * 10000),
    __import__("stixmon.ambient", fromlist=["workload"]).workload("C06"),
]


def floors(m, tier):
    c = m["counters"]
    out = []
    if c.get("uuid5_checked", 0) < 400:
        out.append("fewer than 400 deterministic ids recomputed (%d)" % c.get("uuid5_checked", 0))
    if c.get("name_swap_ids", 0) < 100:
        out.append("fewer than 100 ids of objects with equal values under other property names checked")
    if c.get("uuid4_checked", 0) < 20:
        out.append("fallback (no contributing property) exercised fewer than 20 times")
    need = [t for t in ALL_TYPES if contrib_list(t)]
    miss = [t for t in need if t not in m["seen"].get("types with contributing values", set())]
    if miss:
        out.append("types whose deterministic id was never checked: %s" % ", ".join(miss))
    if c.get("cross_process_ids", 0) < 200:
        out.append("fewer than 200 ids compared across interpreter processes (%d)" % c.get("cross_process_ids", 0))
    if c.get("hash_order_checked", 0) < 20:
        out.append("hash dictionary order exercised fewer than 20 times")
    return out


MANIFEST = {
    "text": ("Every identifier the library derives for generated observables of all 20 types is recomputed by an independent "
             "RFC 8785 canonicaliser + uuid5 and compared, then re-derived under the orderings and perturbations the property "
             "lists, including fresh interpreter processes with different hash seeds; collisions between different contributing "
             "values are tracked over the run.  Exploration: ~10^3 (quick) to ~10^4+ (thorough) ids."),
    "note": "trusts stixmon/oracles/jcs.py and Python's uuid.uuid5; contributing-property lists come from the frozen model",
    "technique": "runtime monitoring: recomputation oracle + metamorphic relations on id-generation events, incl. cross-process",
}
