"""C20 -- confidence-scale conversions are total, monotone and round-trip.

The whole domain is the workload: every integer -60..160 through each value_to_* function
and every label (plus near-miss labels) through each *_to_value function.  The oracle is
the frozen copy of the five tables of STIX 2.1 Appendix A below; nothing is read from the
library except the functions under observation.
"""
from ..ctx import Workload

ID = "C20"
LEVEL = "exploration"
EXHAUSTIVE = True
SHARDS = {"quick": 1, "thorough": 1}
RULE = ("complete enumeration: (scale, value) for every integer -60..160 and (scale, label) for every "
        "table label and generated near-miss label; a case is non-trivial when the value lies in 0..100 "
        "or the label is a table label or differs from one by a single edit; distinct = distinct (function, input)")
ASSUMPTIONS = [
    "the five range tables were transcribed by hand from STIX 2.1 Appendix A and frozen in this file",
    "refusal means raising ValueError, as each function documents",
]

# (function names, ordered rows (label, lo, hi, representative value or None))
TABLES = {
    "none_low_med_high": ("value_to_none_low_medium_high", "none_low_med_high_to_value", [
        ("None", 0, 0, 0), ("Low", 1, 29, 15), ("Med", 30, 69, 50), ("High", 70, 100, 85)]),
    "zero_ten": ("value_to_zero_ten", "zero_ten_to_value", [
        ("0", 0, 4, 0), ("1", 5, 14, 10), ("2", 15, 24, 20), ("3", 25, 34, 30), ("4", 35, 44, 40),
        ("5", 45, 54, 50), ("6", 55, 64, 60), ("7", 65, 74, 70), ("8", 75, 84, 80), ("9", 85, 94, 90),
        ("10", 95, 100, 100)]),
    "admiralty_credibility": ("value_to_admiralty_credibility", "admiralty_credibility_to_value", [
        ("5 - Improbable", 0, 19, 10), ("4 - Doubtful", 20, 39, 30), ("3 - Possibly True", 40, 59, 50),
        ("2 - Probably True", 60, 79, 70), ("1 - Confirmed by other sources", 80, 100, 90)]),
    "wep": ("value_to_wep", "wep_to_value", [
        ("Impossible", 0, 0, 0), ("Highly Unlikely/Almost Certainly Not", 1, 19, 10),
        ("Unlikely/Probably Not", 20, 39, 30), ("Even Chance", 40, 59, 50), ("Likely/Probable", 60, 79, 70),
        ("Highly likely/Almost Certain", 80, 99, 90), ("Certain", 100, 100, 100)]),
    "dni": ("value_to_dni", "dni_to_value", [
        ("Almost No Chance / Remote", 0, 9, 5), ("Very Unlikely / Highly Improbable", 10, 19, 15),
        ("Unlikely / Improbable", 20, 39, 30), ("Roughly Even Chance / Roughly Even Odds", 40, 59, 50),
        ("Likely / Probable", 60, 79, 70), ("Very Likely / Highly Probable", 80, 89, 85),
        ("Almost Certain / Nearly Certain", 90, 100, 95)]),
}
# labels the tables list without a value: must be refused
NO_VALUE_LABELS = {"admiralty_credibility": ["6 - Truth cannot be judged"],
                   "none_low_med_high": ["Not Specified"]}

LO, HI = -60, 160


def near_misses(label):
    out = {label.lower(), label.upper(), label + " ", " " + label, label + "\n", label[:-1], label[1:],
           label.replace(" ", ""), label.replace(" ", "  "), label.swapcase(), "", label + label}
    for i in range(len(label)):
        out.add(label[:i] + label[i + 1:])
        out.add(label[:i] + ("x" if label[i] != "x" else "y") + label[i + 1:])
    out.discard(label)
    return sorted(out)


import decimal      # noqa: E402
import fractions    # noqa: E402
OUTSIDE_FRACTIONS = [-0.5, -0.01, -0.999, -1e-9, 100.01, 100.5, 100.999, 100.0000001, decimal.Decimal("100.9"), decimal.Decimal("-0.1"), fractions.Fraction(201, 2),
                     fractions.Fraction(-1, 3), -1.5, 101.5, 1e300, -1e300]


def build_cases():
    cases = []
    for scale, (v2l, l2v, rows) in sorted(TABLES.items()):
        labels = [r[0] for r in rows]
        for v in range(LO, HI + 1):
            cases.append((scale, "v2l", v))
        for lab in labels:
            cases.append((scale, "l2v", lab))
        # numbers outside 0-100 which are not integers: just beyond either end (where cutting the fraction off would bring them inside)
        for k in range(len(OUTSIDE_FRACTIONS)):
            cases.append((scale, "v2l-outside-fraction", k))
        miss = set()
        for lab in labels:
            miss.update(near_misses(lab))
        for other, (_, _, orows) in TABLES.items():
            if other != scale:
                miss.update(r[0] for r in orows)
        miss.update(NO_VALUE_LABELS.get(scale, []))
        miss.difference_update(labels)
        for lab in sorted(miss):
            cases.append((scale, "miss", lab))
        cases.append((scale, "mono", None))
        # the answer for a value does not depend on what was converted before it
        for order in ("warm-then-out-of-range", "descending", "shuffled"):
            cases.append((scale, "history", order))
    return cases


CASES = build_cases()


def expected_label(rows, v):
    for lab, lo, hi, _ in rows:
        if lo <= v <= hi:
            return lab
    return None


def call(fn, x):
    try:
        return ("ret", fn(x))
    except ValueError as e:
        return ("refused", "ValueError")
    except Exception as e:  # noqa
        return ("raised", type(e).__name__ + ": " + str(e)[:100])


def one(ctx, rng, i):
    from stix2.confidence import scales
    scale, kind, x = CASES[i]
    v2l_name, l2v_name, rows = TABLES[scale]
    v2l = getattr(scales, v2l_name, None)
    l2v = getattr(scales, l2v_name, None)
    if v2l is None or l2v is None:
        ctx.violation("function-missing", "public conversion function missing for scale %s" % scale,
                      {"scale": scale, "functions": [v2l_name, l2v_name]})
        return
    labels = [r[0] for r in rows]
    if kind == "v2l":
        got = call(v2l, x)
        exp = expected_label(rows, x)
        ctx.ev()
        ctx.see("value_to_label outcomes", "%s:%s" % (scale, got[1] if got[0] == "ret" else got[0]))
        if 0 <= x <= 100:
            ctx.nontrivial(scale, kind, x)
            if got != ("ret", exp):
                ctx.violation("value-to-label-table", "%s(%d) gave %r, Appendix A says %r" % (v2l_name, x, got, exp),
                              {"function": v2l_name, "input": x, "got": got, "expected": exp})
            elif ctx.want_sample() and x in (29, 30):
                ctx.sample({"function": v2l_name, "input": x, "returned": got[1], "table": exp})
        else:
            if got[0] != "refused":
                ctx.violation("out-of-range-not-refused", "%s(%d) gave %r; values outside 0-100 must be refused"
                              % (v2l_name, x, got), {"function": v2l_name, "input": x, "got": got})
    elif kind == "v2l-outside-fraction":
        xv = OUTSIDE_FRACTIONS[x]
        got = call(v2l, xv)
        ctx.ev()
        ctx.count("outside_fractions_probed")
        ctx.nontrivial(scale, kind, repr(xv))
        # (a refusal with another exception of the documented family is a refusal too: a Fraction is not what the function expects)
        if got[0] == "ret":
            ctx.violation("out-of-range-not-refused", "%s(%r) gave %r; values outside 0-100 must be refused" % (v2l_name, xv, got), {"function": v2l_name, "input": repr(xv), "got": got})
    elif kind == "l2v":
        got = call(l2v, x)
        exp = [r[3] for r in rows if r[0] == x][0]
        ctx.ev()
        ctx.nontrivial(scale, kind, x)
        if got != ("ret", exp):
            ctx.violation("label-to-value-table", "%s(%r) gave %r, Appendix A says %r" % (l2v_name, x, got, exp),
                          {"function": l2v_name, "input": x, "got": got, "expected": exp})
            return
        back = call(v2l, got[1])
        ctx.ev()
        if back != ("ret", x):
            ctx.violation("label-round-trip", "%s(%s(%r)) gave %r" % (v2l_name, l2v_name, x, back),
                          {"label": x, "value": got[1], "back": back})
        elif ctx.want_sample():
            ctx.sample({"label": x, "to_value": got[1], "back_to_label": back[1]})
    elif kind == "miss":
        got = call(l2v, x)
        ctx.ev()
        ctx.nontrivial(scale, kind, x)
        ctx.count("near_miss_labels")
        if got[0] != "refused":
            ctx.violation("unknown-label-not-refused", "%s(%r) gave %r; unknown labels must be refused"
                          % (l2v_name, x, got), {"function": l2v_name, "input": x, "got": got})
    elif kind == "history":
        span = list(range(-260, 361))
        if x == "warm-then-out-of-range":
            seq = list(range(0, 101)) + [v for v in span if v < 0 or v > 100] + list(range(0, 101))
        elif x == "descending":
            seq = span[::-1] + span
        else:
            seq = span + span
            rng.shuffle(seq)
        for lab in labels:            # the other direction too, interleaved history
            call(l2v, lab)
        for v in seq:
            got = call(v2l, v)
            ctx.ev()
            exp = expected_label(rows, v)
            if 0 <= v <= 100:
                if got != ("ret", exp):
                    ctx.violation("value-to-label-table", "%s(%d) gave %r after other conversions (%s), Appendix A says %r" % (v2l_name, v, got, x, exp),
                                  {"function": v2l_name, "input": v, "got": got, "expected": exp, "history": x})
                    break
            elif got[0] != "refused":
                ctx.violation("out-of-range-not-refused", "%s(%d) gave %r after other conversions (%s); values outside 0-100 must be refused" % (v2l_name, v, got, x),
                              {"function": v2l_name, "input": v, "got": got, "history": x})
                break
        ctx.nontrivial(scale, kind, x)
        ctx.count("history_sweeps")
    elif kind == "mono":
        # one direction only as the value grows, every label reached, in table order
        seq = []
        for v in range(0, 101):
            got = call(v2l, v)
            if got[0] != "ret" or got[1] not in labels:
                return  # already reported by the v2l case
            seq.append(labels.index(got[1]))
        ctx.ev()
        ctx.nontrivial(scale, kind)
        steps = [b - a for a, b in zip(seq, seq[1:])]
        if any(s < 0 for s in steps) and any(s > 0 for s in steps):
            ctx.violation("not-monotone", "labels of scale %s do not move in one direction" % scale,
                          {"scale": scale, "label_index_sequence": seq})
        if sorted(set(seq)) != list(range(len(labels))):
            ctx.violation("label-unreachable", "some label of scale %s is never produced" % scale,
                          {"scale": scale, "reached": sorted(set(seq))})
        ctx.see("monotone scales", scale)


# pure by their documentation: a sample of the calls is repeated in a fresh interpreter, in reverse order (stixmon/echo.py)
ECHO = ['stix2.confidence.scales:value_to_none_low_medium_high', 'stix2.confidence.scales:value_to_zero_ten', 'stix2.confidence.scales:value_to_wep', 'stix2.confidence.scales:value_to_dni_scale', 'stix2.confidence.scales:value_to_admiralty_credibility', 'stix2.confidence.scales:zero_ten_to_value', 'stix2.confidence.scales:wep_to_value', 'stix2.confidence.scales:none_low_med_high_to_value', 'stix2.confidence.scales:admiralty_credibility_to_value', 'stix2.confidence.scales:dni_to_value']
WORKLOADS = [Workload("domain", one, quick=lambda: len(CASES), thorough=lambda: len(CASES), exhaustive=True)]


def floors(m, tier):
    c = m["counters"]
    out = []
    if c.get("evaluations", 0) < len(CASES):
        out.append("only %d of %d domain points evaluated" % (c.get("evaluations", 0), len(CASES)))
    if len(m["seen"].get("monotone scales", ())) < 5:
        out.append("monotonicity was not judged for all five scales")
    return out

MANIFEST = {
    "text": ("Complete enumeration of the finite domain (every integer -60..160 and every label plus ~1200 near-miss "
             "labels, all five scales) against a frozen transcription of STIX 2.1 Appendix A; exhaustive for the "
             "stated property, so a moved boundary, a swapped label or an accepted out-of-range value cannot hide. Echo monitor: the conversions are repeated in a fresh interpreter in reverse order and must answer alike."),
    "note": "trusts the hand transcription of the Appendix A tables in stixmon/checks/c20.py",
    "technique": "runtime monitoring: exhaustive call/return oracle against frozen specification tables; echo monitor (pure calls repeated in a fresh interpreter)",
}
