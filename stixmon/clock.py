"""Clock control for versioning monitors: replaces get_timestamp at every binding in loaded stix2 modules
(the property text names stix2.versioning.get_timestamp as the substitution point) and counts consultations."""
import datetime as dt
import sys

from .oracles import ts as tsor

ORIGIN = dt.datetime(1, 1, 1)


class FakeClock:
    def __init__(self):
        self.now_us = None
        self.calls = 0
        self.installed = 0
        self._orig = []

    def install(self):
        import stix2.utils
        orig = stix2.utils.get_timestamp
        clock = self

        def fake_get_timestamp():
            clock.calls += 1
            if clock.now_us is None:
                return orig()
            import pytz
            naive = ORIGIN + dt.timedelta(microseconds=clock.now_us)
            return stix2.utils.STIXdatetime(pytz.utc.localize(naive))
        fake_get_timestamp.__wrapped__ = orig
        for name, mod in list(sys.modules.items()):
            if not name.startswith("stix2") or mod is None:
                continue
            for attr, val in list(vars(mod).items()):
                if val is orig:
                    self._orig.append((mod, attr, val))
                    setattr(mod, attr, fake_get_timestamp)
                    self.installed += 1
        return self.installed

    def uninstall(self):
        for mod, attr, val in self._orig:
            setattr(mod, attr, val)
        self._orig = []

    def set(self, us):
        self.now_us = us

    def set_text(self, text):
        self.now_us = tsor.text_us(text)
