"""Which lines of the library a workload actually drove: a passive sys.monitoring LINE monitor (each location reports once and
is then switched off, so the cost is a one-off per line), restricted to the library's non-test sources.  The figures go into
the evidence (coverage.library_reach): they show what the oracle was in a position to observe, and what it never saw."""
import os
import sys


class Reach:
    def __init__(self, repo):
        self.prefix = os.path.join(repo, "stix2") + os.sep
        self.hits = {}
        self.on = False

    def start(self):
        mon = getattr(sys, "monitoring", None)
        if mon is None:
            return False
        try:
            mon.use_tool_id(mon.COVERAGE_ID, "stixmon-reach")
        except ValueError:
            return False
        mon.register_callback(mon.COVERAGE_ID, mon.events.LINE, self._line)
        mon.set_events(mon.COVERAGE_ID, mon.events.LINE)
        self.on = True
        return True

    def _line(self, code, line):
        fn = code.co_filename
        if fn.startswith(self.prefix) and "/test/" not in fn:
            self.hits.setdefault(fn[len(self.prefix):], set()).add(line)
        return sys.monitoring.DISABLE

    def stop(self):
        if self.on:
            mon = sys.monitoring
            mon.set_events(mon.COVERAGE_ID, 0)
            mon.register_callback(mon.COVERAGE_ID, mon.events.LINE, None)
            mon.free_tool_id(mon.COVERAGE_ID)
            self.on = False

    def dump(self):
        return {f: sorted(ls) for f, ls in self.hits.items()}


def executable_lines(path):
    """line numbers that carry code in a source file (from the compiled code objects, incl. nested ones)"""
    with open(path, encoding="utf-8") as f:
        src = f.read()
    try:
        top = compile(src, path, "exec")
    except SyntaxError:
        return set()
    out, stack = set(), [top]
    while stack:
        co = stack.pop()
        for _, _, ln in co.co_lines():
            if ln is not None:
                out.add(ln)
        stack.extend(c for c in co.co_consts if hasattr(c, "co_lines"))
    return out


def summarize(repo, hits):
    """hits: {relative file: iterable of lines} -> evidence block"""
    files = {}
    tot_r = tot_e = 0
    for rel, ls in sorted(hits.items()):
        ex = executable_lines(os.path.join(repo, "stix2", rel))
        r = len(set(ls) & ex) if ex else len(set(ls))
        files[rel] = {"lines_reached": r, "lines_with_code": len(ex)}
        tot_r += r
        tot_e += len(ex)
    top = dict(sorted(files.items(), key=lambda kv: -kv[1]["lines_reached"])[:14])
    return {"files_entered": len(files), "lines_reached": tot_r, "lines_with_code_in_those_files": tot_e, "most_exercised_files": top,
            "how": "sys.monitoring LINE events in every worker, library sources without tests; each line counted once"}
