"""Runner: tiers, seeds, sharding over worker processes, watchdog, verdicts, evidence.

usage: python -m stixmon.run <ID> [--tier quick|thorough] [--replay PATH] [--shards N]

exit 0  held on everything explored (known findings are printed as KNOWN-FINDING lines)
exit 1  at least one violation not listed in known_findings.json (VIOLATION lines)
exit 3  inconclusive (a vacuity floor was missed, a worker died or timed out, harness error)
"""
import argparse
import importlib
import json
import os
import subprocess
import sys
import time

from . import HOME, REPO
from .ctx import Ctx, jdump

OUT = os.path.join(HOME, "out")
EVID = os.path.join(HOME, "evidence")
if os.path.realpath(REPO) != "/repo":
    # a trial against another tree (a scratch worktree with a seeded change, a pre-fix commit): its work files, replay files and
    # evidence go to a directory of their own, so that it neither collides with a run against /repo nor overwrites its evidence
    OUT = os.path.join(HOME, "out", "alt-" + os.path.realpath(REPO).strip("/").replace("/", "_"))
    EVID = os.path.join(OUT, "evidence")
    os.makedirs(EVID, exist_ok=True)


def load_check(pid):
    return importlib.import_module("stixmon.checks.%s" % pid.lower())


def load_known():
    path = os.path.join(HOME, "known_findings.json")
    try:
        with open(path) as f:
            data = json.load(f)
    except FileNotFoundError:
        return {}
    known = {}
    for e in data.get("findings", []):
        if e.get("status") == "known":
            known[(e["property"], e["key"])] = e
    return known


# ------------------------------------------------------------------------------- worker

def run_worker(args):
    from . import import_stix2
    import_stix2()
    mod = load_check(args.id)
    shard, nshards = (int(x) for x in args.worker.split("/"))
    ctx = Ctx(args.id, args.tier, args.seed, shard, nshards)
    t0 = time.time()
    from .reach import Reach
    reach = Reach(REPO)
    if os.environ.get("STIXMON_REACH", "1") != "0":
        reach.start()
    echo = None
    if getattr(mod, "ECHO", None) and os.environ.get("STIXMON_ECHO", "1") != "0":
        from . import echo
        echo.install(mod.ECHO)
    errmon = None
    if getattr(mod, "PRINTABLE_ERRORS", False):
        from .errmon import ErrorMonitor
        errmon = ErrorMonitor()
        errmon.install()
    try:
        if hasattr(mod, "setup"):
            mod.setup(ctx)
        for wl in mod.WORKLOADS:
            n = wl.size(args.tier)
            ctx.count("cases_planned:%s" % wl.name, 0)
            for i in range(shard, n, nshards):
                ctx.cur = (wl.name, i)
                try:
                    wl.fn(ctx, ctx.case_rng(wl.name, i), i)
                except Exception as e:  # a bug in the harness, or an unguarded library call
                    ctx.harness_error("case", e)
                if errmon is not None:
                    errmon.end_of_case(ctx)
                ctx.count("cases:%s" % wl.name)
            ctx.cur = None
        if hasattr(mod, "teardown"):
            mod.teardown(ctx)
    except Exception as e:
        ctx.harness_error("worker", e)
    reach.stop()
    d = ctx.dump()
    d["reach"] = reach.dump()
    if echo is not None:
        d["echo"] = echo.dump()
    d["wall_s"] = time.time() - t0
    tmp = args.out + ".tmp"
    with open(tmp, "w") as f:
        f.write(jdump(d))
    os.replace(tmp, args.out)
    return 0


# ------------------------------------------------------------------------------- replay

def run_replay(args):
    from . import import_stix2
    import_stix2()
    with open(args.replay) as f:
        rp = json.load(f)
    pid = rp["property"]
    mod = load_check(pid)
    ctx = Ctx(pid, rp.get("tier", "quick"), rp["seed"], replay=True)
    if hasattr(mod, "setup"):
        mod.setup(ctx)
    wl = {w.name: w for w in mod.WORKLOADS}[rp["workload"]]
    ctx.cur = (wl.name, rp["index"])
    wl.fn(ctx, ctx.case_rng(wl.name, rp["index"]), rp["index"])
    if hasattr(mod, "teardown"):
        mod.teardown(ctx)
    known = load_known()
    rc = 0
    for key, ws in ctx.violations.items():
        for w in ws:
            tag = "KNOWN-FINDING:" if (pid, key) in known else "VIOLATION"
            print("%s property=%s key=%s %s" % (tag, pid, key, w["message"]))
            print(jdump(w["witness"], indent=1)[:6000])
            if tag == "VIOLATION":
                rc = 1
    if not ctx.violations:
        print("replay: no violation reproduced for %s %s[%d] (seed %s)" % (pid, wl.name, rp["index"], rp["seed"]))
    return rc


# ------------------------------------------------------------------------------- parent

def merge(results):
    m = {"counters": {}, "seen": {}, "distinct": set(), "samples": [], "violations": {},
         "violation_counts": {}, "harness_errors": [], "skips": {}, "reach": {}}
    for r in results:
        for f, ls in r.get("reach", {}).items():
            m["reach"].setdefault(f, set()).update(ls)
        for k, v in r["counters"].items():
            m["counters"][k] = m["counters"].get(k, 0) + v
        for g, vals in r["seen"].items():
            m["seen"].setdefault(g, set()).update(vals)
        m["distinct"].update(r["distinct"])
        m["samples"].extend(r["samples"][:2])
        for k, ws in r["violations"].items():
            m["violations"].setdefault(k, []).extend(ws)
        for k, v in r["violation_counts"].items():
            m["violation_counts"][k] = m["violation_counts"].get(k, 0) + v
        m["harness_errors"].extend(r["harness_errors"])
        for k, v in r["skips"].items():
            m["skips"][k] = m["skips"].get(k, 0) + v
    return m


def validate_evidence(ev):
    try:
        import jsonschema
        with open("/root/.vp/EVIDENCE.schema.json") as f:
            schema = json.load(f)
        jsonschema.validate(ev, schema)
        return None
    except FileNotFoundError:
        return None
    except ImportError:
        return None
    except Exception as e:  # jsonschema.ValidationError
        return str(e)[:500]


def echo_pass(pid, args, results, m, inconclusive):
    """One fresh interpreter repeats, in reverse order, a sample of the pure calls the shards recorded; answers are compared."""
    recs = []
    per_shard = max(50, 1500 // max(1, len(results)))
    for r in results:
        recs.extend(r.get("echo", [])[:per_shard])
    m["counters"]["echo_calls_recorded"] = len(recs)
    if not recs:
        return
    fp = os.path.join(OUT, "work", "%s-%s-echo.json" % (pid, args.tier))
    with open(fp, "w") as f:
        json.dump(recs, f)
    try:
        p = subprocess.run([sys.executable, "-X", "faulthandler", "-m", "stixmon.echo", fp, pid, str(args.seed)], capture_output=True, text=True, cwd=HOME, timeout=600)
        answers = json.loads(p.stdout)
    except Exception as e:
        inconclusive.append("echo pass failed: %r" % (e,))
        return
    compared = differ = 0
    for (path, blob, first), second in zip(recs, answers):
        if second is None or second.startswith("unreplayable:"):
            continue
        compared += 1
        if first != second:
            differ += 1
            key = "answer-depends-on-process-history:" + path.split(":", 1)[1]
            try:
                import pickle
                shown = repr(pickle.loads(bytes.fromhex(blob)))[:600]
            except Exception:
                shown = "<arguments need the library to unpickle>"
            m["violation_counts"][key] = m["violation_counts"].get(key, 0) + 1
            if len(m["violations"].setdefault(key, [])) < 2:
                m["violations"][key].append({"key": key, "workload": "echo", "index": 0, "message": "%s answered %s inside the workload and %s for the same arguments in a fresh interpreter (calls repeated in reverse order)" % (
                    path, first[:110], second[:110]), "witness": {"function": path, "arguments": shown, "in_workload": first, "in_fresh_interpreter": second}})
    m["counters"]["echo_calls_compared"] = compared
    m["counters"]["echo_calls_differing"] = differ


def run_parent(args):
    t0 = time.time()
    mod = load_check(args.id)
    pid = args.id
    nshards = args.shards or mod.SHARDS.get(args.tier, 1)
    os.makedirs(os.path.join(OUT, "work"), exist_ok=True)
    os.makedirs(os.path.join(OUT, "replay"), exist_ok=True)
    os.makedirs(EVID, exist_ok=True)
    timeout = getattr(mod, "TIMEOUT", {}).get(args.tier, 1500 if args.tier == "quick" else 7200)

    procs = []
    for s in range(nshards):
        outp = os.path.join(OUT, "work", "%s-%s-%d.json" % (pid, args.tier, s))
        if os.path.exists(outp):
            os.remove(outp)
        cmd = [sys.executable, "-X", "faulthandler", "-m", "stixmon.run", pid, "--tier", args.tier,
               "--seed", str(args.seed), "--worker", "%d/%d" % (s, nshards), "--out", outp]
        logp = outp[:-5] + ".log"
        logf = open(logp, "w")
        procs.append((s, outp, logp, logf, subprocess.Popen(cmd, stdout=logf, stderr=subprocess.STDOUT, cwd=HOME)))

    inconclusive = []
    results = []
    deadline = t0 + timeout
    for s, outp, logp, logf, p in procs:
        try:
            p.wait(timeout=max(1, deadline - time.time()))
        except subprocess.TimeoutExpired:
            p.kill()
            p.wait()
            inconclusive.append("shard %d exceeded the %ds watchdog" % (s, timeout))
        logf.close()
        if os.path.exists(outp):
            with open(outp) as f:
                results.append(json.load(f))
        else:
            tail = ""
            try:
                with open(logp) as f:
                    tail = f.read()[-1500:]
            except Exception:
                pass
            inconclusive.append("shard %d produced no result (rc=%s): %s" % (s, p.returncode, tail))

    m = merge(results)
    known = load_known()
    if getattr(mod, "ECHO", None) and results:
        echo_pass(pid, args, results, m, inconclusive)

    # ---- violations
    unknown, known_hit = [], []
    for key in sorted(m["violations"]):
        (known_hit if (pid, key) in known else unknown).append(key)

    lines = []
    for key in known_hit:
        e = known[(pid, key)]
        lines.append("KNOWN-FINDING: property=%s key=%s %s (observed %d times)" % (
            pid, key, e.get("what", ""), m["violation_counts"].get(key, 0)))
    nrep = 0
    for key in unknown[:10]:
        w = m["violations"][key][0]
        path = os.path.join(OUT, "replay", "%s-%d.json" % (pid, nrep))
        nrep += 1
        with open(path, "w") as f:
            f.write(jdump({
                "property": pid, "seed": args.seed, "tier": args.tier, "workload": w["workload"],
                "index": w["index"], "key": key, "message": w["message"], "witness": w["witness"],
                "occurrences": m["violation_counts"].get(key, 0),
                "replay_cmd": "./vcheck %s --replay %s" % (pid, path),
            }, indent=1))
        lines.append("VIOLATION property=%s replay=%s key=%s %s" % (pid, path, key, w["message"][:300]))

    # ---- vacuity floors / harness health
    cov_counters = m["counters"]
    if m["harness_errors"]:
        he = m["harness_errors"][0]
        inconclusive.append("harness error in %s case %s: %s" % (
            he["where"], he["case"], (he["traceback"] or "").strip().splitlines()[-1:] or ""))
    if hasattr(mod, "floors") and results:
        try:
            for reason in mod.floors(m, args.tier) or []:
                inconclusive.append("floor: " + reason)
        except Exception as e:
            inconclusive.append("floors() failed: %r" % (e,))

    # ---- evidence
    evals = cov_counters.get("evaluations", 0)
    seen_summary = {}
    for g, vals in sorted(m["seen"].items()):
        vs = sorted(vals)
        seen_summary[g] = {"distinct": len(vs), "values": vs if len(vs) <= 60 else vs[:60] + ["..."]}
    cases = {k.split(":", 1)[1]: v for k, v in cov_counters.items() if k.startswith("cases:")}
    ev = {
        "property_id": pid,
        "tier": args.tier,
        "seed": args.seed,
        "level": getattr(mod, "LEVEL", "exploration"),
        "coverage": {
            "evaluations": evals,
            "distinct_nontrivial": len(m["distinct"]),
            "rule": getattr(mod, "RULE", ""),
            "samples": m["samples"][:5],
            "exhaustive": bool(getattr(mod, "EXHAUSTIVE", False)),
            "cases_per_workload": cases,
            "monitor_counters": {k: v for k, v in sorted(cov_counters.items())
                                 if not k.startswith("cases")},
            "observed": seen_summary,
            "skipped": m["skips"],
            "known_findings_hit": {k: m["violation_counts"].get(k, 0) for k in known_hit},
            "unknown_violation_keys": {k: m["violation_counts"].get(k, 0) for k in unknown},
            "inconclusive_reasons": inconclusive,
            "shards": nshards,
            "verdict": "violated" if unknown else ("inconclusive" if inconclusive else "held"),
        },
        "assumptions": list(getattr(mod, "ASSUMPTIONS", [])),
        "wall_s": round(time.time() - t0, 2),
        "violations": len(unknown),
    }
    if m["reach"]:
        try:
            from .reach import summarize
            ev["coverage"]["library_reach"] = summarize(REPO, m["reach"])
            with open(os.path.join(OUT, "work", "%s-%s-reach.json" % (pid, args.tier)), "w") as f:
                json.dump({k: sorted(v) for k, v in m["reach"].items()}, f)
        except Exception as e:
            ev["coverage"]["library_reach"] = {"error": repr(e)}
    if hasattr(mod, "extra_evidence"):
        try:
            ev["coverage"].update(mod.extra_evidence(m, args.tier) or {})
        except Exception:
            pass
    err = validate_evidence(ev)
    if err and not unknown:
        # evidence that would not validate means the run observed too little to count
        inconclusive.append("evidence does not validate: " + err)
        ev["coverage"]["inconclusive_reasons"] = inconclusive
        ev["coverage"]["verdict"] = "inconclusive"
    tmp = os.path.join(EVID, pid + ".json.tmp")
    with open(tmp, "w") as f:
        f.write(jdump(ev, indent=1))
    os.replace(tmp, os.path.join(EVID, pid + ".json"))

    for ln in lines:
        print(ln)
    summary = "%s tier=%s seed=%s shards=%d cases=%d evaluations=%d distinct=%d wall=%.1fs" % (
        pid, args.tier, args.seed, nshards, sum(cases.values()), evals, len(m["distinct"]), time.time() - t0)
    if unknown:
        print("RESULT violated: " + summary)
        return 1
    if inconclusive:
        for r in inconclusive:
            print("INCONCLUSIVE property=%s reason=%s" % (pid, str(r)[:600]))
        print("RESULT inconclusive: " + summary)
        return 3
    print("RESULT held: " + summary)
    return 0


def main(argv=None):
    ap = argparse.ArgumentParser()
    ap.add_argument("id")
    ap.add_argument("--tier", default=os.environ.get("VERIF_TIER") or "quick", choices=["quick", "thorough"])
    ap.add_argument("--seed", type=int, default=int(os.environ.get("VERIF_SEED") or 0))
    ap.add_argument("--shards", type=int, default=0)
    ap.add_argument("--worker")
    ap.add_argument("--out")
    ap.add_argument("--replay")
    args = ap.parse_args(argv)
    args.id = args.id.upper()
    if args.replay:
        return run_replay(args)
    if args.worker:
        return run_worker(args)
    return run_parent(args)


if __name__ == "__main__":
    sys.exit(main())
