"""Valid-object generator driven by the frozen specification model.

Everything it returns is plain JSON data (dict/list/str/int/float/bool) that is valid per the
STIX specification as far as the frozen model knows, so that it can be fed to parse(), turned
into constructor kwargs, corrupted, stored, versioned or marked by the checks.
"""
from ..oracles import paths as pathor
from ..oracles import ts as tsor
from ..spec import model as M
from . import values as V

PATTERNS = [
    "[file:name = 'foo.exe']",
    "[ipv4-addr:value = '198.51.100.1/32' OR ipv4-addr:value = '203.0.113.33/32']",
    "[file:hashes.'SHA-256' = 'aec070645fe53ee3b3763059376134f058cc337247c978add178b6ccdfb0019f']",
    "[network-traffic:dst_port > 1000 AND network-traffic:protocols[*] = 'tcp'] REPEATS 3 TIMES WITHIN 60 SECONDS",
    "[domain-name:value = 'example.com'] FOLLOWEDBY [url:value LIKE 'http://example.com/%']",
    "[process:command_line MATCHES '^.+>-add GlobalSign.cer -c -s -r localMachine Root$']",
    "[user-account:user_id != 'root' AND user-account:is_privileged = true]",
    "[email-message:subject = 'it\\'s a \\\\ test']",
    "([a:b = 1] OR [c:d = 2.5]) AND [e:f IN ('x', 'y')]",
    "[x509-certificate:validity_not_before > t'2016-01-01T00:00:00Z'] START t'2016-06-01T00:00:00Z' STOP t'2017-03-12T08:30:00Z'",
]
LANGS = ["en", "fr", "de", "en-US", "ja", "zh-Hans", "es-419"]
MIMES = ["text/plain", "application/octet-stream", "image/png", "application/pdf"]
SPECIAL_STRINGS = {
    "lang": LANGS, "mime_type": MIMES, "content_type": MIMES + ["multipart/mixed"], "country": ["US", "de", "FR", "jp"],
    "cpe": ["cpe:2.3:a:microsoft:word:2000:*:*:*:*:*:*:*", "cpe:2.3:o:linux:linux_kernel:5.4:*:*:*:*:*:*:*"],
    "swid": ["<SoftwareIdentity name=\"x\"/>", "swid-tag-1"], "pattern_version": ["2.1"],
    "path_enc": ["UTF-8", "windows-1252"], "name_enc": ["UTF-8", "SHIFT_JIS"],
    # MUST be ASCII a-z, 0-9 and hyphen
    "relationship_type": ["uses", "indicates", "related-to", "targets", "x-custom-rel", "a1-b2", "derived-from", "duplicate-of"],
}
SOCKET_OPTS = ["SO_REUSEADDR", "SO_KEEPALIVE", "IP_TTL", "TCP_NODELAY", "IPV6_V6ONLY", "ICMP_FILTER", "MCAST_JOIN_GROUP", "SO_ATTACH_FILTER"]


class ObjGen:
    def __init__(self, rng, version, hostile=True, ts_max_digits=9, allow_empty_str=False, huge_ints=False,
                 year_range=(1970, 2100), shuffle_keys=False, extensions=True, toplevel_ext=False, openvocab_custom=True):
        self.rng = rng
        self.version = version
        self.m = M.model(version)
        self.hostile = hostile
        self.ts_max_digits = ts_max_digits
        self.allow_empty_str = allow_empty_str
        self.huge_ints = huge_ints
        self.long_lists = False
        self.year_range = year_range
        self.shuffle_keys = shuffle_keys
        self.with_extensions = extensions
        self.toplevel_ext = toplevel_ext
        self.openvocab_custom = openvocab_custom

    # ------------------------------------------------------------------ primitives
    def new_id(self, type_name):
        return V.stix_id(self.rng, type_name, self.version)

    def ts_value(self, kind, us=None):
        if us is None:
            us = V.instant_us(self.rng, *self.year_range)
        text, _ = V.ts_text(self.rng, us, kind["precision"], kind["constraint"], self.ts_max_digits)
        return text

    def dict_value(self, name):
        rng = self.rng
        shape = M.DICT_SHAPES.get(name, "any")
        n = rng.randrange(1, 4)
        out = {}
        for _ in range(n):
            if shape == "socket-options":
                out[rng.choice(SOCKET_OPTS)] = rng.choice([0, 1, 64, 4096, 2 ** 31 - 1])
                continue
            if shape == "language-contents":
                out[rng.choice(LANGS)] = {rng.choice(["name", "description"]): V.string(rng, self.hostile)}
                continue
            klen = rng.choice([3, 4, 8, 20])
            alphabet = "abcdefghijklmnopqrstuvwxyz0123456789_-" + ("ABCXYZ" if rng.random() < 0.3 else "")
            key = "".join(rng.choice(alphabet) for _ in range(klen))
            if shape == "str":
                val = V.string(rng, self.hostile)
            elif shape == "str-or-strlist":
                val = V.string(rng, self.hostile) if rng.random() < 0.6 else [V.string(rng, self.hostile) for _ in range(rng.randrange(1, 3))]
            elif shape == "str-or-int":
                val = V.string(rng, self.hostile) if rng.random() < 0.5 else V.integer(rng, 0, 10 ** 6)
            else:
                val = rng.choice([V.string(rng, self.hostile), V.integer(rng, 0, 1000), True, False, 1.5,
                                  [V.string(rng, self.hostile)], {"nested_key": V.string(rng, self.hostile)}])
            out[key] = val
        return out

    def hashes_value(self, kind):
        rng = self.rng
        names = [n for n in kind["names"] if n.upper() not in ("MD6",)]
        k = rng.choice([1, 1, 2, 3])
        chosen = rng.sample(names, min(k, len(names)))
        return {n: V.hash_value(rng, n) for n in chosen}

    def ref_value(self, kind, exclude_id=None):
        targets = self.m.ref_targets(kind)
        return self.new_id(self.rng.choice(targets))

    def value(self, kind, name, depth=0):
        rng = self.rng
        k = kind["k"]
        if k == "fixed":
            return kind["value"]
        if k == "string":
            if name in SPECIAL_STRINGS:
                return rng.choice(SPECIAL_STRINGS[name])
            return V.string(rng, self.hostile, self.allow_empty_str)
        if k == "pattern":
            return rng.choice(PATTERNS)
        if k == "int":
            return V.integer(rng, kind.get("min"), kind.get("max"), self.huge_ints)
        if k == "float":
            return V.floating(rng, kind.get("min"), kind.get("max"))
        if k == "bool":
            return rng.random() < 0.5
        if k == "ts":
            return self.ts_value(kind)
        if k == "enum":
            return rng.choice(kind["values"])
        if k == "openvocab":
            if self.openvocab_custom and rng.random() < 0.1:
                return "x-" + V.string(rng, False).replace(" ", "-").lower()
            return rng.choice(kind["values"])
        if k == "hex":
            return V.hexstr(rng)
        if k == "binary":
            return V.b64(rng)
        if k == "hashes":
            return self.hashes_value(kind)
        if k == "dict":
            return self.dict_value(name)
        if k == "ref":
            return self.ref_value(kind)
        if k == "list":
            n = rng.choice([1, 1, 2, 3])
            vals = [self.value(kind["of"], name, depth + 1) for _ in range(n)]
            if n >= 2 and rng.random() < 0.15 and kind["of"]["k"] in ("string", "openvocab", "enum"):
                vals[-1] = vals[0]          # repeated element
            return vals
        if k == "embedded":
            return self.embedded(kind["type"], depth + 1)
        if k == "selector":
            return "type"
        raise KeyError("no generator for kind %s (%s)" % (k, name))

    # ------------------------------------------------------------------ presence
    def choose_optional(self, tbl, profile):
        rng = self.rng
        req = [p["name"] for p in tbl["props"] if p["required"] and not p.get("unmodelled")]
        opt = [p["name"] for p in tbl["props"] if not p["required"] and not p.get("unmodelled")
               and p["k"] not in ("fixed", "id") and p["name"] not in ("granular_markings", "extensions")]
        if profile == "min":
            chosen = []
        elif profile == "max":
            chosen = list(opt)
        elif isinstance(profile, (tuple, list)) and profile and profile[0] == "only":
            chosen = [n for n in profile[1] if n in opt]
        else:
            p = rng.choice([0.15, 0.5, 0.85])
            chosen = [n for n in opt if rng.random() < p]
        return req, opt, set(chosen)

    def repair(self, tbl, req, opt, chosen, type_name):
        rng = self.rng
        allp = set(req) | set(opt)
        for c in tbl["constraints"]:
            kind = c[0]
            if kind == "at_least_one":
                names = [n for n in c[1] if n in allp]
                if not (set(names) & (chosen | set(req))):
                    chosen.add(rng.choice(names))
            elif kind in ("exactly_one", "at_most_one"):
                names = [n for n in c[1] if n in allp]
                present = [n for n in names if n in chosen or n in req]
                if len(present) > 1:
                    keep = rng.choice(present)
                    for n in present:
                        if n != keep:
                            chosen.discard(n)
                elif not present and kind == "exactly_one":
                    chosen.add(rng.choice(names))
            elif kind == "named":
                self.repair_named(c[1], tbl, req, opt, chosen, type_name)
        # 'requires' after the others (they may add properties)
        for c in tbl["constraints"]:
            if c[0] == "requires" and c[1] in chosen:
                for b in c[2]:
                    if b in allp:
                        chosen.add(b)
        # exactly_one may have been disturbed by 'requires' only for artifact(url->hashes): hashes is not in the xor set
        return chosen

    def repair_named(self, name, tbl, req, opt, chosen, type_name):
        rng = self.rng
        if name == "location-presence":
            if ("latitude" in chosen) != ("longitude" in chosen):
                chosen.update(["latitude", "longitude"])
            if "precision" in chosen:
                chosen.update(["latitude", "longitude"])
            if not ({"region", "country"} & chosen or {"latitude", "longitude"} <= chosen):
                chosen.update(rng.choice([["region"], ["country"], ["latitude", "longitude"]]))
        elif name in ("some-property", "process-some-property"):
            if not (chosen | (set(req) - {"type", "id", "spec_version"})):
                cands = [n for n in opt if n not in ("defanged", "object_marking_refs", "extensions", "granular_markings")]
                chosen.add(rng.choice(cands))
            if name == "process-some-property" and not (chosen - {"defanged", "object_marking_refs"}):
                cands = [n for n in opt if n not in ("defanged", "object_marking_refs", "extensions", "granular_markings")]
                chosen.add(rng.choice(cands))
        elif name == "network-traffic-active":
            if "end" in chosen:
                chosen.add("is_active")
        elif name == "email-multipart":
            pass      # decided at value time from is_multipart
        elif name == "file-encryption-20":
            if {"encryption_algorithm", "decryption_key"} & chosen:
                chosen.add("is_encrypted")

    # ------------------------------------------------------------------ objects
    def embedded(self, ename, depth=0):
        tbl = self.m.embedded[ename]
        if ename == "GranularMarking":
            raise KeyError("granular markings are built by add_granular_markings")
        return self.fill(tbl, ename, "random" if depth < 3 else "min", depth)

    def fill(self, tbl, type_name, profile, depth=0, sco20_container=None):
        rng = self.rng
        req, opt, chosen = self.choose_optional(tbl, profile)
        chosen = self.repair(tbl, req, opt, chosen, type_name)
        out = {}
        names = [p["name"] for p in tbl["props"] if not p.get("unmodelled")
                 and (p["required"] or p["name"] in chosen or p["k"] in ("fixed", "id"))]
        # joint generation for ordered timestamp pairs
        ordered = {}
        for c in tbl["constraints"]:
            if c[0] in ("le", "lt"):
                a, b = c[1], c[2]
                if a in names and b in names:
                    ka, kb = tbl["by_name"][a], tbl["by_name"][b]
                    ua = V.instant_us(rng, *self.year_range)
                    unit = 1000 if "millisecond" in (ka["precision"], kb["precision"]) and "exact" in (ka["constraint"], kb["constraint"]) else 1
                    ua -= ua % unit
                    delta = rng.choice([0, 1, 999, 1000, 1001, 999999, 1000000, 86400 * 10 ** 6, rng.randrange(10 ** 12)]) * 1
                    if c[0] == "lt" and delta == 0:
                        delta = 1
                    delta = -(-delta // unit) * unit if unit > 1 else delta
                    ta, ia = V.ts_text(rng, ua, ka["precision"], ka["constraint"], self.ts_max_digits)
                    tb, ib = V.ts_text(rng, ua + delta, kb["precision"], kb["constraint"], self.ts_max_digits)
                    # extra digits beyond microseconds must not invert the order
                    if (tsor.text_instant(ta) > tsor.text_instant(tb)) or (c[0] == "lt" and tsor.text_instant(ta) >= tsor.text_instant(tb)):
                        ta = tsor.format_us(ia, ka["precision"], ka["constraint"])
                        tb = tsor.format_us(ib, kb["precision"], kb["constraint"])
                        if c[0] == "lt" and tsor.text_instant(ta) >= tsor.text_instant(tb):
                            tb = tsor.format_us(ib + 1000000, kb["precision"], kb["constraint"])
                    ordered[a], ordered[b] = ta, tb
        for n in names:
            kind = tbl["by_name"][n]
            k = kind["k"]
            if n in ordered:
                out[n] = ordered[n]
            elif k == "id":
                out[n] = self.new_id(type_name)
            elif k == "objref":
                out[n] = self.objref(kind, sco20_container)
            elif k == "list" and kind["of"]["k"] == "objref":
                out[n] = [self.objref(kind["of"], sco20_container) for _ in range(rng.choice([1, 1, 2]))]
            elif k == "observables":
                out[n] = self.observed_container()
            elif k == "stixobject":
                continue
            elif k == "marking-object":
                continue
            else:
                out[n] = self.value(kind, n, depth)
        self.fix_named(tbl, type_name, out)
        return out

    def fix_named(self, tbl, type_name, out):
        rng = self.rng
        named = [c[1] for c in tbl["constraints"] if c[0] == "named"]
        if "malware-family-name" in named:
            if out.get("is_family") and "name" not in out:
                out["is_family"] = False
        if "network-traffic-active" in named and "end" in out:
            out["is_active"] = False
        if "email-multipart" in named:
            if out.get("is_multipart"):
                out.pop("body", None)
            else:
                out.pop("body_multipart", None)
        if "file-encryption-20" in named:
            if {"encryption_algorithm", "decryption_key"} & set(out):
                out["is_encrypted"] = True
        if "stix-pattern-valid" in named and self.version == "2.1":
            if out.get("pattern_type") != "stix":
                if rng.random() < 0.8:
                    out["pattern_type"] = "stix"
                else:
                    out["pattern"] = V.string(rng, self.hostile) or "x"
                    out.pop("pattern_version", None)
            if out.get("pattern_type") == "stix" and "pattern_version" in out:
                out["pattern_version"] = "2.1"
        if type_name == "windows-registry-key" and "key" in out:
            out["key"] = rng.choice(["HKEY_LOCAL_MACHINE\\System\\Foo", "hkey_local_machine\\system\\bar\\foo", "HKEY_CURRENT_USER\\Software"])

    # ------------------------------------------------------------------ 2.0 observable containers
    def objref(self, kind, container):
        """A container-local reference (2.0): key of an object of an allowed type, added on demand."""
        if container is None:
            return "0"
        rng = self.rng
        allowed = kind.get("valid")
        keys = [k for k, o in container.items() if allowed is None or o["type"] in allowed]
        if keys and rng.random() < 0.7:
            return rng.choice(keys)
        t = rng.choice(allowed) if allowed else rng.choice(["file", "mutex", "domain-name"])
        key = str(len(container))
        container[key] = {"type": t}    # placeholder so the key is taken
        container[key] = self.sco20(t, "min-noref", container)
        return key

    def sco20(self, t, profile, container):
        tbl = self.m.types[t]
        if profile == "min-noref":
            o = self.fill(tbl, t, "min", 0, container)
        else:
            o = self.fill(tbl, t, profile, 0, container)
            if self.with_extensions and t in M.EXT_HOSTS and self.rng.random() < 0.5:
                o["extensions"] = self.predefined_exts(t, container)
        return o

    def predefined_exts(self, t, container=None):
        rng = self.rng
        exts = {}
        for e in rng.sample(M.EXT_HOSTS[t], min(len(M.EXT_HOSTS[t]), rng.choice([1, 1, 2]))):
            exts[e] = self.fill(self.m.extensions[e], e, "random", 1, container)
        if t == "process" and "windows-service-ext" in exts and self.version == "2.0":
            pass
        return exts

    def observed_container(self, n=None, types=None):
        rng = self.rng
        scos = self.m.types_of_class("SCO")
        container = {}
        n = n or rng.choice([1, 2, 3])
        types = types or [rng.choice(scos) for _ in range(n)]
        for t in types:
            key = str(len(container))
            container[key] = {"type": t}
            if self.version == "2.0":
                container[key] = self.sco20(t, "random", container)
            else:
                container[key] = self.make(t, "random", granular=False)
        return container

    # ------------------------------------------------------------------ top level
    def make(self, type_name, profile="random", granular=True, markings=True):
        rng = self.rng
        tbl = self.m.types[type_name]
        cat = tbl["cat"]
        if type_name == "marking-definition":
            o = self.marking_definition(profile)
        elif type_name == "bundle":
            o = self.bundle(profile)
        elif cat == "sco" and self.version == "2.0":
            raise KeyError("2.0 observables exist only inside observed-data containers")
        else:
            o = self.fill(tbl, type_name, profile)
            if self.with_extensions and "extensions" in tbl["by_name"]:
                exts = {}
                if type_name in M.EXT_HOSTS and (profile == "max" or (profile == "random" and rng.random() < 0.4)):
                    exts.update(self.predefined_exts(type_name))
                if self.version == "2.1" and profile != "min" and rng.random() < 0.15:
                    exts["extension-definition--" + V.uuid_text(rng, 4)] = {
                        "extension_type": "property-extension", "rank": V.integer(rng, 0, 10), "note_text": V.string(rng, self.hostile)}
                if self.version == "2.1" and self.toplevel_ext and rng.random() < 0.1:
                    exts["extension-definition--" + V.uuid_text(rng, 4)] = {"extension_type": "toplevel-property-extension"}
                    o["toplevel_rank"] = V.integer(rng, 0, 10)
                if exts:
                    o["extensions"] = exts
        if type_name != "bundle":
            if not markings:
                o.pop("object_marking_refs", None)
            if granular and "granular_markings" in tbl["by_name"] and profile != "min" and (profile == "max" or rng.random() < 0.35):
                if self.long_lists and isinstance(o.get("labels"), list) and rng.random() < 0.5:
                    # a list long enough for two-digit indices (paths do not sort like numbers)
                    o["labels"] = o["labels"] + ["label-%d" % k for k in range(12 - len(o["labels"]))]
                self.add_granular_markings(o)
                if self.long_lists and isinstance(o.get("labels"), list) and len(o["labels"]) >= 12:
                    o["granular_markings"][0]["selectors"] = o["granular_markings"][0]["selectors"][:2] + [rng.choice(["labels.[10]", "labels.[11]"])]
        if self.shuffle_keys:
            items = list(o.items())
            rng.shuffle(items)
            o = dict(items)
        else:
            order = [p["name"] for p in tbl["props"]]
            o = {k: o[k] for k in sorted(o, key=lambda k: (order.index(k) if k in order else 999, k))}
        return o

    def add_granular_markings(self, o, n=None, safe_only=False):
        rng = self.rng
        sels = [s for s, segs, v in pathor.selectors(o) if segs[0] not in ("granular_markings",)]
        if safe_only:
            # selectors on truthy string-valued top-level properties only (always accepted by every tree)
            sels = [s for s, segs, v in pathor.selectors(o) if len(segs) == 1 and isinstance(v, str) and v and segs[0] != "granular_markings"]
        if not sels:
            return
        gms = []
        for _ in range(n or rng.choice([1, 1, 2])):
            gm = {}
            if self.version == "2.1" and rng.random() < 0.3:
                gm["lang"] = rng.choice(LANGS)
            else:
                gm["marking_ref"] = self.new_id("marking-definition") if rng.random() < 0.6 else rng.choice(list(M.TLP.values()))
            gm["selectors"] = rng.sample(sels, min(len(sels), rng.choice([1, 1, 2, 3])))
            gms.append(gm)
        o["granular_markings"] = gms

    def marking_definition(self, profile="random"):
        rng = self.rng
        tbl = self.m.types["marking-definition"]
        form = rng.choice(["statement", "statement", "tlp"] + (["extension"] if self.version == "2.1" else []))
        if form == "tlp":
            color = rng.choice(sorted(M.TLP))
            o = {"type": "marking-definition"}
            if self.version == "2.1":
                o["spec_version"] = "2.1"
            o.update({"id": M.TLP[color], "created": M.TLP_CREATED, "definition_type": "tlp"})
            if self.version == "2.1":
                o["name"] = "TLP:" + color.upper()
            o["definition"] = {"tlp": color}
            return o
        o = self.fill(tbl, "marking-definition", profile)
        o.pop("definition_type", None)
        o.pop("definition", None)
        if form == "statement":
            o["definition_type"] = "statement"
            o["definition"] = {"statement": V.string(rng, self.hostile) or "Copyright"}
        else:
            o["extensions"] = {"extension-definition--" + V.uuid_text(rng, 4): {
                "extension_type": "property-extension", "marking_level": V.integer(rng, 0, 5)}}
        return o

    def bundle(self, profile="random", members=None):
        rng = self.rng
        o = {"type": "bundle", "id": self.new_id("bundle")}
        if self.version == "2.0":
            o["spec_version"] = "2.0"
        if members is None:
            if profile == "min" and self.version == "2.1":
                return o
            cands = [t for t, d in self.m.types.items() if d["cat"] in ("sdo", "sro", "marking-definition")
                     or (self.version == "2.1" and d["cat"] in ("sco", "meta"))]
            members = [self.make(rng.choice(cands), "random") for _ in range(rng.choice([1, 2, 3]))]
        if members:
            o["objects"] = members
        return o

    def creatable_types(self):
        """Types that can be generated stand-alone in this version."""
        return [t for t, d in sorted(self.m.types.items()) if not (d["cat"] == "sco" and self.version == "2.0")]


def optional_pairs(m, type_name):
    """All unordered pairs of optional property names of a type (for pairwise coverage)."""
    tbl = m.types[type_name]
    opt = [p["name"] for p in tbl["props"] if not p["required"] and not p.get("unmodelled")
           and p["k"] not in ("fixed", "id") and p["name"] not in ("granular_markings", "extensions")]
    return [(a, b) for i, a in enumerate(opt) for b in opt[i + 1:]]
