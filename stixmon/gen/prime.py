"""Priming: feed the literal leaf values of an input through *other contexts* of the library first.

A value that is valid in one context (a UUIDv1 in a 2.1 identifier, six fractional digits in a 2.1 `modified`) and invalid
or differently normalised in another (2.0 identifier, a millisecond-exact slot) must be treated on its own terms each time.
Any memo keyed on the literal alone would leak the first context's answer into the second.  prime() makes that "first
time" happen, through public constructors only; every outcome of the priming calls themselves is ignored.
"""
import re
import warnings

UUID_RE = re.compile(r"^([a-z0-9][a-z0-9-]*)--([0-9a-fA-F]{8}-[0-9a-fA-F]{4}-[0-9a-fA-F]{4}-[0-9a-fA-F]{4}-[0-9a-fA-F]{12})$")
TS_RE = re.compile(r"^\d{4}-\d\d-\d\dT\d\d:\d\d:\d\d(\.\d+)?Z$")


def leaves(v, acc, depth=0):
    if isinstance(v, str):
        acc.append(v)
    elif isinstance(v, list):
        for x in v[:12]:
            leaves(x, acc, depth + 1)
    elif isinstance(v, dict) and depth < 6:
        for k, x in list(v.items())[:40]:
            leaves(x, acc, depth + 1)
    return acc


def prime(o, rng=None, limit=4):
    """Returns the number of priming calls made.  The order of the contexts is shuffled (a memo keeps whichever came first)."""
    import random
    import stix2
    if rng is None:
        rng = random.Random(repr(o)[:400])
    vals = leaves(o, [])
    ids = [v for v in vals if UUID_RE.match(v)]
    tss = [v for v in vals if TS_RE.match(v)]
    if rng is not None:
        rng.shuffle(ids)
        rng.shuffle(tss)
    n = 0
    pats = [v for v in vals if v.startswith("[") and v.rstrip().endswith(("]", "SECONDS", "TIMES", "'")) and len(v) < 2000]
    with warnings.catch_warnings():
        warnings.simplefilter("ignore")
        for v in pats[:2]:
            # a pattern text is valid relative to a grammar version: let every version see it first
            calls = [
                lambda: stix2.v21.Indicator(pattern=v, pattern_type="stix", pattern_version="2.0", valid_from="2020-01-01T00:00:00Z"),
                lambda: stix2.v21.Indicator(pattern=v, pattern_type="stix", pattern_version="2.1", valid_from="2020-01-01T00:00:00Z"),
                lambda: stix2.v21.Indicator(pattern=v, pattern_type="stix", valid_from="2020-01-01T00:00:00Z"),
                lambda: stix2.v20.Indicator(pattern=v, labels=["x"], valid_from="2020-01-01T00:00:00Z"),
                lambda: stix2.v21.Indicator(pattern=v, pattern_type="snort", valid_from="2020-01-01T00:00:00Z"),
            ]
            rng.shuffle(calls)
            for c in calls:
                n += 1
                try:
                    c()
                except Exception:
                    pass
        for v in ids[:limit]:
            u = UUID_RE.match(v).group(2)
            calls = (
                lambda: stix2.v21.Identity(id="identity--" + u, name="p", created_by_ref="identity--" + u),
                lambda: stix2.v20.Identity(id="identity--" + u, name="p", identity_class="individual", created_by_ref="identity--" + u),
                lambda: stix2.v21.Relationship(source_ref=v, target_ref=v, relationship_type="related-to"),
                lambda: stix2.v20.Relationship(source_ref=v, target_ref=v, relationship_type="related-to"),
                lambda: stix2.v21.Identity(name="p", object_marking_refs=["marking-definition--" + u]),
                lambda: stix2.v20.Identity(name="p", identity_class="individual", object_marking_refs=["marking-definition--" + u]),
                lambda: stix2.v21.File(id="file--" + u, name="p"),
                lambda: stix2.parse({"type": "identity", "id": "identity--" + u, "name": "p", "identity_class": "individual",
                                     "created": "2020-01-01T00:00:00.000Z", "modified": "2020-01-01T00:00:00.000Z"}, version="2.0", allow_custom=True),
            )
            calls = list(calls)
            rng.shuffle(calls)
            for c in calls:
                n += 1
                try:
                    c()
                except Exception:
                    pass
        for v in tss[:limit]:
            calls = (
                lambda: stix2.v21.Identity(name="p", created=v, modified=v),                     # millisecond / min
                lambda: stix2.v20.Identity(name="p", identity_class="individual", created=v, modified=v),   # millisecond / exact
                lambda: stix2.v21.LanguageContent(object_ref="identity--d83fce45-ef58-4c6c-a3f4-1fbc32e98c6e", object_modified=v,
                                                  contents={"en": {"name": "p"}}),                # millisecond / exact
                lambda: stix2.v21.Indicator(pattern="[a:b = 1]", pattern_type="stix", valid_from=v),         # any
                lambda: stix2.v20.Indicator(pattern="[a:b = 1]", labels=["x"], valid_from=v),
                lambda: stix2.v21.File(name="p", ctime=v),
                lambda: stix2.v20.File(name="p", created=v),
                lambda: stix2.utils.parse_into_datetime(v),
                lambda: stix2.utils.parse_into_datetime(v, precision="second"),
                lambda: stix2.utils.parse_into_datetime(v, precision="millisecond", precision_constraint="min"),
            )
            calls = list(calls)
            rng.shuffle(calls)
            for c in calls:
                n += 1
                try:
                    c()
                except Exception:
                    pass
    return n
