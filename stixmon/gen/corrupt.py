"""Corruption injector: single-point (and two-point) edits of a valid JSON object, one per
(slot, corruption kind), at top level and inside every embedded object / extension / container.

slots(version, obj) walks the object guided by the frozen model and yields Slot records;
corruptions(version, obj) yields (label, kind_key, mutated_copy).
"""
import copy

from ..spec import model as M

JUNK = [None, True, False, 0, -1, 1.5, "", "junk", [], ["junk"], [None], {}, {"k": "v"}, [[{}]], 2 ** 70, {"type": "x"}, [1, "a", {}]]
JUNK_NAMES = ["null", "true", "false", "0", "-1", "1.5", "empty-string", "string", "empty-list", "list-of-string", "list-of-null",
              "empty-object", "object", "nested-junk", "huge-int", "typed-object", "mixed-list"]

EDEF = "extension-definition--d83fce45-ef58-4c6c-a3f4-1fbc32e98c6e"
EXT_JUNK = [("string", "a string"), ("number", 5), ("list", [1]), ("empty-object", {}), ("null", None), ("bool", True)]

BAD_UUIDS = [
    ("urn-uuid", lambda u: "urn:uuid:" + u), ("braced", lambda u: "{" + u + "}"), ("dashless", lambda u: u.replace("-", "")),
    ("short", lambda u: u[:-1]), ("long", lambda u: u + "0"), ("trailing-newline", lambda u: u + "\n"), ("leading-space", lambda u: " " + u),
    ("non-hex", lambda u: "g" + u[1:]), ("nil", lambda u: "00000000-0000-0000-0000-000000000000"),
    ("bad-variant", lambda u: u[:19] + "0" + u[20:]), ("uppercase", lambda u: u.upper()), ("empty", lambda u: ""),
    ("misplaced-dashes", lambda u: u[:7] + "-" + u[7] + u[9:]),
]
BAD_TS = [
    ("offset", lambda t: t[:-1] + "+00:00"), ("no-z", lambda t: t[:-1]), ("space", lambda t: t.replace("T", " ")),
    ("month-13", lambda t: t[:5] + "13" + t[7:]), ("hour-24", lambda t: t[:11] + "24" + t[13:]), ("trailing-newline", lambda t: t + "\n"),
    ("date-only", lambda t: t[:10]), ("lowercase", lambda t: t.lower()), ("second-60", lambda t: t[:17] + "60" + t[19:]),
    ("day-00", lambda t: t[:8] + "00" + t[10:]), ("two-digit-year", lambda t: t[2:]), ("slashes", lambda t: t.replace("-", "/")),
    ("epoch", lambda t: 1500000000), ("leading-space", lambda t: " " + t), ("comma-fraction", lambda t: t.replace(".", ",") if "." in t else t[:-1] + ",5Z"),
]


class Slot:
    __slots__ = ("path", "kind", "required", "table", "container_path", "section")

    def __init__(self, path, kind, required, table, section):
        self.path = path          # tuple of keys / ints from the root to the value
        self.kind = kind
        self.required = required
        self.table = table        # table of the object that owns the property
        self.section = section


def get(o, path):
    for p in path:
        o = o[p]
    return o


def setp(o, path, v):
    for p in path[:-1]:
        o = o[p]
    o[path[-1]] = v


def delp(o, path):
    for p in path[:-1]:
        o = o[p]
    del o[path[-1]]


def walk_table(m, tbl, o, path, section, out, objects):
    objects.append((path, tbl, section))
    for p in tbl["props"]:
        if p.get("unmodelled") or p["name"] not in o:
            continue
        out.append(Slot(path + (p["name"],), p, p["required"], tbl, section))
        walk_kind(m, p, o[p["name"]], path + (p["name"],), out, objects)


def walk_kind(m, kind, v, path, out, objects):
    k = kind["k"]
    if k == "list" and isinstance(v, list):
        for i, x in enumerate(v):
            if kind["of"]["k"] in ("embedded",):
                walk_kind(m, kind["of"], x, path + (i,), out, objects)
            else:
                out.append(Slot(path + (i,), kind["of"], True, None, "element"))
    elif k == "embedded" and isinstance(v, dict):
        walk_table(m, m.embedded[kind["type"]], v, path, "embedded:" + kind["type"], out, objects)
    elif k == "extensions" and isinstance(v, dict):
        for key, ext in v.items():
            if key in m.extensions and isinstance(ext, dict):
                walk_table(m, m.extensions[key], ext, path + (key,), "extension:" + key, out, objects)
    elif k == "observables" and isinstance(v, dict):
        for key, sco in v.items():
            t = sco.get("type") if isinstance(sco, dict) else None
            if t in m.types:
                walk_table(m, m.types[t], sco, path + (key,), "observable:" + t, out, objects)
    elif k == "marking-object" and isinstance(v, dict):
        pass


def slots(version, o):
    m = M.model(version)
    out, objects = [], []
    tbl = m.types[o["type"]]
    walk_table(m, tbl, o, (), "top", out, objects)
    if o["type"] == "marking-definition" and isinstance(o.get("definition"), dict) and o.get("definition_type") in m.markings:
        walk_table(m, m.markings[o["definition_type"]], o["definition"], ("definition",), "marking:" + o["definition_type"], out, objects)
    if o["type"] == "bundle" and isinstance(o.get("objects"), list):
        for i, member in enumerate(o["objects"]):
            if isinstance(member, dict) and member.get("type") in m.types and member.get("type") != "bundle":
                walk_table(m, m.types[member["type"]], member, ("objects", i), "member:" + member["type"], out, objects)
    return out, objects


def kind_specific(version, slot, v, m):
    """(label, new value) corruptions that depend on the slot's kind."""
    k = slot.kind["k"]
    out = []
    if k == "int":
        if "min" in slot.kind:
            out.append(("below-min", slot.kind["min"] - 1))
        if "max" in slot.kind:
            out.append(("above-max", slot.kind["max"] + 1))
        out += [("int-as-string", "5"), ("float-with-fraction", 2.5), ("string-float", "2.5"), ("nan", float("nan")), ("inf", float("inf"))]
    elif k == "float":
        if "min" in slot.kind:
            out.append(("below-min", slot.kind["min"] - 0.5))
        if "max" in slot.kind:
            out.append(("above-max", slot.kind["max"] + 0.5))
        out += [("nan", float("nan")), ("inf", float("inf")), ("neg-inf", -float("inf")), ("float-as-string", "1.5"), ("word", "abc")]
    elif k == "bool":
        out += [("string-true", "true"), ("string-yes", "yes"), ("int-2", 2), ("string-1", "1"), ("word", "maybe")]
    elif k == "enum":
        out += [("out-of-vocabulary", "not-in-vocabulary"), ("wrong-case", str(v).upper() if isinstance(v, str) else "X"), ("trailing-newline", str(v) + "\n")]
    elif k in ("id", "ref"):
        if isinstance(v, str) and "--" in v:
            t, u = v.split("--", 1)
            for name, f in BAD_UUIDS:
                out.append(("uuid:" + name, t + "--" + f(u)))
            out += [("no-separator", t + "-" + u), ("single-dash-type", t + "-x--" + u), ("type-only", t), ("uuid-only", u),
                    ("uppercase-type", t.upper() + "--" + u), ("type-with-space", t + " --" + u), ("empty-type", "--" + u),
                    # more than one separator: whatever sits between the first and the last is part of neither a type nor a UUID
                    ("extra-separator", t + "--x--" + u), ("double-separator", t + "----" + u), ("junk-between-separators", t + "--not a type!--" + u),
                    ("uuid-twice", t + "--" + u + "--" + u)]
            if version == "2.0":
                out.append(("uuid:version-1-in-2.0", t + "--" + u[:14] + "1" + u[15:]))
            if k == "id":
                out.append(("wrong-prefix", "identity-x--" + u if t != "identity-x" else "foo--" + u))
                out.append(("other-type-prefix", ("malware" if t != "malware" else "tool") + "--" + u))
            else:
                dis = [tt for tt in sorted(m.types) if m.ref_allows(slot.kind, tt) is False]
                picked = []
                for tt in dis:          # one disallowed type per category, and every meta type (they sit between the categories)
                    cat = m.types[tt].get("cat")
                    if cat in ("meta", "marking", "bundle") or tt in ("marking-definition", "language-content", "extension-definition", "bundle") \
                            or cat not in {m.types[x].get("cat") for x in picked}:
                        picked.append(tt)
                if dis and dis[-1] not in picked:
                    picked.append(dis[-1])
                for tt in picked:
                    out.append(("ref-to-disallowed-type:" + tt, tt + "--" + u))
                out.append(("ref-to-custom-type", "x-custom-thing--" + u))
                out.append(("ref-to-unknown-type", "frobnicator--" + u))
    elif k == "ts":
        if isinstance(v, str):
            for name, f in BAD_TS:
                try:
                    out.append(("timestamp:" + name, f(v)))
                except Exception:
                    pass
    elif k == "hex":
        out += [("odd-length", "abc"), ("non-hex", "zz"), ("trailing-newline", "ab\n"), ("prefixed", "0xab"), ("spaces", "ab cd")]
    elif k == "binary":
        out += [("not-base64", "!!!not base64!!!"), ("bad-padding", "QUJD="), ("trailing-newline", "QUJD\n")]
    elif k == "hashes":
        out += [("hash:wrong-length", {"MD5": "abcd"}), ("hash:non-hex", {"SHA-256": "z" * 64}),
                ("hash:trailing-newline", {"MD5": "5a21fd2ba003eeb25d03a33499792e2e\n"}),
                ("hash:unknown-algorithm", {"FOOHASH": "abcd"}), ("hash:key-bad-chars", {"MD 5": "5a21fd2ba003eeb25d03a33499792e2e"}),
                ("hash:value-not-string", {"MD5": 5}), ("hash:value-null", {"MD5": None}),
                ("hash:lowercase-name", {"md5": "5a21fd2ba003eeb25d03a33499792e2e"}),
                ("hash:key-trailing-newline", {"MD5\n": "5a21fd2ba003eeb25d03a33499792e2e"}),
                # characters which fold to ASCII letters under case-insensitive matching are not hexadecimal digits / SSDEEP characters
                ("hash:kelvin-sign-in-ssdeep", {"SSDEEP": "3:abc\u212a:def"}), ("hash:long-s-in-ssdeep", {"SSDEEP": "3:ab\u017f:def"}),
                ("hash:fullwidth-digit", {"MD5": "5a21fd2ba003eeb25d03a33499792e2\uff15"})]
    elif k == "extensions":
        if version == "2.1":
            for lab, val in EXT_JUNK:
                out.append(("extension:unregistered-definition-value-" + lab, dict(v if isinstance(v, dict) else {}, **{EDEF: val})))
    elif k == "dict":
        out += [("dict:key-bad-chars", {"bad key!": "v"}), ("dict:key-trailing-newline", {"key\n": "v"}), ("dict:key-too-long", {"k" * 300: "v"}),
                ("dict:key-unicode", {"ключ": "v"}), ("dict:null-value", {"key": None}), ("dict:empty-key", {"": "v"})]
        if version == "2.0":
            out.append(("dict:key-too-short", {"ab": "v"}))
    elif k == "list":
        out += [("list:with-null", [None]), ("list:nested-empty", [[]])]
        if isinstance(v, list) and v:
            out.append(("list:plus-null", v + [None]))
    elif k == "selector":
        out += [("selector:bad-syntax", "Name.[x]"), ("selector:absent", "no_such_property"), ("selector:trailing-newline", "type\n")]
    elif k in ("string", "openvocab", "pattern"):
        out += [("number-for-string", 12345), ("bool-for-string", True)]
        if k == "pattern":
            out += [("pattern:garbage", "this is not a pattern"), ("pattern:unbalanced", "[file:name = 'x'"), ("pattern:empty-brackets", "[]")]
            if version == "2.1":
                # valid under the 2.0 grammar only (a qualifier given twice)
                out += [("pattern:2.0-grammar-only", "[file:name = 'a'] WITHIN 5 SECONDS WITHIN 6 SECONDS"),
                        ("pattern:2.0-grammar-only", "[file:name = 'a'] REPEATS 2 TIMES REPEATS 3 TIMES")]
    elif k == "fixed":
        out += [("fixed:other-value", "something-else"), ("fixed:wrong-case", str(v).upper()), ("fixed:trailing-newline", str(v) + "\n")]
    return out


def constraint_breaks(version, o, objects):
    """(label, mutated object) violating one co-constraint of one (possibly nested) object."""
    out = []
    for path, tbl, section in objects:
        sub0 = get(o, path)
        for c in tbl["constraints"]:
            kind = c[0]
            lab = "%s:%s" % (section, kind)
            if kind == "at_least_one":
                names = [n for n in c[1] if n in tbl["by_name"]]
                if any(tbl["by_name"][n]["required"] for n in names):
                    continue
                oo = copy.deepcopy(o)
                sub = get(oo, path)
                for n in names:
                    sub.pop(n, None)
                out.append((lab + ":none-of-" + "/".join(names[:3]), oo))
            elif kind in ("exactly_one", "at_most_one"):
                names = [n for n in c[1] if n in tbl["by_name"]]
                present = [n for n in names if n in sub0]
                absent = [n for n in names if n not in sub0]
                if present and absent:
                    oo = copy.deepcopy(o)
                    sub = get(oo, path)
                    kd = tbl["by_name"][absent[0]]
                    sub[absent[0]] = sample_value(version, kd, absent[0])
                    out.append((lab + ":both-" + "/".join(names), oo))
                if kind == "exactly_one" and present:
                    oo = copy.deepcopy(o)
                    sub = get(oo, path)
                    for n in present:
                        sub.pop(n)
                    out.append((lab + ":neither-" + "/".join(names), oo))
            elif kind == "requires":
                if c[1] in tbl["by_name"] and tbl["by_name"][c[1]]["k"] in ("string", "int", "float", "bool"):
                    # present but falsy ('' / 0 / false) still requires its partners
                    oo = copy.deepcopy(o)
                    sub = get(oo, path)
                    sub[c[1]] = {"string": "", "int": 0, "float": 0.0, "bool": False}[tbl["by_name"][c[1]]["k"]]
                    for b in c[2]:
                        sub.pop(b, None)
                    out.append((lab + ":falsy-%s-without-%s" % (c[1], "/".join(c[2])), oo))
                if c[1] in sub0:
                    oo = copy.deepcopy(o)
                    sub = get(oo, path)
                    for b in c[2]:
                        sub.pop(b, None)
                    out.append((lab + ":%s-without-%s" % (c[1], "/".join(c[2])), oo))
                elif c[1] in tbl["by_name"]:
                    oo = copy.deepcopy(o)
                    sub = get(oo, path)
                    sub[c[1]] = sample_value(version, tbl["by_name"][c[1]], c[1])
                    for b in c[2]:
                        sub.pop(b, None)
                    out.append((lab + ":%s-without-%s" % (c[1], "/".join(c[2])), oo))
            elif kind in ("le", "lt"):
                a, b = c[1], c[2]
                if a in sub0 and b in sub0:
                    oo = copy.deepcopy(o)
                    sub = get(oo, path)
                    sub[a], sub[b] = "2030-01-01T00:00:00.000Z", "2020-01-01T00:00:00.000Z"
                    out.append((lab + ":%s-after-%s" % (a, b), oo))
                    if kind == "lt":
                        oo = copy.deepcopy(o)
                        sub = get(oo, path)
                        sub[a] = sub[b] = "2020-01-01T00:00:00.000Z"
                        out.append((lab + ":%s-equals-%s" % (a, b), oo))
                elif a in tbl["by_name"] and b in tbl["by_name"]:
                    oo = copy.deepcopy(o)
                    sub = get(oo, path)
                    sub[a], sub[b] = "2030-01-01T00:00:00.000Z", "2020-01-01T00:00:00.000Z"
                    out.append((lab + ":%s-after-%s" % (a, b), oo))
            elif kind == "named":
                for lab2, oo in named_breaks(version, c[1], o, path, tbl):
                    out.append(("%s:%s" % (section, lab2), oo))
    return out


def sample_value(version, kind, name):
    import random
    from .objects import ObjGen
    g = ObjGen(random.Random("sample:" + name), version, hostile=False, ts_max_digits=3)
    k = kind["k"]
    if k in ("observables",):
        return {"0": {"type": "mutex", "name": "m"}} if version == "2.0" else {"0": {"type": "mutex", "name": "m", "id": g.new_id("mutex")}}
    if k == "objref":
        return "0"
    if k == "marking-object":
        return {"statement": "s"}
    if k == "list" and kind["of"]["k"] == "objref":
        return ["0"]
    if k == "extensions":
        return {"extension-definition--" + "d83fce45-ef58-4c6c-a3f4-1fbc32e98c6e": {"extension_type": "property-extension", "a_prop": 1}}
    return g.value(kind, name)


def named_breaks(version, name, o, path, tbl):
    out = []

    def mut():
        oo = copy.deepcopy(o)
        return oo, get(oo, path)
    if name == "location-presence":
        oo, s = mut()
        for n in ("region", "country", "latitude", "longitude", "precision"):
            s.pop(n, None)
        out.append(("location:nothing", oo))
        oo, s = mut()
        s.pop("longitude", None)
        s["latitude"] = 10.0
        s["country"] = "us"
        out.append(("location:latitude-without-longitude", oo))
        oo, s = mut()
        s.pop("latitude", None)
        s.pop("longitude", None)
        s["country"] = "us"
        s["precision"] = 5.0
        out.append(("location:precision-without-coordinates", oo))
        # the same with falsy values: a property that is present is present, whatever it holds
        for falsy_lab, lat, prec in (("zero-latitude-without-longitude", 0.0, None), ("zero-longitude-without-latitude", None, None), ("zero-precision-without-coordinates", None, 0.0)):
            oo, s = mut()
            for n in ("latitude", "longitude", "precision"):
                s.pop(n, None)
            s["region"] = s.get("region", "northern-america")
            if falsy_lab.startswith("zero-latitude"):
                s["latitude"] = 0.0
            elif falsy_lab.startswith("zero-longitude"):
                s["longitude"] = 0
            else:
                s["precision"] = 0.0
            out.append(("location:" + falsy_lab, oo))
    elif name == "malware-family-name":
        oo, s = mut()
        s["is_family"] = True
        s.pop("name", None)
        out.append(("malware:family-without-name", oo))
    elif name == "marking-definition":
        if version == "2.1":
            oo, s = mut()
            s.pop("definition", None)
            s.pop("extensions", None)
            out.append(("marking:definition_type-without-definition", oo))
            oo, s = mut()
            s.pop("definition", None)
            s.pop("definition_type", None)
            s.pop("extensions", None)
            out.append(("marking:no-definition-no-extensions", oo))
        oo, s = mut()
        if isinstance(s.get("id"), str):
            s["object_marking_refs"] = list(s.get("object_marking_refs") or []) + [s["id"]]
            out.append(("marking:object-marked-with-itself", oo))
        oo, s = mut()
        if isinstance(s.get("id"), str):
            s["granular_markings"] = list(s.get("granular_markings") or []) + [{"marking_ref": s["id"], "selectors": ["created"]}]
            out.append(("marking:granularly-marked-with-itself", oo))
        oo, s = mut()
        s["definition_type"] = "tlp"
        s["definition"] = {"tlp": "green"}
        if s.get("id") in M.TLP.values():
            s["id"] = "marking-definition--d83fce45-ef58-4c6c-a3f4-1fbc32e98c6e"
        out.append(("marking:tlp-with-other-id", oo))
        oo, s = mut()
        s["definition_type"] = "tlp"
        s["definition"] = {"tlp": "green"}
        s["id"] = M.TLP["green"]
        s["created"] = "2018-01-01T00:00:00.000Z"
        out.append(("marking:tlp-with-other-created", oo))
        oo, s = mut()
        s["definition_type"] = "tlp"
        s["definition"] = {"tlp": "purple"}
        out.append(("marking:tlp-unknown-colour", oo))
        oo, s = mut()
        s["definition_type"] = "statement"
        s["definition"] = {"tlp": "green"}
        out.append(("marking:definition-of-other-type", oo))
    elif name == "email-multipart":
        oo, s = mut()
        s["is_multipart"] = True
        s["body"] = "text"
        s.pop("body_multipart", None)
        out.append(("email:multipart-with-body", oo))
        oo, s = mut()
        s["is_multipart"] = True
        s["body"] = ""                      # present is present
        s["body_multipart"] = [{"body": "x", "content_type": "text/plain"}]
        out.append(("email:multipart-with-empty-body", oo))
        oo, s = mut()
        s["is_multipart"] = False
        s.pop("body", None)
        s["body_multipart"] = [{"body": "x", "content_type": "text/plain"}]
        out.append(("email:not-multipart-with-body_multipart", oo))
    elif name == "network-traffic-active":
        oo, s = mut()
        s["start"] = "2020-01-01T00:00:00Z"
        s["end"] = "2020-01-02T00:00:00Z"
        s["is_active"] = True
        out.append(("network-traffic:active-with-end", oo))
    elif name in ("some-property", "process-some-property"):
        oo, s = mut()
        keep = {"type", "id", "spec_version"}
        for n in list(s):
            if n not in keep:
                del s[n]
        if path:
            out.append(("empty-object", oo))
        else:
            out.append(("no-properties", oo))
    elif name == "socket-options":
        oo, s = mut()
        s["options"] = {"SO_REUSEADDR": True}
        out.append(("socket:option-bool", oo))
        oo, s = mut()
        s["options"] = {"SO_REUSEADDR": "1"}
        out.append(("socket:option-string", oo))
        oo, s = mut()
        s["options"] = {"BAD_PREFIX": 1}
        out.append(("socket:option-bad-key", oo))
        oo, s = mut()
        s["options"] = {"SO_REUSEADDR": 1.5}
        out.append(("socket:option-float", oo))
    elif name == "file-encryption-20":
        oo, s = mut()
        s["is_encrypted"] = False
        s["encryption_algorithm"] = "AES128-CBC"
        out.append(("file:algorithm-without-is_encrypted", oo))
        oo, s = mut()
        s.pop("is_encrypted", None)
        s["decryption_key"] = "k"
        out.append(("file:key-without-is_encrypted", oo))
    elif name == "stix-pattern-valid":
        oo, s = mut()
        s["pattern"] = "[file:name = ]"
        if version == "2.1":
            s["pattern_type"] = "stix"
            s.pop("pattern_version", None)
        out.append(("pattern:invalid-stix", oo))
    return out


def corruptions(version, o, two_point_rng=None):
    """Yield (label, mutated object).  label = '<section>:<property kind>:<corruption>' plus a path."""
    m = M.model(version)
    sl, objects = slots(version, o)
    for s in sl:
        v = get(o, s.path)
        pname = ".".join(str(p) for p in s.path)
        base = "%s|%s|" % (s.section, s.kind["k"])
        if s.required and s.section != "element":
            oo = copy.deepcopy(o)
            delp(oo, s.path)
            yield base + "remove-required", pname, oo
        for jn, j in zip(JUNK_NAMES, JUNK):
            if type(j) is type(v) and j == v:
                continue
            oo = copy.deepcopy(o)
            setp(oo, s.path, copy.deepcopy(j))
            yield base + "kind:" + jn, pname, oo
        for lab, nv in kind_specific(version, s, v, m):
            oo = copy.deepcopy(o)
            setp(oo, s.path, nv)
            yield base + lab, pname, oo
    # unknown property in every object; empty object in place of every nested object
    for path, tbl, section in objects:
        oo = copy.deepcopy(o)
        get(oo, path)["foo_unknown_property"] = "x"
        yield section + "|object|unknown-property", ".".join(str(p) for p in path), oo
        oo = copy.deepcopy(o)
        get(oo, path)["x_custom_property"] = 1
        yield section + "|object|custom-property", ".".join(str(p) for p in path), oo
        # content keys which the class takes for instructions when content is handed to it as keyword arguments
        for lab, key, val in (("custom-property-wrapped", "custom_properties", {"x_wrapped": 1}),
                              ("unknown-extension-wrapped", "custom_properties", {"extensions": {"x-not-registered-ext": {"a": 1}}}),
                              ("empty-wrapper", "custom_properties", {}), ("valid-refs-key", "_valid_refs", {"*": "*"})):
            oo = copy.deepcopy(o)
            get(oo, path)[key] = val
            yield section + "|object|constructor-argument:" + lab, ".".join(str(p) for p in path), oo
        # ... joined with what the instruction would buy: an identifier only interoperability mode admits, in the same (embedded) object
        host = get(o, path)
        if path and isinstance(host, dict):
            for rk, rv in list(host.items()):
                if isinstance(rv, str) and rk.endswith("_ref") and "--" in rv:
                    oo = copy.deepcopy(o)
                    get(oo, path)[rk] = rv.split("--", 1)[0] + "--00000000-0000-0000-0000-000000000000"
                    get(oo, path)["interoperability"] = True
                    yield section + "|object|constructor-argument:interoperability-key-with-relaxed-identifier", ".".join(str(p) for p in path + (rk,)), oo
                    break
        if path:
            oo = copy.deepcopy(o)
            setp(oo, path, {})
            yield section + "|object|empty-object", ".".join(str(p) for p in path), oo
        if version == "2.1" and "extensions" in tbl["by_name"] and isinstance(get(o, path), dict) and "extensions" not in get(o, path):
            for lab, val in EXT_JUNK:
                oo = copy.deepcopy(o)
                get(oo, path)["extensions"] = {EDEF: val}
                yield section + "|extensions|extension:unregistered-definition-value-" + lab, ".".join(str(p) for p in path + ("extensions",)), oo
    if o.get("type") == "bundle" and isinstance(o.get("objects"), list):
        # a STIX 2.0 cyber observable (no id; it only exists inside observed-data) as a bundle member
        for pos in (0, len(o["objects"])):
            oo = copy.deepcopy(o)
            oo["objects"].insert(pos, {"type": "file", "name": "member-without-id.txt"})
            yield "member|object|observable-without-id-as-member", "objects.%d" % pos, oo
        if version == "2.0":
            # a STIX 2.1 cyber observable: it carries no spec_version, but it is 2.1 content all the same
            oo = copy.deepcopy(o)
            oo["objects"].append({"type": "file", "id": "file--5b3b0b3c-0a4e-4f0f-9c57-0d7f7a1b2c10", "name": "a-2.1-object.txt"})
            yield "member|object|sco-of-2.1-as-member-of-2.0-bundle", "objects.%d" % (len(oo["objects"]) - 1), oo
    if version == "2.0" and o.get("type") == "observed-data" and isinstance(o.get("objects"), dict):
        # any string may be the key of a contained object -- also one the library uses as a marker of its own -- and the
        # references of the other members are bound to the keys that exist all the same
        for star in ("*", "**", "* "):
            oo = copy.deepcopy(o)
            oo["objects"][star] = {"type": "file", "name": "keyed-with-a-star"}
            oo["objects"]["stixmon-dangling"] = {"type": "directory", "path": "/tmp", "contains_refs": ["no-such-key"]}
            yield "container|objects|object-key-%r-beside-a-dangling-reference" % star, "objects", oo
    for lab, oo in constraint_breaks(version, o, objects):
        yield lab.replace(":", "|", 1) + "|co-constraint", "", oo
    if two_point_rng is not None:
        singles = []
        for s in sl:
            v = get(o, s.path)
            for lab, nv in kind_specific(version, s, v, m):
                singles.append((s, lab, nv))
        for _ in range(min(60, len(singles))):
            (s1, l1, v1), (s2, l2, v2) = two_point_rng.sample(singles, 2) if len(singles) >= 2 else (singles[0], singles[0])
            if s1.path == s2.path or s1.path[:len(s2.path)] == s2.path or s2.path[:len(s1.path)] == s1.path:
                continue
            oo = copy.deepcopy(o)
            setp(oo, s1.path, v1)
            setp(oo, s2.path, v2)
            yield "two-point|%s+%s" % (l1, l2), "%s & %s" % (".".join(map(str, s1.path)), ".".join(map(str, s2.path))), oo
