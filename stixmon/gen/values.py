"""Hostile value pools and primitive generators (all seeded, all JSON-serialisable)."""
import base64

from ..oracles import ts as tsor

STRINGS_PLAIN = ["a", "abc", "Example Corp", "foo bar", "x-y_z", "name", "42", "true", "null"]
STRINGS_HOSTILE = [
    "\u0000", "a\u0000b", "\u0001\u001f", "\u007f", "tab\there", "line\nbreak", "cr\rlf\n", "\"quoted\"", "back\\slash",
    "\\\"", "'single'", "/slash/", "<tag>&amp;", "  ", "éüñ", "€", "￿", "�",
    "\U00010000", "\U0001f600 emoji", "\U0010ffff", "‮RTL", "﻿BOM", " leading", "trailing ", "  ", "%s %d {0}",
    "{\"json\": [1]}", "[*]", "--", "a" * 300, "абв", "中文", "é", "1e5", "0x10", "-0", "NaN",
    "2020-01-01T00:00:00Z", "identity--00000000-0000-4000-8000-000000000000", " ", "\u0085", "\t", "\n",
]
INTS_54 = [0, 1, -1, 2, 10, 255, 256, 65535, 65536, 2 ** 31 - 1, 2 ** 31, -2 ** 31, 2 ** 32, 2 ** 53 - 1, -(2 ** 53) + 1,
           999999999, 1000000000, 123456789]
INTS_HUGE = [2 ** 53, 2 ** 53 + 1, 2 ** 63 - 1, 2 ** 63, 2 ** 64 + 1, -2 ** 63 - 1, 10 ** 30]
FLOATS = [0.0, -0.0, 0.1, 0.5, 1.0, -1.0, 1 / 3, 2.5, 1e21, 1e-7, 5e-324, 1.7976931348623157e308, 123456.789, 1e16, 1e15,
          0.000001, 3.141592653589793, 100.0, 1e22, -1e-10, 4.35, 89.99999999999999]
US_PATTERNS = [0, 1, 10, 100, 999, 1000, 1001, 10000, 100000, 120000, 123000, 123400, 123450, 123456, 500000, 999000, 999999]


def string(rng, hostile=True, allow_empty=False):
    r = rng.random()
    if allow_empty and r < 0.03:
        return ""
    if not hostile or r < 0.45:
        return rng.choice(STRINGS_PLAIN) + (str(rng.randrange(1000)) if rng.random() < 0.5 else "")
    if r < 0.9:
        return rng.choice(STRINGS_HOSTILE)
    return "".join(rng.choice(STRINGS_HOSTILE + STRINGS_PLAIN) for _ in range(rng.randrange(2, 5)))


# beyond what a double carries exactly, within the signed 64-bit integer type of STIX 2.0
INTS_63 = [2 ** 53, 2 ** 53 + 1, 2 ** 62 + 1, 2 ** 63 - 1, -(2 ** 63) + 1, 9007199254740993, 1234567890123456789]


def integer(rng, lo=None, hi=None, huge=False):
    if huge == "63":
        if lo is None and hi is None:
            return rng.choice(INTS_54 + INTS_63) if rng.random() < 0.8 else rng.randrange(-10 ** 6, 10 ** 6)
        if hi is None and rng.random() < 0.4:
            return rng.choice([v for v in INTS_63 if lo is None or v >= lo])
        huge = False
    if lo is None and hi is None:
        pool = INTS_54 + (INTS_HUGE if huge else [])
        return rng.choice(pool) if rng.random() < 0.7 else rng.randrange(-10 ** 6, 10 ** 6)
    lo_ = lo if lo is not None else -(2 ** 53) + 1
    hi_ = hi if hi is not None else 2 ** 53 - 1
    if huge and hi is None:
        hi_ = 2 ** 70
    r = rng.random()
    if r < 0.2:
        return lo_
    if r < 0.4:
        return hi_
    if r < 0.5:
        return min(hi_, lo_ + 1)
    if r < 0.6:
        return max(lo_, hi_ - 1)
    cands = [v for v in INTS_54 if lo_ <= v <= hi_]
    if cands and r < 0.8:
        return rng.choice(cands)
    return rng.randrange(lo_, min(hi_, lo_ + 10 ** 9) + 1)


def floating(rng, lo=None, hi=None):
    if lo is None and hi is None:
        return rng.choice(FLOATS) if rng.random() < 0.7 else rng.uniform(-1e6, 1e6)
    lo_ = lo if lo is not None else -1e9
    hi_ = hi if hi is not None else 1e9
    r = rng.random()
    if r < 0.15:
        return float(lo_)
    if r < 0.3:
        return float(hi_)
    cands = [v for v in FLOATS if lo_ <= v <= hi_]
    if cands and r < 0.6:
        return rng.choice(cands)
    return rng.uniform(lo_, hi_)


def instant_us(rng, lo_year=1970, hi_year=2100):
    y = rng.randrange(lo_year, hi_year + 1)
    days = tsor.days_from_civil(y, 1, 1) + rng.randrange(0, 365)
    secs = days * 86400 + rng.randrange(86400)
    us = rng.choice(US_PATTERNS) if rng.random() < 0.6 else rng.randrange(1000000)
    return secs * 1000000 + us


def ts_text(rng, us, precision, constraint, max_digits=9):
    """Specification-valid text for instant `us` under the property's precision rule.
    Returns (text, instant_us_denoted): digits beyond microseconds may be appended."""
    precision, constraint = precision.lower(), constraint.lower()
    if precision == "second" and constraint == "exact":
        us -= us % 1000000
        return tsor.format_us(us, "second", "exact"), us
    if precision == "millisecond" and constraint == "exact":
        us -= us % 1000
        return tsor.format_us(us, "millisecond", "exact"), us
    need = 3 if precision == "millisecond" else 0
    base = tsor.format_us(us - us % 1000000, "second", "exact")[:-1]
    f6 = "%06d" % (us % 1000000)
    r = rng.random()
    if r < 0.45:
        nd = max(need, len(f6.rstrip("0")))         # shortest faithful spelling
    elif r < 0.75:
        nd = rng.randrange(max(need, len(f6.rstrip("0"))), 7)   # padded with zeros up to 6 digits
    else:
        nd = rng.randrange(7, max_digits + 1) if max_digits > 6 else 6
    if nd == 0:
        return base + "Z", us
    if nd <= 6:
        return base + "." + f6[:nd] + "Z", us
    extra = "".join(rng.choice("0123456789") for _ in range(nd - 6))
    return base + "." + f6 + extra + "Z", us


def hexstr(rng):
    n = rng.choice([1, 1, 2, 4, 8, 16])
    s = "".join(rng.choice("0123456789abcdefABCDEF") for _ in range(2 * n))
    return s


def b64(rng):
    n = rng.choice([0, 1, 2, 3, 4, 16, 57])
    raw = bytes(rng.randrange(256) for _ in range(n))
    return base64.b64encode(raw).decode("ascii") if n else "AA=="


def uuid_text(rng, version=4):
    b = bytearray(rng.getrandbits(8) for _ in range(16))
    b[6] = (b[6] & 0x0F) | (version << 4)
    b[8] = (b[8] & 0x3F) | 0x80
    h = bytes(b).hex()
    return "%s-%s-%s-%s-%s" % (h[:8], h[8:12], h[12:16], h[16:20], h[20:])


def stix_id(rng, type_name, spec_version):
    v = 4 if spec_version == "2.0" or rng.random() < 0.7 else rng.choice([1, 3, 4, 5])
    return "%s--%s" % (type_name, uuid_text(rng, v))


def hash_value(rng, name):
    from ..spec.model import HASH_HEX_LEN
    up = name.upper()
    if up == "SSDEEP":
        return "%d:%s:%s" % (rng.choice([3, 6, 96, 1536]), "".join(rng.choice("ABCDEFabcdef0123+/") for _ in range(rng.randrange(3, 20))),
                             "".join(rng.choice("ABCDEFabcdef0123+/") for _ in range(rng.randrange(3, 12))))
    n = HASH_HEX_LEN.get(name, HASH_HEX_LEN.get(up, 32))
    digits = "0123456789abcdef" if rng.random() < 0.8 else "0123456789ABCDEF"
    return ("T1" if up == "TLSH" and rng.random() < 0.5 else "") + "".join(rng.choice(digits) for _ in range(n))
