"""Python-native presentation of a generated JSON object: constructor kwargs with datetime objects
in assorted UTC offsets (same instants), as the library's constructors document."""
import datetime as dt

from ..oracles import ts as tsor
from ..spec import model as M

ORIGIN = dt.datetime(1, 1, 1)


def dt_from_text(text, rng, kind=None, over_precise=False, foreign_meta=False):
    us = tsor.text_us(text)
    if us is None:
        return text
    if over_precise and kind is not None and kind.get("constraint") == "exact" and kind.get("precision") in ("millisecond", "second") \
            and rng.random() < 0.6:
        # a value more precise than the slot keeps: the constructor truncates it, and the round trip must still hold
        unit = 1000 if kind["precision"] == "millisecond" else 1000000
        us = us - us % unit + rng.randrange(1, unit)
    p = tsor.parse_text(text)
    if p[2] > 6:
        return text          # sub-microsecond digits cannot be carried by datetime
    naive = ORIGIN + dt.timedelta(microseconds=us)
    if us % (86400 * 10 ** 6) == 0 and rng.random() < 0.5:
        return naive.date()                            # a date means midnight UTC
    if (over_precise or foreign_meta) and rng.random() < 0.35:
        # the library's own timestamp class, carrying precision metadata from wherever it was taken (another object's property)
        import stix2.utils as U
        p, c = rng.choice([("any", "exact"), ("millisecond", "min"), ("millisecond", "exact"), ("second", "min"), ("second", "exact")])
        import pytz
        # (library-made timestamps carry pytz.utc; some carry datetime.timezone.utc when the caller supplied it)
        # (... or none at all: a naive value means UTC, whatever class carries it)
        return U.STIXdatetime(naive.replace(tzinfo=rng.choice([pytz.utc, pytz.utc, dt.timezone.utc, None])), precision=U.Precision[p.upper()],
                              precision_constraint=U.PrecisionConstraint[c.upper()])
    r = rng.random()
    if r < 0.3:
        return naive.replace(tzinfo=dt.timezone.utc)
    if r < 0.4:
        return naive                                   # naive = UTC by the library's documented convention
    minutes = rng.randrange(-48, 49) * 15
    tz = dt.timezone(dt.timedelta(minutes=minutes))
    try:
        return (naive.replace(tzinfo=dt.timezone.utc)).astimezone(tz)
    except OverflowError:
        return naive.replace(tzinfo=dt.timezone.utc)


def native_kind(m, kind, v, rng, over_precise=False, foreign_meta=False):
    if kind is None:
        return v
    k = kind["k"]
    if k == "ts" and isinstance(v, str):
        return dt_from_text(v, rng, kind, over_precise, foreign_meta)
    if k == "binary" and isinstance(v, str) and rng.random() < 0.5:
        # base64 text as Python programs usually have it: the bytes base64.b64encode() returned
        try:
            return v.encode("ascii") if rng.random() < 0.8 else bytearray(v.encode("ascii"))
        except UnicodeEncodeError:
            return v
    if k == "list" and isinstance(v, list):
        out = [native_kind(m, kind["of"], x, rng, over_precise, foreign_meta) for x in v]
        if len(out) == 1 and kind["of"]["k"] in ("string", "openvocab", "enum", "embedded", "ref") and rng.random() < 0.3 \
                and not isinstance(out[0], dict):
            return out[0]                              # a single string / object where a list is accepted
        return out
    if k == "embedded" and isinstance(v, dict):
        nv = native_table(m, m.embedded[kind["type"]], v, rng, over_precise, foreign_meta)
        if rng.random() < 0.5:
            import stix2
            mod = stix2.v20 if m.version == "2.0" else stix2.v21
            cls = getattr(mod, kind["type"], None)
            if cls is not None:
                try:
                    return cls(allow_custom=True, **nv)    # nested library object instead of a dictionary
                except Exception:
                    return nv
        return nv
    if k == "extensions" and isinstance(v, dict):
        return {key: (native_table(m, m.extensions[key], ext, rng) if key in m.extensions and isinstance(ext, dict) else ext)
                for key, ext in v.items()}
    if k == "observables" and isinstance(v, dict):
        return {key: (native_table(m, m.types[o["type"]], o, rng) if isinstance(o, dict) and o.get("type") in m.types else o)
                for key, o in v.items()}
    return v


def native_table(m, tbl, o, rng, over_precise=False, foreign_meta=False):
    by = tbl["by_name"]
    return {n: native_kind(m, by.get(n), v, rng, over_precise, foreign_meta) for n, v in o.items()}


def to_native(version, o, rng, over_precise=False, foreign_meta=False):
    m = M.model(version)
    tbl = m.types.get(o.get("type"))
    if tbl is None:
        return dict(o)
    if o.get("type") == "bundle":
        return dict(o)
    return native_table(m, tbl, o, rng, over_precise, foreign_meta)
