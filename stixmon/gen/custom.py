"""Harness-registered custom types (object, observable, extension, marking; both versions) and
JSON instances of them.  Registration happens once per worker process through the public
decorators; names are prefixed x-stixmon- so they never collide with anything else."""
from . import values as V

_done = {}
TOPLEVEL_A = "extension-definition--5b3b0b3c-0a4e-4f0f-9c57-0d7f7a1b2c03"
TOPLEVEL_B = "extension-definition--5b3b0b3c-0a4e-4f0f-9c57-0d7f7a1b2c04"
TOPLEVEL_UNREGISTERED = "extension-definition--5b3b0b3c-0a4e-4f0f-9c57-0d7f7a1b2cff"


_refused_done = []
LEFT_BEHIND = []


def refused_registrations():
    """History every worker of the input-judging checks starts with: registrations which the library (rightly) refuses -- names
    that are taken, in the same or in the other 2.1 category, for built-in types, markings and extensions of both versions.  A
    refusal leaves nothing behind; the checks then judge ordinary content of those very types.  Returns how many were attempted."""
    if _refused_done:
        return _refused_done[0]
    import warnings
    import stix2
    from stix2 import properties as P
    n = 0
    before = registry_keys()
    objs = ["identity", "indicator", "relationship", "marking-definition", "observed-data", "report"]
    scos = ["file", "url", "ipv4-addr", "domain-name", "network-traffic"]
    for mod, ver in ((stix2.v21, "2.1"), (stix2.v20, "2.0")):
        # (2.1 objects and observables share one namespace of type names; 2.0 keeps them apart, so only names of the same
        # category are taken there)
        for dec, names, extra in ((mod.CustomObject, objs + (scos if ver == "2.1" else []), ()),
                                  (mod.CustomObservable, scos + (objs[:4] + ["sighting"] if ver == "2.1" else []), ()),
                                  (mod.CustomMarking, ["tlp", "statement"], ()), (mod.CustomExtension, ["ntfs-ext", "archive-ext", "tcp-ext", "socket-ext"], ())):
            for name in names:
                n += 1
                try:
                    with warnings.catch_warnings():
                        warnings.simplefilter("ignore")
                        dec(name, [("prop_one", P.StringProperty())])(type("Refused", (object,), {}))
                except Exception:
                    pass
    # (on the tree as it is every one of them is refused and the registries are what they were -- checked when this list was
    # written, and by C17 / C19 on every run; if a refusal does leave something behind, the workloads judge ordinary content
    # against that registry, which is the point)
    LEFT_BEHIND[:] = sorted(k[:3] for k in registry_keys() - before)
    _refused_done.append(n)
    return n


def registry_keys():
    from stix2 import registry
    return {(v, cat, name, id(cls)) for v, cats in registry.STIX2_OBJ_MAPS.items() for cat, mp in cats.items() for name, cls in mp.items()}


def ensure_registered():
    if _done:
        return _done
    import stix2
    from stix2 import properties as P

    @stix2.v21.CustomObject("x-stixmon-widget", [
        ("name", P.StringProperty(required=True)), ("size", P.IntegerProperty()), ("seen", P.TimestampProperty()),
        ("tags", P.ListProperty(P.StringProperty)), ("ratio", P.FloatProperty()), ("enabled", P.BooleanProperty()),
        ("x_extra", P.StringProperty())])
    class Widget21(object):
        pass

    @stix2.v21.CustomObservable("x-stixmon-sensor", [
        ("address", P.StringProperty(required=True)), ("port", P.IntegerProperty(min=0, max=65535)), ("seen", P.TimestampProperty()),
        ("ratio", P.FloatProperty()), ("peer_ref", P.ReferenceProperty(valid_types="ipv4-addr", spec_version="2.1"))],
        id_contrib_props=["address", "port", "ratio", "seen"])
    class Sensor21(object):
        pass

    @stix2.v21.CustomObservable("x-stixmon-stamp", [("stamped", P.TimestampProperty(precision="millisecond")), ("stamped_s", P.TimestampProperty(precision="second"))],
                                id_contrib_props=["stamped", "stamped_s"])
    class Stamp21(object):
        pass

    @stix2.v21.CustomObservable("x-stixmon-anon", [("label", P.StringProperty())])
    class Anon21(object):
        pass

    @stix2.v21.CustomExtension("x-stixmon-ext", [("level", P.IntegerProperty(required=True)), ("note", P.StringProperty()),
                                                 ("seen_at", P.TimestampProperty())])
    class Ext21(object):
        pass

    # a custom object / observable that declares itself through a new-object extension (extension_name=)
    @stix2.v21.CustomObject("x-stixmon-gadget", [("name", P.StringProperty(required=True)), ("x_zed", P.StringProperty()), ("weight", P.IntegerProperty())],
                            extension_name="extension-definition--5b3b0b3c-0a4e-4f0f-9c57-0d7f7a1b2c01")
    class Gadget21(object):
        pass

    @stix2.v21.CustomObservable("x-stixmon-probe", [("address", P.StringProperty(required=True)), ("x_note", P.StringProperty())], id_contrib_props=["address", "extensions"],
                                extension_name="extension-definition--5b3b0b3c-0a4e-4f0f-9c57-0d7f7a1b2c02")
    class Probe21(object):
        pass

    # toplevel-property extensions: their properties sit at the top level of the extended object
    @stix2.v21.CustomExtension(TOPLEVEL_A, [("rank", P.IntegerProperty()), ("seen_at", P.TimestampProperty()),
                                            ("aliases", P.ListProperty(P.StringProperty))])
    class TopA21(object):
        extension_type = "toplevel-property-extension"

    @stix2.v21.CustomExtension(TOPLEVEL_B, [("grade", P.IntegerProperty(min=0, max=10)), ("graded_by", P.StringProperty())])
    class TopB21(object):
        extension_type = "toplevel-property-extension"

    # an extension whose every property is optional with a default: written without its defaults it is an empty object
    @stix2.v21.CustomExtension("x-stixmon-flags-ext", [("verified", P.BooleanProperty(default=lambda: False)), ("rank", P.IntegerProperty(default=lambda: 0)),
                                                       ("remark", P.StringProperty())])
    class Flags21(object):
        pass

    @stix2.v21.CustomMarking("x-stixmon-marking", [("classification", P.StringProperty(required=True)), ("rank", P.IntegerProperty())])
    class Marking21(object):
        pass

    @stix2.v20.CustomObject("x-stixmon-widget", [
        ("name", P.StringProperty(required=True)), ("size", P.IntegerProperty()), ("seen", P.TimestampProperty()),
        ("tags", P.ListProperty(P.StringProperty)), ("ratio", P.FloatProperty()), ("enabled", P.BooleanProperty())])
    class Widget20(object):
        pass

    @stix2.v20.CustomObservable("x-stixmon-sensor", [
        ("address", P.StringProperty(required=True)), ("port", P.IntegerProperty(min=0, max=65535)), ("seen", P.TimestampProperty()),
        ("peer_ref", P.ObjectReferenceProperty(valid_types="ipv4-addr"))])
    class Sensor20(object):
        pass

    @stix2.v20.CustomExtension("x-stixmon-ext", [("level", P.IntegerProperty(required=True)), ("note", P.StringProperty())])
    class Ext20(object):
        pass

    @stix2.v20.CustomMarking("x-stixmon-marking", [("classification", P.StringProperty(required=True)), ("rank", P.IntegerProperty())])
    class Marking20(object):
        pass

    _done.update({
        ("2.1", "toplevel-a"): TopA21, ("2.1", "toplevel-b"): TopB21, ("2.1", "gadget"): Gadget21, ("2.1", "probe"): Probe21,
        ("2.1", "stamp"): Stamp21, ("2.1", "object"): Widget21, ("2.1", "observable"): Sensor21, ("2.1", "observable-noid"): Anon21, ("2.1", "extension"): Ext21,
        ("2.1", "marking"): Marking21, ("2.0", "object"): Widget20, ("2.0", "observable"): Sensor20, ("2.0", "extension"): Ext20,
        ("2.0", "marking"): Marking20,
    })
    return _done


def widget(g, profile="random"):
    rng = g.rng
    o = {"type": "x-stixmon-widget"}
    if g.version == "2.1":
        o["spec_version"] = "2.1"
    o["id"] = g.new_id("x-stixmon-widget")
    us = V.instant_us(rng)
    kind = {"precision": "millisecond", "constraint": "min" if g.version == "2.1" else "exact"}
    o["created"] = V.ts_text(rng, us, kind["precision"], kind["constraint"], 6)[0]
    o["modified"] = V.ts_text(rng, us + rng.choice([0, 1000, 10 ** 9]), kind["precision"], kind["constraint"], 6)[0]
    o["name"] = V.string(rng, g.hostile) or "w"
    if profile != "min":
        if rng.random() < 0.7:
            o["size"] = V.integer(rng, None, None, g.huge_ints)
        if rng.random() < 0.7:
            o["seen"] = g.ts_value({"precision": "any", "constraint": "exact"})
        if rng.random() < 0.7:
            o["tags"] = [V.string(rng, g.hostile) for _ in range(rng.choice([1, 2, 3]))]
        if rng.random() < 0.7:
            o["ratio"] = V.floating(rng)
        if rng.random() < 0.7:
            o["enabled"] = rng.random() < 0.5
        if rng.random() < 0.5:
            o["labels"] = ["l1", V.string(rng, g.hostile)]
        if g.version == "2.1" and rng.random() < 0.5:
            o["x_extra"] = V.string(rng, g.hostile)
    return o


def gadget21(g):
    """JSON of the custom object declared with extension_name= (the extension entry is part of its JSON form)"""
    rng = g.rng
    o = {"type": "x-stixmon-gadget", "spec_version": "2.1", "id": g.new_id("x-stixmon-gadget"), "created": "2020-01-01T00:00:00.000Z",
         "modified": "2020-01-01T00:00:00.000Z", "name": V.string(rng, g.hostile) or "g"}
    if rng.random() < 0.7:
        o["x_zed"] = V.string(rng, g.hostile)
    if rng.random() < 0.5:
        o["weight"] = V.integer(rng, 0, 1000)
    if rng.random() < 0.7:
        o["extensions"] = {"extension-definition--5b3b0b3c-0a4e-4f0f-9c57-0d7f7a1b2c01": {"extension_type": "new-sdo"}}
    return o


def probe21(g, with_id=False):
    rng = g.rng
    o = {"type": "x-stixmon-probe", "spec_version": "2.1", "address": V.string(rng, False) or "a"}
    if with_id:
        o["id"] = g.new_id("x-stixmon-probe")
    if rng.random() < 0.6:
        o["x_note"] = V.string(rng, g.hostile)
    if rng.random() < 0.5:
        o["extensions"] = {"extension-definition--5b3b0b3c-0a4e-4f0f-9c57-0d7f7a1b2c02": {"extension_type": "new-sco"}}
    return o


def sensor21(g, profile="random", with_id=True):
    rng = g.rng
    o = {"type": "x-stixmon-sensor", "spec_version": "2.1"}
    if with_id:
        o["id"] = g.new_id("x-stixmon-sensor")
    o["address"] = V.string(rng, g.hostile) or "a"
    if profile != "min":
        if rng.random() < 0.7:
            o["port"] = V.integer(rng, 0, 65535)
        if rng.random() < 0.6:
            o["seen"] = g.ts_value({"precision": "any", "constraint": "exact"})
        if rng.random() < 0.6:
            o["ratio"] = V.floating(rng)
        if rng.random() < 0.5:
            o["peer_ref"] = g.new_id("ipv4-addr")
        if rng.random() < 0.4:
            o["defanged"] = True
    return o


def marking_definition(g):
    rng = g.rng
    o = {"type": "marking-definition"}
    if g.version == "2.1":
        o["spec_version"] = "2.1"
    o["id"] = g.new_id("marking-definition")
    o["created"] = V.ts_text(rng, V.instant_us(rng), "millisecond", "min" if g.version == "2.1" else "exact", 6)[0]
    o["definition_type"] = "x-stixmon-marking"
    o["definition"] = {"classification": V.string(rng, g.hostile) or "c"}
    if rng.random() < 0.5:
        o["definition"]["rank"] = V.integer(rng, 0, 9)
    return o


def file_with_ext(g):
    rng = g.rng
    if g.version == "2.0":
        raise KeyError("2.0 files exist only in containers")
    o = g.make("file", "random", granular=False)
    ext = dict(o.get("extensions", {}))
    ext["x-stixmon-ext"] = {"level": V.integer(rng, 0, 100)}
    if rng.random() < 0.5:
        ext["x-stixmon-ext"]["note"] = V.string(rng, g.hostile)
    if rng.random() < 0.5:
        ext["x-stixmon-ext"]["seen_at"] = g.ts_value({"precision": "any", "constraint": "exact"})
    if rng.random() < 0.4:
        ensure_registered()
        # only default values (or nothing at all): the compact form of this extension is {}
        ext["x-stixmon-flags-ext"] = rng.choice([{"verified": False}, {"verified": False, "rank": 0}, {"rank": 0}, {"verified": True}, {"remark": "r", "rank": 0}])
    o["extensions"] = ext
    return o


def observed20_with_sensor(g):
    od = g.make("observed-data", "min", granular=False)
    od["objects"] = {"0": {"type": "x-stixmon-sensor", "address": V.string(g.rng, g.hostile) or "a", "port": 80, "peer_ref": "1"},
                     "1": {"type": "ipv4-addr", "value": "198.51.100.3"},
                     "2": {"type": "file", "name": "f", "extensions": {"x-stixmon-ext": {"level": 3}}}}
    return od


def toplevel21(g, which="a"):
    """JSON of an identity extended by registered toplevel-property extension(s): 'a', 'b', 'ab' (a first), 'ba', or 'u' (an unregistered one)"""
    rng = g.rng
    o = g.make("identity", "random", granular=False)
    ext = dict(o.get("extensions", {}))
    for w in which:
        ext[{"a": TOPLEVEL_A, "b": TOPLEVEL_B, "u": TOPLEVEL_UNREGISTERED}[w]] = {"extension_type": "toplevel-property-extension"}
        if w == "a":
            if rng.random() < 0.8:
                o["rank"] = V.integer(rng, 0, 1000)
            if rng.random() < 0.6:
                o["seen_at"] = g.ts_value({"precision": "any", "constraint": "exact"})
            if rng.random() < 0.6:
                o["aliases"] = [V.string(rng, False) or "al" for _ in range(rng.choice([1, 2]))]
        elif w == "b":
            o["grade"] = rng.randrange(0, 11)
            if rng.random() < 0.5:
                o["graded_by"] = V.string(rng, False) or "g"
        else:
            o["zone"] = rng.choice(["z", 5, ["a"], {"k": "v"}])
            if rng.random() < 0.5:
                o["area"] = rng.randrange(100)
    o["extensions"] = ext
    return o
