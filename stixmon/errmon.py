"""Monitor of the library's error objects: every instance of the library's error family created while a case runs is kept, and when
the case is over each one is asked for str() and repr().  An error that cannot be printed (its __str__ raises, e.g. because it was
built with an instance where its message expects a class) reaches the caller as an internal failure of another kind the moment it
is logged or shown -- the report itself must stay inside the family.  Installed from outside, by giving STIXError a __new__ that
remembers the instance; nothing in the repository is edited."""
MAX_PER_CASE = 300


class ErrorMonitor:
    def __init__(self):
        self.seen = []
        self.installed = False
        self.created = 0

    def install(self):
        try:
            import stix2.exceptions as X
            mon = self

            def remember(cls, *a, **k):
                inst = Exception.__new__(cls)
                mon.created += 1
                if len(mon.seen) < MAX_PER_CASE:
                    mon.seen.append(inst)
                return inst
            X.STIXError.__new__ = staticmethod(remember)
            self.installed = True
        except Exception:
            self.installed = False

    def end_of_case(self, ctx):
        seen, self.seen = self.seen, []
        for inst in seen:
            ctx.count("error_objects_printed")
            for how, fn in (("str", str), ("repr", repr)):
                try:
                    fn(inst)
                except Exception as e:
                    ctx.violation("error-not-printable:%s" % type(inst).__name__, "%s() of a %s raised by the library raises %s: %s" % (how, type(inst).__name__, type(e).__name__, str(e)[:120]),
                                  {"error_class": type(inst).__name__, "how": how, "raises": repr(e)[:200], "args": repr(getattr(inst, "args", None))[:300]})
                    break
