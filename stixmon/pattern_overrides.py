"""Override classes for create_pattern_object(pattern, module_suffix="Stixmon", module_name="stixmon.pattern_overrides"): a caller's own
node classes, used by C10's histories.  Each prints in a way no STIX pattern is written, so a later ordinary call that is built from
them by mistake (overrides that outlive the call which asked for them) cannot go unnoticed."""
from stix2.patterns import EqualityComparisonExpression, GreaterThanComparisonExpression, StringConstant


class EqualityComparisonExpressionForStixmon(EqualityComparisonExpression):
    def __str__(self):
        return "<<stixmon-override %s>>" % EqualityComparisonExpression.__str__(self)


class GreaterThanComparisonExpressionForStixmon(GreaterThanComparisonExpression):
    def __str__(self):
        return "<<stixmon-override %s>>" % GreaterThanComparisonExpression.__str__(self)


class StringConstantForStixmon(StringConstant):
    def __str__(self):
        return "<<stixmon-override-string %s>>" % StringConstant.__str__(self)
