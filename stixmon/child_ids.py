"""Child interpreter for C06: read JSON objects (one per line) on stdin, construct each through parse() and through
the class constructor with shuffled keyword order, print the resulting ids.  Run with a different PYTHONHASHSEED."""
import json
import random
import sys
import warnings

from stixmon import import_stix2

stix2 = import_stix2()
from stixmon.gen import custom  # noqa: E402

custom.ensure_registered()
warnings.simplefilter("ignore")
rng = random.Random(int(sys.argv[1]) if len(sys.argv) > 1 else 0)
for line in sys.stdin:
    o = json.loads(line)
    out = {}
    try:
        out["parse"] = stix2.parse(o, allow_custom=True)["id"]
    except Exception as e:
        out["parse"] = "ERR " + type(e).__name__
    try:
        cls = stix2.registry.class_for_type(o["type"], "2.1", "observables")
        items = list(o.items())
        rng.shuffle(items)
        out["ctor"] = cls(allow_custom=True, **dict(items))["id"]
    except Exception as e:
        out["ctor"] = "ERR " + type(e).__name__
    print(json.dumps(out))
