"""Child interpreter for C06: read JSON objects (one per line) on stdin, construct each through parse() and through
the class constructor with shuffled keyword order, print the resulting ids.  Run with a different PYTHONHASHSEED."""
import json
import random
import sys
import warnings

from stixmon import import_stix2

stix2 = import_stix2()
from stixmon.gen import custom  # noqa: E402

custom.ensure_registered()
warnings.simplefilter("ignore")
rng = random.Random(int(sys.argv[1]) if len(sys.argv) > 1 else 0)
for line in sys.stdin:
    o = json.loads(line)
    out = {}
    try:
        out["parse"] = stix2.parse(o, allow_custom=True)["id"]
    except Exception as e:
        out["parse"] = "ERR " + type(e).__name__
    try:
        cls = stix2.registry.class_for_type(o["type"], "2.1", "observables")
        items = list(o.items())
        rng.shuffle(items)
        out["ctor"] = cls(allow_custom=True, **dict(items))["id"]
    except Exception as e:
        out["ctor"] = "ERR " + type(e).__name__
    # timestamps as naive datetime objects (= UTC by the library's documented convention, whatever zone this process runs in)
    try:
        import datetime as dt
        import re
        naive = {}
        from stixmon.spec import model as M
        tbl = M.model("2.1").types.get(o["type"], {}).get("by_name", {})
        for k, v in o.items():
            is_ts = tbl.get(k, {}).get("k") == "ts" or (o["type"].startswith("x-stixmon-") and k in ("seen", "stamped", "stamped_s"))
            m = None if not is_ts else re.match(r"^(\d{4})-(\d\d)-(\d\d)T(\d\d):(\d\d):(\d\d)(?:\.(\d{1,6}))?Z$", v) if isinstance(v, str) else None
            naive[k] = dt.datetime(*(int(x) for x in m.groups()[:6]), int((m.group(7) or "0").ljust(6, "0"))) if m and int(m.group(1)) >= 1 else v
        if any(isinstance(v, dt.datetime) for v in naive.values()):
            out["ctor-naive"] = cls(allow_custom=True, **naive)["id"]
    except Exception as e:
        out["ctor-naive"] = "ERR " + type(e).__name__
    print(json.dumps(out))
