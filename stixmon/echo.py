"""Echo monitor: answers must not depend on what the process did before.

While a check runs, a sample of the calls it makes to functions that are pure by their documentation (format_datetime,
parse_into_datetime, canonicalize, equivalent_patterns, create_pattern_object -> text, the confidence conversions) is recorded
together with what they answered (a fingerprint of the value, or the class of the exception).  When all shards are done, ONE fresh
interpreter repeats the recorded calls in the reverse order and the answers are compared.  A function whose answer for the same
arguments differs between the two processes is answering from its history (a memo keyed too coarsely, a table filled by whoever
came first, residue of a refused call), whatever the mechanism and without my knowing it in advance.

Recording side: install(functions) wraps module attributes (all bindings in loaded stix2 modules) and keeps at most PER_FUNCTION
calls per function per worker, spread over the run (every k-th call), arguments pickled at call time.  Replay side:
`python -m stixmon.echo <file>` prints one JSON list of answers."""
import hashlib
import json
import pickle
import re
import sys

PER_FUNCTION = 150
RECORDS = []
COUNTS = {}


def _answer(fn, args, kwargs):
    try:
        r = fn(*args, **kwargs)
    except Exception as e:
        return "raised:" + type(e).__name__
    try:
        if isinstance(r, bytes):
            text = r.hex()
        elif isinstance(r, (str, int, float, bool, type(None))):
            text = repr(r)
        elif hasattr(r, "isoformat"):
            text = "%s|%s|%s|%s|%s" % (r.isoformat(), getattr(r, "fold", 0), r.utcoffset(), getattr(r, "precision", None), getattr(r, "precision_constraint", None))
        else:
            text = str(r)
    except Exception as e:
        text = "unprintable:" + type(e).__name__
    text = re.sub(r"0x[0-9a-fA-F]{6,}", "0x", text)          # (default reprs carry addresses; they say nothing)
    return "value:" + hashlib.blake2b(text.encode("utf-8", "surrogatepass"), digest_size=8).hexdigest() + ":" + text[:80]


def _resolve(path):
    import importlib
    modname, attr = path.rsplit(":", 1)
    mod = importlib.import_module(modname)
    return mod, attr, getattr(mod, attr)


def _parsed(r):
    # class and text of what parse() returned (inputs of the enrolling check carry their ids and times: nothing is generated)
    if hasattr(r, "serialize"):
        text = "%s.%s %s" % (type(r).__module__, type(r).__name__, r.serialize(sort_keys=True))
    else:
        text = "%s %r" % (type(r).__name__, r)
    # (a 2.1 observable without identifier-contributing content gets a random identifier: version-4 UUIDs say nothing here)
    return re.sub(r"[0-9a-fA-F]{8}-[0-9a-fA-F]{4}-4[0-9a-fA-F]{3}-[89abAB][0-9a-fA-F]{3}-[0-9a-fA-F]{12}", "<uuid4>", text)


def _sorted_list(r):
    # (marking queries answer with lists built from sets: the order carries no meaning)
    return sorted(r, key=str) if isinstance(r, (list, tuple, set)) else r


POST = {"stix2.pattern_visitor:create_pattern_object": str, "stix2.parsing:parse": _parsed, "stix2.markings:get_markings": _sorted_list}


def install(paths):
    """paths: 'module:function' strings.  Wraps every binding of each function in the loaded stix2 modules."""
    for path in paths:
        try:
            mod, attr, orig = _resolve(path)
        except Exception:
            continue

        def make(path, orig):
            post = POST.get(path)

            def wrapper(*args, **kwargs):
                n = COUNTS[path] = COUNTS.get(path, 0) + 1
                take = len([1 for r in RECORDS if r[0] == path]) < PER_FUNCTION and (n < 40 or n % 7 == 0)
                blob = None
                if take:
                    try:
                        blob = pickle.dumps((args, kwargs), protocol=4)
                    except Exception:
                        blob = None
                if blob is None:
                    return orig(*args, **kwargs)
                fn = (lambda *a, **k: post(orig(*a, **k))) if post else orig
                # the answer is taken from the real call, whose value or exception goes to the caller untouched
                try:
                    r = orig(*args, **kwargs)
                except Exception as e:
                    RECORDS.append((path, blob, "raised:" + type(e).__name__))
                    raise
                RECORDS.append((path, blob, _answer((lambda *a, **k: post(r)) if post else (lambda *a, **k: r), (), {})))
                return r
            wrapper.__wrapped__ = orig
            return wrapper
        w = make(path, orig)
        for name, m in list(sys.modules.items()):
            if m is None or not name.startswith("stix2") or name.startswith("stix2.test"):
                continue
            for a, val in list(vars(m).items()):
                if val is orig:
                    setattr(m, a, w)


def dump():
    return [(p, b.hex(), a) for p, b, a in RECORDS]


def main(argv):
    # replay side (fresh interpreter): the recorded calls in reverse order
    from stixmon import import_stix2
    import_stix2()
    with open(argv[1]) as f:
        recs = json.load(f)
    if len(argv) > 2:
        # the standing registrations of the check (its setup) belong to every process that judges its content; what the
        # workload itself did is the history under test
        import importlib
        from stixmon.ctx import Ctx
        mod = importlib.import_module("stixmon.checks.%s" % argv[2].lower())
        if hasattr(mod, "setup"):
            mod.setup(Ctx(argv[2], "quick", int(argv[3]) if len(argv) > 3 else 0))
    out = [None] * len(recs)
    for k in range(len(recs) - 1, -1, -1):
        path, blobhex, _ = recs[k]
        try:
            mod, attr, fn = _resolve(path)
            args, kwargs = pickle.loads(bytes.fromhex(blobhex))
        except Exception as e:
            out[k] = "unreplayable:" + type(e).__name__
            continue
        post = POST.get(path)
        out[k] = _answer((lambda *a, **kw: post(fn(*a, **kw))) if post else fn, args, kwargs)
    json.dump(out, sys.stdout)


if __name__ == "__main__":
    main(sys.argv)
