"""Ambient layer: the repository's own test suite as a workload, under passive monitors (pytest plugin).

Only oracles that are *local to one call* are attached, so arbitrary test code (mocks, deliberately invalid input,
2.0 container-local references) cannot confuse them:
  C15  every string returned by format_datetime equals the integer-arithmetic formatter's output for the same argument
  C16  every canonicalize() result equals the independent RFC 8785 canonicaliser's
  C06  every 2.1 observable constructed without an id argument carries the independently recomputed id
  C13  the guarded public calls leave their dict/list arguments structurally identical
Monitors record and never raise; the wrapped callables return / raise exactly what the originals do.
Results are written as JSON to $STIXMON_AMBIENT_OUT at session end.
"""
import datetime as dt
import json
import os
import sys

RESULT = {"calls": {}, "violations": [], "errors": 0}


def _count(name):
    RESULT["calls"][name] = RESULT["calls"].get(name, 0) + 1


def _violation(prop, key, message, witness):
    if len(RESULT["violations"]) < 40:
        RESULT["violations"].append({"property": prop, "key": key, "message": message, "witness": witness,
                                     "test": os.environ.get("PYTEST_CURRENT_TEST", "")})


def rebind(original, wrapper):
    n = 0
    for name, mod in list(sys.modules.items()):
        if mod is None or not name.startswith("stix2") or name.startswith("stix2.test"):
            continue
        for attr, val in list(vars(mod).items()):
            if val is original:
                setattr(mod, attr, wrapper)
                n += 1
    return n


def install():
    import stix2
    import stix2.utils
    from stixmon.oracles import jcs
    from stixmon.oracles import ts as tsor

    # ---- C15 ------------------------------------------------------------------------------------------------------
    orig_fmt = stix2.utils.format_datetime

    def format_datetime(dttm):
        out = orig_fmt(dttm)
        try:
            if isinstance(dttm, dt.datetime) and isinstance(out, str):
                us = tsor.datetime_us(dttm)
                if 0 <= us <= tsor.MAX_US:
                    p = getattr(dttm, "precision", None)
                    c = getattr(dttm, "precision_constraint", None)
                    p = p.name.lower() if hasattr(p, "name") else "any"
                    c = c.name.lower() if hasattr(c, "name") else "exact"
                    exp = tsor.format_us(us, p, c)
                    _count("C15:format_datetime")
                    if out != exp:
                        _violation("C15", "ambient:format-datetime", "format_datetime gave %r, expected %r" % (out, exp),
                                   {"argument": repr(dttm), "precision": p, "constraint": c, "got": out, "expected": exp})
        except Exception:
            RESULT["errors"] += 1
        return out
    format_datetime.__wrapped__ = orig_fmt
    RESULT["calls"]["C15:bindings"] = rebind(orig_fmt, format_datetime)

    # ---- C16 ------------------------------------------------------------------------------------------------------
    import stix2.canonicalization.Canonicalize as CZ
    orig_canon = CZ.canonicalize

    def canonicalize(obj, utf8=True):
        out = orig_canon(obj, utf8)
        try:
            exp = jcs.canon(obj)
            _count("C16:canonicalize")
            got = out.decode("utf-8") if isinstance(out, bytes) else out
            if got != exp:
                _violation("C16", "ambient:canonicalize", "canonicalize output differs from the independent canonicaliser",
                           {"input": repr(obj)[:1500], "got": got[:1500], "expected": exp[:1500]})
        except (jcs.NotCanonicalizable, OverflowError, RecursionError, TypeError):
            pass
        except Exception:
            RESULT["errors"] += 1
        return out
    canonicalize.__wrapped__ = orig_canon
    RESULT["calls"]["C16:bindings"] = rebind(orig_canon, canonicalize)

    # ---- C06 ------------------------------------------------------------------------------------------------------
    import stix2.v21.base as B21
    from stixmon.checks import c06
    orig_init = B21._Observable.__init__

    def _init(self, **kwargs):
        orig_init(self, **kwargs)
        try:
            t = getattr(self, "_type", None)
            if "id" not in kwargs and t in c06.m21.types and c06.m21.types[t]["cat"] == "sco" \
                    and list(getattr(self, "_id_contributing_properties", [])) == list(c06.contrib_list(t)):
                j = json.loads(stix2.serialization.serialize(self))
                j.pop("id", None)
                exp, canon = c06.expected_id(j)
                _count("C06:observable-without-id")
                if exp is not None and self["id"] != exp:
                    _violation("C06", "ambient:id-not-specification-exact", "%s constructed without id got %s, recomputed %s" % (t, self["id"], exp),
                               {"object": j, "got": self["id"], "expected": exp, "canonical_contributing_json": canon})
        except Exception:
            RESULT["errors"] += 1
    B21._Observable.__init__ = _init
    RESULT["calls"]["C06:bindings"] = 1

    # ---- C13 ------------------------------------------------------------------------------------------------------
    from stixmon.checks.c13 import snap

    def guard(owner, name, label):
        orig = getattr(owner, name)

        def wrapper(*args, **kwargs):
            try:
                watched = [(i, a) for i, a in enumerate(args) if isinstance(a, (dict, list))] + \
                          [(k, a) for k, a in kwargs.items() if isinstance(a, (dict, list))]
                before = [snap(a) for _, a in watched]
            except Exception:
                watched, before = [], []
            try:
                return orig(*args, **kwargs)
            finally:
                try:
                    for (k, a), b in zip(watched, before):
                        _count("C13:guarded-arguments")
                        if snap(a) != b:
                            _violation("C13", "ambient:argument-modified:" + label, "%s modified its argument %r" % (label, k),
                                       {"operation": label, "argument": str(k), "before": repr(b)[:1200], "after": repr(snap(a))[:1200]})
                except Exception:
                    RESULT["errors"] += 1
        wrapper.__wrapped__ = orig
        if isinstance(owner, type):
            setattr(owner, name, wrapper)
            return 1
        return rebind(orig, wrapper)

    import stix2.markings as mk
    import stix2.parsing
    import stix2.versioning
    n = 0
    n += guard(stix2.parsing, "parse", "parse")
    n += guard(stix2.parsing, "parse_observable", "parse_observable")
    n += guard(stix2.versioning, "new_version", "new_version")
    n += guard(stix2.versioning, "revoke", "revoke")
    for f in ("add_markings", "remove_markings", "set_markings", "clear_markings", "get_markings", "is_marked"):
        n += guard(mk, f, "markings." + f)
    n += guard(stix2.MemoryStore, "add", "MemoryStore.add")
    n += guard(stix2.MemorySink, "add", "MemorySink.add")
    n += guard(stix2.FileSystemSink, "add", "FileSystemSink.add")
    n += guard(stix2.ObjectFactory, "create", "ObjectFactory.create")
    RESULT["calls"]["C13:bindings"] = n


def pytest_configure(config):
    try:
        install()
        RESULT["installed"] = True
    except Exception as e:     # never disturb the suite
        RESULT["installed"] = False
        RESULT["install_error"] = repr(e)


def pytest_sessionfinish(session, exitstatus):
    out = os.environ.get("STIXMON_AMBIENT_OUT")
    if out:
        try:
            RESULT["tests_collected"] = getattr(session, "testscollected", None)
            RESULT["tests_failed"] = getattr(session, "testsfailed", None)
            with open(out, "w") as f:
                json.dump(RESULT, f, default=repr)
        except Exception:
            pass


def run_suite(out_path, timeout=900):
    """Run the repository's suite under the plugin; returns the result dict or None."""
    import subprocess
    from . import HOME, REPO
    env = dict(os.environ)
    env.update({"PYTHONPATH": os.pathsep.join([REPO, HOME]), "PYTHONDONTWRITEBYTECODE": "1", "STIXMON_AMBIENT_OUT": out_path})
    if os.path.exists(out_path):
        os.remove(out_path)
    cmd = [sys.executable, "-m", "pytest", "-q", "-p", "no:cacheprovider", "-p", "no:xdist", "-p", "stixmon.ambient",
           "--ignore=stix2/test/test_workbench.py", "--timeout=600", "--continue-on-collection-errors", "stix2/test"]
    try:
        subprocess.run(cmd, cwd=REPO, env=env, stdout=subprocess.DEVNULL, stderr=subprocess.DEVNULL, timeout=timeout)
    except subprocess.TimeoutExpired:
        return None
    try:
        with open(out_path) as f:
            return json.load(f)
    except Exception:
        return None


def workload(prop):
    """A one-case workload (thorough tier only) that runs the suite and reports the monitors of `prop`."""
    from .ctx import Workload

    def fn(ctx, rng, i):
        from . import HOME
        out = os.path.join(HOME, "out", "work", "ambient-%s.json" % prop)
        res = run_suite(out)
        if not res or not res.get("installed"):
            ctx.count("ambient_unavailable")
            ctx.skip("ambient suite run unavailable (%s)" % (None if not res else res.get("install_error")))
            return
        for k, v in res["calls"].items():
            if k.startswith(prop + ":"):
                ctx.count("ambient:" + k.split(":", 1)[1], v)
                if not k.endswith("bindings"):
                    ctx.ev(v)
        ctx.count("ambient_suite_tests", res.get("tests_collected") or 0)
        for v in res["violations"]:
            if v["property"] == prop:
                ctx.violation(v["key"], "[repository suite, %s] %s" % (v.get("test", "")[:80], v["message"]), v["witness"])
        ctx.nontrivial("ambient", prop)
    return Workload("ambient-suite", fn, quick=0, thorough=1)
