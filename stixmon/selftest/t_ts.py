"""Integer timestamp codec against datetime on a sweep, plus literal examples."""
import datetime as dt
import random

from stixmon.oracles import ts


def run():
    fails = []
    ex = [
        ("2016-01-20T12:31:12.123Z", "millisecond", "exact", "2016-01-20T12:31:12.123Z"),
        ("2016-01-20T12:31:12.12345Z", "millisecond", "exact", "2016-01-20T12:31:12.123Z"),
        ("2016-01-20T12:31:12.12345Z", "millisecond", "min", "2016-01-20T12:31:12.12345Z"),
        ("2016-01-20T12:31:12.1Z", "millisecond", "min", "2016-01-20T12:31:12.100Z"),
        ("2016-01-20T12:31:12Z", "millisecond", "min", "2016-01-20T12:31:12.000Z"),
        ("2016-01-20T12:31:12.999999Z", "second", "exact", "2016-01-20T12:31:12Z"),
        ("2016-01-20T12:31:12.999999Z", "second", "min", "2016-01-20T12:31:12.999999Z"),
        ("2016-01-20T12:31:12.5Z", "any", "exact", "2016-01-20T12:31:12.5Z"),
        ("0999-01-01T00:00:00Z", "any", "exact", "0999-01-01T00:00:00Z"),
        ("0001-01-01T00:00:00.000001Z", "any", "exact", "0001-01-01T00:00:00.000001Z"),
        ("9999-12-31T23:59:59.999999Z", "millisecond", "exact", "9999-12-31T23:59:59.999Z"),
    ]
    for text, p, c, exp in ex:
        got = ts.format_us(ts.text_us(text), p, c)
        if got != exp:
            fails.append("format(%s,%s,%s)=%s expected %s" % (text, p, c, got, exp))
    for bad in ["2016-1-20T12:31:12Z", "2016-01-20T12:31:12", "2016-01-20 12:31:12Z", "2016-13-20T12:31:12Z",
                "2016-01-20T24:00:00Z", "2016-02-30T00:00:00Z", "2016-01-20T12:31:12Z\n", "999-01-01T00:00:00Z",
                "2016-01-20T12:31:12.Z", "2016-01-20T12:31:12+00:00", "2015-02-29T00:00:00Z"]:
        if ts.parse_text(bad) is not None:
            fails.append("accepted non-canonical %r" % bad)
    rng = random.Random(5)
    origin = dt.datetime(1, 1, 1)
    for _ in range(20000):
        us = rng.randrange(0, ts.MAX_US + 1)
        d = origin + dt.timedelta(microseconds=us)
        if ts.datetime_us(d) != us:
            fails.append("datetime_us mismatch at %d" % us)
            break
        text = ts.format_us(us, "millisecond", "min")
        back = ts.text_us(text)
        if back != us:
            fails.append("text round trip at %d: %s -> %s" % (us, text, back))
            break
        iso = "%04d-%02d-%02dT%02d:%02d:%02d" % (d.year, d.month, d.day, d.hour, d.minute, d.second)
        if not text.startswith(iso):
            fails.append("civil mismatch at %d: %s vs %s" % (us, text, iso))
            break
    tz = dt.timezone(dt.timedelta(hours=5, minutes=45))
    a = dt.datetime(2020, 3, 1, 2, 0, 0, 7, tzinfo=tz)
    if ts.format_us(ts.datetime_us(a)) != "2020-02-29T20:15:00.000007Z":
        fails.append("offset conversion: %s" % ts.format_us(ts.datetime_us(a)))
    if not (ts.text_instant("2020-01-01T00:00:00Z") < ts.text_instant("2020-01-01T00:00:00.5Z")
            < ts.text_instant("2020-01-01T00:00:00.50000001Z") < ts.text_instant("2020-01-01T00:00:01Z")):
        fails.append("text_instant ordering")
    if ts.text_instant("2020-01-01T00:00:00.50Z") != ts.text_instant("2020-01-01T00:00:00.5Z"):
        fails.append("text_instant equality of spellings")
    return fails
