"""Self-tests of the oracles (run by setup.sh).  Each test module exposes run() -> list of failures."""
import importlib
import pkgutil
import sys

import stixmon.selftest as pkg

fails = []
n = 0
for m in pkgutil.iter_modules(pkg.__path__):
    if m.name.startswith("t_"):
        mod = importlib.import_module("stixmon.selftest." + m.name)
        r = mod.run()
        n += 1
        for f in r:
            fails.append("%s: %s" % (m.name, f))
for f in fails:
    print("SELFTEST FAIL", f)
print("selftest: %d modules, %d failures" % (n, len(fails)))
sys.exit(1 if fails else 0)
