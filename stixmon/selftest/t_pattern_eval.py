"""The pattern evaluator against the pattern pairs of the repository's own equivalence tests (frozen copy in
pattern_pairs.json): every pair the suite declares equivalent (outside the special-canonicalisation groups) must have
identical match sets on bounded universes; most pairs it declares non-equivalent must be separable."""
import json
import os
import random

from stixmon.oracles import pattern_ast as P
from stixmon.oracles import pattern_eval as E


def run():
    fails = []
    with open(os.path.join(os.path.dirname(__file__), "pattern_pairs.json")) as f:
        groups = json.load(f)
    sep_total = sep_found = 0
    for name, pairs in groups.items():
        if "special" in name:
            continue
        equivalent = "not_equivalent" not in name
        for a, b in pairs:
            try:
                pa, pb = P.normalize(P.read(a)), P.normalize(P.read(b))
            except Exception as e:
                fails.append("%s: cannot read %r / %r: %r" % (name, a, b, e))
                continue
            separated = False
            for seed in range(12):
                rng = random.Random("%s|%s|%d" % (a, b, seed))
                pool = E.make_pool(rng, [pa, pb], 7)
                if pool is None:
                    continue
                try:
                    if E.separate(pa, pb, pool) is not None:
                        separated = True
                        break
                except E.TooBig:
                    continue
            if equivalent and separated:
                fails.append("%s: suite says equivalent, evaluator separates %r / %r" % (name, a, b))
            if not equivalent:
                sep_total += 1
                sep_found += separated
    if sep_total and sep_found < 0.8 * sep_total:
        fails.append("evaluator separates only %d of %d pairs the suite declares non-equivalent" % (sep_found, sep_total))
    return fails
