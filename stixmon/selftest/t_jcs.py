"""RFC 8785 appendix B number vectors + string/sort examples from the RFC."""
import struct

from stixmon.oracles import jcs

VEC = [
    ("0000000000000000", "0"), ("8000000000000000", "0"), ("0000000000000001", "5e-324"),
    ("8000000000000001", "-5e-324"), ("7fefffffffffffff", "1.7976931348623157e+308"),
    ("ffefffffffffffff", "-1.7976931348623157e+308"), ("4340000000000000", "9007199254740992"),
    ("c340000000000000", "-9007199254740992"), ("4430000000000000", "295147905179352830000"),
    ("44b52d02c7e14af5", "9.999999999999997e+22"), ("44b52d02c7e14af6", "1e+23"),
    ("44b52d02c7e14af7", "1.0000000000000001e+23"), ("444b1ae4d6e2ef4e", "999999999999999700000"),
    ("444b1ae4d6e2ef4f", "999999999999999900000"), ("444b1ae4d6e2ef50", "1e+21"),
    ("3eb0c6f7a0b5ed8c", "9.999999999999997e-7"), ("3eb0c6f7a0b5ed8d", "0.000001"),
    ("41b3de4355555553", "333333333.3333332"), ("41b3de4355555554", "333333333.33333325"),
    ("41b3de4355555555", "333333333.3333333"), ("41b3de4355555556", "333333333.3333334"),
    ("41b3de4355555557", "333333333.33333343"), ("becbf647612f3696", "-0.0000033333333333333333"),
    ("43143ff3c1cb0959", "1424953923781206.2"),
]


def run():
    fails = []
    for hx, exp in VEC:
        x = struct.unpack(">d", bytes.fromhex(hx))[0]
        got = jcs.es6_number(x)
        if got != exp:
            fails.append("es6_number(%s)=%s expected %s" % (hx, got, exp))
    for x, exp in [(1e21, "1e+21"), (1e-7, "1e-7"), (1e-6, "0.000001"), (123456789012345680000, "123456789012345680000"),
                   (0.1, "0.1"), (100, "100"), (2 ** 53 + 1, "9007199254740992"), (1.5, "1.5"), (-0.0, "0"),
                   (4.5, "4.5"), (2e-3, "0.002"), (1e20, "100000000000000000000"), (12e20, "1.2e+21")]:
        if jcs.es6_number(x) != exp:
            fails.append("es6_number(%r)=%s expected %s" % (x, jcs.es6_number(x), exp))
    # RFC 8785 section 3.2.3 sorting example
    doc = {"€": "Euro Sign", "\r": "Carriage Return", "דּ": "Hebrew Letter Dalet With Dagesh",
           "1": "One", "\U0001f600": "Emoji: Grinning Face", "\x80": "Control", "ö": "Latin Small Letter O With Diaeresis"}
    order = [jcs.jstring(k) for k, _ in sorted(doc.items(), key=lambda kv: jcs.utf16_units(kv[0]))]
    exp = ['"\\r"', '"1"', '"\x80"', '"ö"', '"€"', '"\U0001f600"', '"דּ"']
    if order != exp:
        fails.append("sort order %r" % order)
    # RFC 8785 section 3.2.2.2 string example
    s = "€$\u000f\nA'B\"\\\\\"/"
    if jcs.jstring(s) != '"€$\\u000f\\nA\'B\\"\\\\\\\\\\"/"':
        fails.append("string escape %r" % jcs.jstring(s))
    if jcs.canon({"b": [1, 2.5, None, True], "a": {"z": "x", "y": False}}) != '{"a":{"y":false,"z":"x"},"b":[1,2.5,null,true]}':
        fails.append("canon doc")
    for bad in (float("nan"), float("inf"), -float("inf")):
        try:
            jcs.canon(bad)
            fails.append("accepted %r" % bad)
        except jcs.NotCanonicalizable:
            pass
    return fails
