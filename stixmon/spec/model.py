"""Loader for the FROZEN specification model (v20.json / v21.json) plus the hand audit.

The JSON tables were bootstrapped once from the pinned library (tools/bootstrap_spec.py) and
are frozen in git.  AUDIT below holds the corrections and additions made by hand against
the STIX 2.0 / 2.1 specifications; the model follows the specification, not the library.
Checks read this module only -- never the library's own property tables.
"""
import copy
import json
import os

HERE = os.path.dirname(os.path.abspath(__file__))

# --------------------------------------------------------------------------- audit overlay
# property-level corrections: (version, section, type, property) -> updates
PROP_AUDIT = {
    # The 2.0 library spelled this property 'encapsulates_by_ref' and the bootstrap copied that into v20.json.  STIX 2.0 Part 4
    # (network-traffic) names it 'encapsulated_by_ref' ("links to another network-traffic object which encapsulates this object"),
    # as 2.1 does; an independent reader recalled the same.  v20.json now carries the specification's name (round 7).
    # 2.0 marking-definition.created: generated with exactly three fractional digits (what the 2.0 text asks of
    # 'created'), but the digit count of the output is not judged (DESIGN section 8: the library's handling
    # of this one slot is deliberately irregular and I cannot settle the intended rule offline).
    ("2.0", "types", "marking-definition", "created"): {"precision": "millisecond", "constraint": "exact", "digits_unjudged": True},
    # object_modified "MUST be an exact match for the modified time of the STIX Object being referenced", and a 2.1 modified
    # may carry more than three fractional digits: at-least-millisecond, like modified itself
    ("2.1", "types", "language-content", "object_modified"): {"precision": "millisecond", "constraint": "min"},
    # 2.1 section 5.1: source_ref / target_ref "MUST be the identifier of a SDO or SCO (i.e., it cannot point to an SRO, Bundle,
    # Language Content, or Marking Definition)"; an extension definition is neither an SDO nor an SCO either (the bootstrap copied
    # the library's list, which did not name it: repository fix bd848d4)
    ("2.1", "types", "relationship", "source_ref"): {"invalid": ["bundle", "extension-definition", "language-content", "marking-definition", "relationship", "sighting"]},
    ("2.1", "types", "relationship", "target_ref"): {"invalid": ["bundle", "extension-definition", "language-content", "marking-definition", "relationship", "sighting"]},
    # tlp value is a closed vocabulary
    ("2.0", "markings", "tlp", "tlp"): {"k": "enum", "values": ["white", "green", "amber", "red"]},
    ("2.1", "markings", "tlp", "tlp"): {"k": "enum", "values": ["white", "green", "amber", "red"]},
}

# every 2.1 'confidence' is 0..100 (spec: "MUST be a number in the range of 0-100")
CONFIDENCE_RANGE = (0, 100)

# which predefined extensions may appear on which SCO type
EXT_HOSTS = {
    "file": ["archive-ext", "ntfs-ext", "pdf-ext", "raster-image-ext", "windows-pebinary-ext"],
    "network-traffic": ["http-request-ext", "icmp-ext", "socket-ext", "tcp-ext"],
    "process": ["windows-process-ext", "windows-service-ext"],
    "user-account": ["unix-account-ext"],
}

# shapes of free-form dictionary properties (so generated content is specification-valid)
DICT_SHAPES = {
    "options": "socket-options",          # SO_*/IP_* ... -> integer
    "additional_header_fields": "str-or-strlist",
    "request_header": "str-or-strlist",
    "environment_variables": "str",
    "ipfix": "str-or-int",
    "document_info_dict": "str",
    "exif_tags": "str-or-int",
    "startup_info": "str-or-int",
    "contents": "language-contents",
}

# Co-constraints, hand-written from the specifications.  Each entry: (kind, args...)
#   at_least_one [props]          at least one of props present
#   at_most_one [props]           not more than one present
#   exactly_one [props]
#   requires a [b...]             if a present then all of b present
#   le a b / lt a b               if both present: a <= b / a < b   (timestamps, as instants)
#   named <name>                  special predicate implemented in validator/generator
COMMON_21_VERSIONED = [("le", "created", "modified")]
COMMON_20_VERSIONED = [("le", "created", "modified")]

CONSTRAINTS = {
    "2.1": {
        "types": {
            "campaign": [("le", "first_seen", "last_seen")],
            "infrastructure": [("le", "first_seen", "last_seen")],
            "intrusion-set": [("le", "first_seen", "last_seen")],
            "malware": [("le", "first_seen", "last_seen"), ("named", "malware-family-name")],
            "threat-actor": [("le", "first_seen", "last_seen")],
            "indicator": [("lt", "valid_from", "valid_until"), ("named", "stix-pattern-valid")],
            "location": [("named", "location-presence")],
            "malware-analysis": [("at_least_one", ["result", "analysis_sco_refs"])],
            "observed-data": [("le", "first_observed", "last_observed"), ("exactly_one", ["objects", "object_refs"])],
            "relationship": [("lt", "start_time", "stop_time")],
            "sighting": [("le", "first_seen", "last_seen")],
            "marking-definition": [("named", "marking-definition")],
            "artifact": [("exactly_one", ["payload_bin", "url"]), ("requires", "url", ["hashes"]),
                         ("requires", "decryption_key", ["encryption_algorithm"])],
            "email-message": [("named", "email-multipart")],
            "file": [("at_least_one", ["hashes", "name"])],
            "network-traffic": [("at_least_one", ["src_ref", "dst_ref"]), ("le", "start", "end"),
                                ("named", "network-traffic-active")],
            "process": [("named", "process-some-property")],
            "x509-certificate": [("at_least_one", [
                "is_self_signed", "hashes", "version", "serial_number", "signature_algorithm", "issuer",
                "validity_not_before", "validity_not_after", "subject", "subject_public_key_algorithm",
                "subject_public_key_modulus", "subject_public_key_exponent", "x509_v3_extensions"])],
            # 2.1 sections 6.16 / 6.17: "As all properties of this object are optional, at least one of the properties defined
            # below MUST be included when using this object."
            "user-account": [("at_least_one", [
                "user_id", "credential", "account_login", "account_type", "display_name", "is_service_account", "is_privileged",
                "can_escalate_privs", "is_disabled", "account_created", "account_expires", "credential_last_changed",
                "account_first_login", "account_last_login", "extensions"])],
            "windows-registry-key": [("at_least_one", ["key", "values", "modified_time", "creator_user_ref", "number_of_subkeys", "extensions"])],
        },
        "embedded": {
            "ExternalReference": [("at_least_one", ["description", "url", "external_id"])],
            "GranularMarking": [("exactly_one", ["lang", "marking_ref"])],
            "EmailMIMEComponent": [("at_least_one", ["body", "body_raw_ref"])],
            "WindowsPEOptionalHeaderType": [("named", "some-property")],
            "WindowsRegistryValueType": [("named", "some-property")],
            "X509V3ExtensionsType": [("named", "some-property")],
        },
        "extensions": {"*": [("named", "some-property")], "socket-ext": [("named", "socket-options")]},
    },
    "2.0": {
        "types": {
            "indicator": [("named", "stix-pattern-valid")],
            "marking-definition": [("named", "marking-definition")],
            "artifact": [("exactly_one", ["payload_bin", "url"]), ("requires", "url", ["hashes"])],
            "email-message": [("named", "email-multipart")],
            "file": [("at_least_one", ["hashes", "name"]), ("named", "file-encryption-20")],
            "network-traffic": [("at_least_one", ["src_ref", "dst_ref"])],
            "process": [("named", "process-some-property")],
        },
        "embedded": {
            "ExternalReference": [("at_least_one", ["description", "url", "external_id"])],
            "EmailMIMEComponent": [("at_least_one", ["body", "body_raw_ref"])],
            "WindowsPEOptionalHeaderType": [("named", "some-property")],
        },
        "extensions": {"*": [("named", "some-property")]},
    },
}

TLP = {
    "white": "marking-definition--613f2e26-407d-48c7-9eca-b8e91df99dc9",
    "green": "marking-definition--34098fce-860f-48ae-8e50-ebd3cc5e41da",
    "amber": "marking-definition--f88d31f6-486f-44da-b317-01333bde0b82",
    "red": "marking-definition--5e57c739-391a-4eb3-b6be-7d15ca92d5ed",
}
TLP_CREATED = "2017-01-20T00:00:00.000Z"

SOCKET_OPTION_PREFIXES = ["SO_", "ICMP_", "ICMP6_", "IP_", "IPV6_", "MCAST_", "TCP_", "IRLMP_"]

# hash value shapes (hex length) for the algorithm names of both vocabularies
HASH_HEX_LEN = {
    "MD5": 32, "SHA-1": 40, "SHA-224": 56, "SHA-256": 64, "SHA-384": 96, "SHA-512": 128,
    "SHA3-224": 56, "SHA3-256": 64, "SHA3-384": 96, "SHA3-512": 128, "RIPEMD-160": 40, "WHIRLPOOL": 128,
    "MD6": 64, "TLSH": 70,
}


class Model:
    def __init__(self, version):
        self.version = version
        with open(os.path.join(HERE, "v%s.json" % version.replace(".", ""))) as f:
            self.raw = json.load(f)
        self.types = self.raw["types"]
        self.extensions = self.raw["extensions"]
        self.embedded = self.raw["embedded"]
        self.markings = self.raw["markings"]
        self._audit()

    def _audit(self):
        for (ver, sec, typ, prop), upd in PROP_AUDIT.items():
            if ver != self.version:
                continue
            for p in self.raw[sec][typ]["props"]:
                if p["name"] == prop:
                    p.update(upd)
        if self.version == "2.1":
            for sec in ("types",):
                for t, d in self.raw[sec].items():
                    for p in d["props"]:
                        if p["name"] == "confidence" and p["k"] == "int":
                            p["min"], p["max"] = CONFIDENCE_RANGE
        # The specification requires created / modified / valid_from; the library merely supplies
        # "now" as a construction convenience.  For the model they are required.
        for t, d in self.raw["types"].items():
            for p in d["props"]:
                if p.get("default") == "NOW":
                    p["required"] = True
                    p["library_default_now"] = True
        for sec in ("types", "extensions", "embedded", "markings"):
            for t, d in self.raw[sec].items():
                d["props"] = [p for p in d["props"] if not p.get("unmodelled")] + \
                             [p for p in d["props"] if p.get("unmodelled")]
                d["by_name"] = {p["name"]: p for p in d["props"]}
                cons = list(CONSTRAINTS[self.version].get(sec, {}).get(t, []))
                if sec == "extensions":
                    cons += CONSTRAINTS[self.version]["extensions"].get("*", [])
                if sec == "types" and "created" in d["by_name"] and "modified" in d["by_name"] and d.get("cat") != "sco":
                    cons.append(("le", "created", "modified"))
                d["constraints"] = cons

    # ---- queries ---------------------------------------------------------------
    def table(self, section, name):
        return self.raw[section][name]

    def top_types(self):
        return sorted(self.types)

    def types_of_class(self, cls):
        """cls in SDO/SCO/SRO -> type names of this version."""
        want = {"SDO": ("sdo",), "SCO": ("sco",), "SRO": ("sro",)}[cls]
        return sorted(t for t, d in self.types.items() if d["cat"] in want)

    def ref_targets(self, kind):
        """All concrete type names a ref property of this kind may legally point to."""
        if "valid" in kind:
            out = []
            for v in kind["valid"]:
                if v in ("SDO", "SCO", "SRO"):
                    out += self.types_of_class(v)
                else:
                    out.append(v)
            return sorted(set(out))
        bad = set(kind["invalid"])
        return sorted(t for t in self.types if t not in bad)

    def ref_allows(self, kind, type_name):
        """Is a reference to (registered or not) type_name definitely allowed / definitely disallowed?
        Returns True / False / None (cannot tell: unknown type under a class constraint)."""
        known = type_name in self.types
        if "valid" in kind:
            if type_name in [v for v in kind["valid"] if v not in ("SDO", "SCO", "SRO")]:
                return True
            classes = [v for v in kind["valid"] if v in ("SDO", "SCO", "SRO")]
            if known:
                return any(type_name in self.types_of_class(c) for c in classes)
            return None if classes else False
        if type_name in kind["invalid"]:
            return False
        return True

    def versionable(self, t):
        b = self.types[t]["by_name"]
        return all(k in b for k in ("created", "modified", "revoked"))

    def can_carry_granular(self, t):
        return "granular_markings" in self.types[t]["by_name"]


_MODELS = {}


def model(version):
    if version not in _MODELS:
        _MODELS[version] = Model(version)
    return _MODELS[version]


def deep(x):
    return copy.deepcopy(x)
