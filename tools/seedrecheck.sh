#!/bin/bash
# usage: tools/seedrecheck.sh <seed id>... -- repeats the confirmation of kept seeded changes (suite, demo, the property's check) on /repo HEAD
for sid in "$@"; do
  t=$(mktemp -d); cp seeded/$sid/patch.diff $t/patch1.diff; cp seeded/$sid/demo.py $t/demo1.py
  echo "=== $sid"; tools/seedcheck.sh $t 1 "${sid%%-*}" | cut -c1-220
  rm -rf $t
done
