#!/bin/bash
# usage: tools/seedcheck.sh <seed dir e.g. /tmp/sa-C08/_seed> <n> "<check ids>" [tier]
# Confirms a sub-agent's change: applies patch<n>.diff to a scratch worktree at /repo HEAD, runs the repository suite,
# runs demo<n>.py with and without the change, then runs the given checks against the changed tree.
sd=$1; n=$2; ids=$3; tier=${4:-quick}
M=${MUT:-/tmp/mut}
T=$M.tmp
[ -d $M ] || git -C /repo worktree add -q --detach $M HEAD
git -C $M checkout -q --detach ${BASE:-$(git -C /repo rev-parse HEAD)} 2>/dev/null
git -C $M reset -q --hard HEAD ; git -C $M clean -fdq
if ! git -C $M apply --whitespace=nowarn $sd/patch$n.diff 2>$T.apply.err; then
  # written against an earlier HEAD: three-way, then keep the rebased patch beside the original
  if git -C $M apply -3 --whitespace=nowarn $sd/patch$n.diff 2>$T.apply.err && ! git -C $M diff --name-only --diff-filter=U | grep -q .; then
    git -C $M reset -q; git -C $M diff -- stix2 > $sd/patch$n.rebased.diff; echo "(patch applied three-way; rebased copy written)"
  else echo "PATCH DOES NOT APPLY: $(head -2 $T.apply.err)"; git -C $M reset -q --hard HEAD; exit 2; fi
fi
echo "suite with change: $(cd $M && /venv/bin/python -m pytest -q -p no:cacheprovider --timeout=900 --continue-on-collection-errors 2>&1 | tail -1)"
mkdir -p $M/_seed; cp $sd/demo$n.py $M/_seed/
(cd $M && timeout 300 /venv/bin/python _seed/demo$n.py >$T.demo.out 2>&1); echo "demo with change: rc=$? $(tail -1 $T.demo.out | cut -c1-160)"
for id in $ids; do
  out=$(STIXMON_REPO=$M ./vcheck $id --tier $tier 2>&1); rc=$?
  echo "  [$id $tier rc=$rc] $(echo "$out" | grep -E '^VIOLATION|^INCONCLUSIVE' | head -3 | cut -c1-240)"
done
git -C $M reset -q --hard HEAD
(cd $M && timeout 300 /venv/bin/python _seed/demo$n.py >$T.demo.out 2>&1); echo "demo without change: rc=$?"
rm -rf $M/_seed
