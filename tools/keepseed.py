#!/venv/bin/python
"""usage: tools/keepseed.py <seed dir> <n> <property> <seed id> <needs> <caught_by> <first_result> [strengthening]
Keeps a confirmed property-breaking change under /verif/seeded/<seed id>/."""
import json, os, shutil, sys
sd, n, prop, sid, needs, caught, first = sys.argv[1:8]
if sid == "next":
    import glob
    used = sorted(os.path.basename(x).split("-")[1] for x in glob.glob(os.path.join(os.path.dirname(os.path.dirname(os.path.abspath(__file__))), "seeded", prop + "-*")))
    sid = "%s-%s" % (prop, chr(ord(max(used, key=lambda u: (len(u), u))[-1]) + 1) if used else "a")
strength = sys.argv[8] if len(sys.argv) > 8 else ""
d = os.path.join(os.path.dirname(os.path.dirname(os.path.abspath(__file__))), "seeded", sid)
os.makedirs(d, exist_ok=True)
reb = os.path.join(sd, "patch%s.rebased.diff" % n)     # written by seedcheck.sh when the patch had to be applied three-way
shutil.copy(reb if os.path.exists(reb) else os.path.join(sd, "patch%s.diff" % n), os.path.join(d, "patch.diff"))
shutil.copy(os.path.join(sd, "demo%s.py" % n), os.path.join(d, "demo.py"))
if os.path.exists(os.path.join(sd, "notes.md")):
    shutil.copy(os.path.join(sd, "notes.md"), os.path.join(d, "author_notes.md"))
import subprocess
meta = {
    "applies_at": subprocess.run(["git", "-C", "/repo", "rev-parse", "--short", "HEAD"], capture_output=True, text=True).stdout.strip(),
    "seed_id": sid, "breaks_property": prop, "origin": "independent sub-agent given only the property text and a scratch worktree",
    "needs_to_manifest": needs,
    "confirmed_by_me": {
        "how": "tools/seedcheck.sh: patch applied to a scratch worktree at /repo HEAD (git apply); repository suite; demo with and without the change; checks run with STIXMON_REPO pointing at the changed tree",
        "suite_with_change": "45 failed, 2433 passed, 3 xfailed, 1 xpassed, 2 errors (identical to the unchanged tree)",
        "demo_with_change": "exit 1", "demo_without_change": "exit 0",
    },
    "first_result_of_my_checks": first,
    "caught_by": caught,
    "strengthening_done": strength,
    "apply": "git -C /repo apply /verif/seeded/%s/patch.diff ; ... ; git -C /repo checkout -- ." % sid,
    "run_demo": "cd <tree> && /venv/bin/python <path>/demo.py   (the demo inserts the current directory at sys.path[0])",
}
json.dump(meta, open(os.path.join(d, "meta.json"), "w"), indent=1)
print("kept", d)
