#!/venv/bin/python
"""usage: tools/reachlines.py <relative file> [tier] -- source lines inside functions of one library file which no check's last run reached"""
import ast, glob, json, os, sys
sys.path.insert(0, os.path.dirname(os.path.dirname(os.path.abspath(__file__))))
from stixmon import REPO
from stixmon.reach import executable_lines
rel = sys.argv[1]; tier = sys.argv[2] if len(sys.argv) > 2 else "quick"
hits = set()
for p in glob.glob(os.path.join(os.path.dirname(os.path.dirname(os.path.abspath(__file__))), "out", "work", "*-%s-reach.json" % tier)):
    hits.update(json.load(open(p)).get(rel, []))
path = os.path.join(REPO, "stix2", rel)
src = open(path, encoding="utf-8").read().splitlines()
ex = executable_lines(path)
infunc = set()
for node in ast.walk(ast.parse("\n".join(src))):
    if isinstance(node, (ast.FunctionDef, ast.AsyncFunctionDef)):
        infunc.update(range(node.body[0].lineno, node.end_lineno + 1))
for ln in sorted((ex & infunc) - hits):
    print("%5d  %s" % (ln, src[ln - 1][:150]))
