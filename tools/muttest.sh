#!/bin/bash
# usage: tools/muttest.sh <check ids, comma separated> <file relative to repo> <sed expression>
# applies the sed edit to a scratch worktree at /tmp/mut (synced to /repo HEAD), runs the quick checks against it, restores.
ids=$1; file=$2; expr=$3
M=/tmp/mut
[ -d $M ] || git -C /repo worktree add -q --detach $M HEAD
git -C $M checkout -q --detach $(git -C /repo rev-parse HEAD) 2>/dev/null
git -C $M checkout -q -- .
sed -i "$expr" $M/$file
if git -C $M diff --quiet; then echo "MUTATION DID NOT APPLY: $file $expr"; exit 2; fi
for id in ${ids//,/ }; do
  out=$(STIXMON_REPO=$M ./vcheck $id --tier quick 2>&1); rc=$?
  echo "  [$id rc=$rc] $(echo "$out" | grep -E 'VIOLATION|INCONCLUSIVE' | head -2 | cut -c1-260)"
done
git -C $M checkout -q -- .
