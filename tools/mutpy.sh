#!/bin/bash
# usage: tools/mutpy.sh <check ids> <file rel to repo> <python expr transforming source text s>
ids=$1; file=$2; expr=$3
M=/tmp/mut
[ -d $M ] || git -C /repo worktree add -q --detach $M HEAD
git -C $M checkout -q --detach $(git -C /repo rev-parse HEAD) 2>/dev/null
git -C $M checkout -q -- .
/venv/bin/python - "$M/$file" "$expr" <<'PY'
import sys
p, expr = sys.argv[1], sys.argv[2]
s = open(p).read()
s2 = eval(expr)
assert s2 != s, "mutation did not apply"
open(p, "w").write(s2)
PY
[ $? -eq 0 ] || { echo "MUTATION DID NOT APPLY"; exit 2; }
for id in ${ids//,/ }; do
  out=$(STIXMON_REPO=$M ./vcheck $id --tier quick 2>&1); rc=$?
  echo "  [$id rc=$rc] $(echo "$out" | grep -E 'VIOLATION|INCONCLUSIVE' | head -2 | cut -c1-260)"
done
git -C $M checkout -q -- .
