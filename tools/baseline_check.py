#!/venv/bin/python
"""Run the repository's own suite (hooks: none exist) and compare with /root/.vp/BASELINE.json stable_pass."""
import json
import subprocess
import sys
import tempfile
import xml.etree.ElementTree as ET

base = json.load(open("/root/.vp/BASELINE.json"))
stable = set(base["stable_pass"])
with tempfile.NamedTemporaryFile(suffix=".xml") as tf:
    subprocess.run(["/venv/bin/python", "-m", "pytest", "-q", "-p", "no:cacheprovider", "--timeout=900",
                    "--continue-on-collection-errors", "--junitxml=" + tf.name], cwd=(sys.argv[1] if len(sys.argv) > 1 else "/repo"),
                   stdout=subprocess.DEVNULL, stderr=subprocess.DEVNULL, env={"PYTHONDONTWRITEBYTECODE": "1", "PATH": "/usr/bin:/bin"})
    root = ET.parse(tf.name).getroot()
passed = set()
for tc in root.iter("testcase"):
    if not any(ch.tag in ("failure", "error", "skipped") for ch in tc):
        passed.add("%s::%s" % (tc.get("classname"), tc.get("name")))
missing = sorted(stable - passed)
print("stable_pass=%d passed_now=%d missing=%d" % (len(stable), len(passed), len(missing)))
for m in missing[:30]:
    print("  NOT PASSING:", m)
sys.exit(1 if missing else 0)
