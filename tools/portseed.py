#!/venv/bin/python
"""usage: tools/portseed.py <seed id> <spec.py>   -- re-create a kept seeded change on /repo HEAD by hand.
spec.py defines EDITS = [(file, old_text, new_text), ...]: the same change as the stale patch, expressed against the current
sources.  The result replaces patch.diff (the stale text is kept as patch.<commit>.diff) and must be confirmed with seedcheck."""
import json, os, subprocess, sys
ROOT = os.path.dirname(os.path.dirname(os.path.abspath(__file__)))
sid, spec = sys.argv[1:3]
ns = {}
exec(open(spec).read(), ns)
M = "/tmp/reseed"
def sh(*a):
    return subprocess.run(a, capture_output=True, text=True)
head = sh("git", "-C", "/repo", "rev-parse", "--short", "HEAD").stdout.strip()
if not os.path.isdir(M):
    sh("git", "-C", "/repo", "worktree", "add", "--detach", M, "HEAD")
sh("git", "-C", M, "checkout", "--detach", "-q", head); sh("git", "-C", M, "checkout", "-q", "--", ".")
for f, old, new in ns["EDITS"]:
    p = os.path.join(M, f)
    s = open(p).read()
    assert s.count(old) == 1, (f, s.count(old), old[:60])
    open(p, "w").write(s.replace(old, new))
diff = sh("git", "-C", M, "diff", "HEAD").stdout
d = os.path.join(ROOT, "seeded", sid)
meta = json.load(open(os.path.join(d, "meta.json")))
os.replace(os.path.join(d, "patch.diff"), os.path.join(d, "patch.%s.diff" % meta.get("applies_at", "earlier")))
open(os.path.join(d, "patch.diff"), "w").write(diff)
meta["applies_at"] = head; meta["rebased_onto"] = head; meta["ported_by_hand"] = True; meta.pop("stale", None)
json.dump(meta, open(os.path.join(d, "meta.json"), "w"), indent=1)
sh("git", "-C", "/repo", "worktree", "remove", "--force", M)
print("ported", sid, "onto", head)
