#!/bin/bash
# usage: tools/runall.sh <tier> [seed]   -- all 20 checks, one summary line each
tier=${1:-quick}; seed=${2:-0}
for n in 01 02 03 04 05 06 07 08 09 10 11 12 13 14 15 16 17 18 19 20; do
  out=$(VERIF_SEED=$seed ./vcheck C$n --tier $tier 2>&1); rc=$?
  echo "rc=$rc $(echo "$out" | tail -1)"
  echo "$out" | grep -E "^VIOLATION|^INCONCLUSIVE" | cut -c1-300
done
