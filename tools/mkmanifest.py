#!/venv/bin/python
"""Regenerate MANIFEST.json from the check modules that exist (run from /verif)."""
import importlib
import json
import os
import sys

HOME = os.path.dirname(os.path.dirname(os.path.abspath(__file__)))
sys.path.insert(0, HOME)
sys.path.insert(0, "/repo")

props = [json.loads(l) for l in open(os.path.join(HOME, "properties.jsonl"))]

checks, na = [], []
for p in props:
    pid = p["id"]
    try:
        mod = importlib.import_module("stixmon.checks." + pid.lower())
    except ModuleNotFoundError:
        na.append({"property_id": pid, "reason": "monitor not built yet (planned in DESIGN.md section 4); not a limit of the technique"})
        continue
    m = getattr(mod, "MANIFEST", {})
    checks.append({
        "property_id": pid,
        "quick_cmd": "./vcheck %s --tier quick" % pid,
        "thorough_cmd": "./vcheck %s --tier thorough" % pid,
        "evidence_file": "evidence/%s.json" % pid,
        "replay_cmd_template": "./vcheck %s --replay {path}" % pid,
        "engine": "stixmon",
        "level_claimed": {
            "category": getattr(mod, "LEVEL", "exploration"),
            "text": m.get("text", ""),
            "design_ref": m.get("design_ref", "DESIGN.md section 4, " + pid),
        },
        "level_note": m.get("note", "; ".join(getattr(mod, "ASSUMPTIONS", []))),
        "technique": m.get("technique", "runtime monitoring: reference-model oracle over recorded call/return events"),
    })

manifest = {
    "version": 1,
    "setup_cmd": "./setup.sh",
    "hooks": {
        "guard": "STIX2_VERIF_HOOKS",
        "enable": "no source hooks are needed: every monitor wraps public callables of the working tree at run time (guard name reserved, unused)",
        "baseline_off_cmd": "cd /repo && /venv/bin/python -m pytest -q -p no:cacheprovider --timeout=900 --continue-on-collection-errors",
        "source_commits": [],
        "add_only": True,
    },
    "engines": [{
        "name": "stixmon",
        "path": "stixmon/",
        "serves_properties": [c["property_id"] for c in checks],
        "kind_free_text": "runtime monitoring of the real library: seeded hostile workloads at the public API, call/return events judged by independent reference models (frozen spec tables, integer timestamp codec, RFC 8785 canonicaliser, list/set models of stores and markings, pattern evaluator); worker processes, three-valued verdicts, mechanism-keyed known findings",
    }],
    "checks": checks,
    "not_applicable": na,
    "notes": "See DESIGN.md.  exit 0 held / 1 VIOLATION / 3 INCONCLUSIVE (never a VIOLATION line).  VERIF_SEED and VERIF_TIER honoured.",
}
with open(os.path.join(HOME, "MANIFEST.json"), "w") as f:
    json.dump(manifest, f, indent=1)
    f.write("\n")
try:
    import jsonschema
    jsonschema.validate(manifest, json.load(open("/root/.vp/MANIFEST.schema.json")))
    print("MANIFEST.json valid: %d checks, %d not yet claimed" % (len(checks), len(na)))
except ImportError:
    print("written (jsonschema unavailable)")
