#!/venv/bin/python
"""Regenerate the generated tables of DESIGN.md: 7.1 (repaired findings, from known_findings.json) and
10.3 (independent seeded changes, from seeded/*/meta.json).  Tables live between <!-- BEGIN x --> / <!-- END x --> markers."""
import glob, json, os, re
H = os.path.dirname(os.path.dirname(os.path.abspath(__file__)))
p = os.path.join(H, "DESIGN.md")
s = open(p).read()


def put(name, body):
    global s
    b, e = "<!-- BEGIN %s -->" % name, "<!-- END %s -->" % name
    assert b in s and e in s, name
    s = s[:s.index(b) + len(b)] + "\n" + body + "\n" + s[s.index(e):]


kf = json.load(open(os.path.join(H, "known_findings.json")))["findings"]
rows = ["| property | mechanism key | commit | what failed |", "|---|---|---|---|"]
for f in kf:
    if f["status"] == "fixed":
        rows.append("| %s | `%s` | %s | %s |" % (f["property"], f["key"], f["commit"], f["what"].replace("|", "\\|")))
put("fixed-table", "\n".join(rows))

rows = ["| property | mechanism key | what fails / why not repaired | failing input |", "|---|---|---|---|"]
for f in kf:
    if f["status"] == "known":
        rows.append("| %s | `%s` | %s | %s |" % (f["property"], f["key"], f["what"].replace("|", "\\|"), f.get("failing_input", "").replace("|", "\\|")))
put("known-table", "\n".join(rows))

import importlib, sys
sys.path.insert(0, H)
try:
    from stixmon import import_stix2
    import_stix2()
    rows = ["| check | level | workload | cases quick | cases thorough | evidence of the last run here (tier, evaluations, distinct non-trivial, library lines reached) |", "|---|---|---|---|---|---|"]
    for n in range(1, 21):
        pid = "C%02d" % n
        mod = importlib.import_module("stixmon.checks.c%02d" % n)
        try:
            ev = json.load(open(os.path.join(H, "evidence", pid + ".json")))
            evs = "%s, %d, %d, %s" % (ev["tier"], ev["coverage"]["evaluations"], ev["coverage"]["distinct_nontrivial"], ev["coverage"].get("library_reach", {}).get("lines_reached", "-"))
        except Exception:
            evs = "-"
        for k, wl in enumerate(mod.WORKLOADS):
            rows.append("| %s | %s | %s | %s | %s | %s |" % (pid if k == 0 else "", mod.LEVEL if k == 0 else "", wl.name, wl.size("quick"), wl.size("thorough"), evs if k == 0 else ""))
    put("workload-table", "\n".join(rows))
except Exception as e:
    print("workload table not regenerated:", repr(e))

rows = ["| seed | property | what it needs to manifest | first result | caught by (now) | strengthening |", "|---|---|---|---|---|---|"]
n = miss = 0
for mp in sorted(glob.glob(os.path.join(H, "seeded", "*", "meta.json"))):
    m = json.load(open(mp))
    n += 1
    if not m["first_result_of_my_checks"].startswith("caught"):
        miss += 1
    rows.append("| %s | %s | %s | %s | %s | %s |" % (m["seed_id"], m["breaks_property"], m["needs_to_manifest"].replace("|", "\\|"),
                                                   m["first_result_of_my_checks"].replace("|", "\\|"), m["caught_by"].replace("|", "\\|"),
                                                   (m.get("strengthening_done") or "-").replace("|", "\\|")))
rows.append("")
rows.append("%d seeded changes kept; %d were caught by the checks as they stood when the change arrived, %d were missed first and are "
            "caught after the strengthening named in the last column (each re-confirmed with tools/seedcheck.sh)." % (n, n - miss, miss))
put("seeded-table", "\n".join(rows))
open(p, "w").write(s)
print("tables regenerated: %d fixed, %d seeds" % (sum(1 for f in kf if f["status"] == "fixed"), n))
