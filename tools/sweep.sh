#!/bin/bash
# usage: tools/sweep.sh <tier> <seeds> <ids...>   -- run checks for several seeds, print one line each
tier=$1; seeds=$2; shift 2
./setup.sh >/dev/null 2>&1
for s in $seeds; do for id in "$@"; do
  out=$(VERIF_SEED=$s ./vcheck $id --tier $tier 2>&1); rc=$?
  echo "seed=$s rc=$rc $(echo "$out" | tail -1)"
  echo "$out" | grep -E "VIOLATION|INCONCLUSIVE" | cut -c1-300
done; done
