#!/venv/bin/python
"""usage: tools/reseed.py   -- keeps the kept seeded changes applicable as /repo moves on.
For every /verif/seeded/<id>/patch.diff: if it applies to /repo HEAD nothing changes; otherwise a three-way apply is tried in
a scratch worktree and, when that merges cleanly, patch.diff is rewritten against HEAD (the previous text kept as
patch.<commit>.diff); otherwise the newest commit it still applies to is recorded in meta.json (applies_at) so the trial can
be repeated on that tree.  Rewritten patches must be confirmed again with tools/seedcheck.sh."""
import glob, json, os, subprocess, sys
ROOT = os.path.dirname(os.path.dirname(os.path.abspath(__file__)))
M = "/tmp/reseed"
def sh(*a, **k):
    return subprocess.run(a, capture_output=True, text=True, **k)
head = sh("git", "-C", "/repo", "rev-parse", "--short", "HEAD").stdout.strip()
if not os.path.isdir(M):
    sh("git", "-C", "/repo", "worktree", "add", "--detach", M, "HEAD")
commits = sh("git", "-C", "/repo", "log", "--format=%h", "-n", "400").stdout.split()
for d in sorted(glob.glob(os.path.join(ROOT, "seeded", "*"))):
    p = os.path.join(d, "patch.diff")
    mp = os.path.join(d, "meta.json")
    meta = json.load(open(mp))
    sh("git", "-C", M, "checkout", "--detach", "-q", head); sh("git", "-C", M, "checkout", "-q", "--", "."); sh("git", "-C", M, "clean", "-fdq")
    if sh("git", "-C", M, "apply", "--check", p).returncode == 0:
        meta["applies_at"] = head; meta.pop("stale", None)
    else:
        r = sh("git", "-C", M, "apply", "--3way", p)
        conflicted = sh("git", "-C", M, "diff", "--name-only", "--diff-filter=U").stdout.strip()
        if r.returncode == 0 and not conflicted:
            new = sh("git", "-C", M, "diff", "HEAD").stdout
            base = meta.get("applies_at", "earlier")
            os.replace(p, os.path.join(d, "patch.%s.diff" % base))
            open(p, "w").write(new)
            meta["applies_at"] = head; meta["rebased_onto"] = head; meta.pop("stale", None)
            print("rebased", os.path.basename(d))
        else:
            sh("git", "-C", M, "reset", "-q", "--hard", head)
            for c in commits:
                sh("git", "-C", M, "checkout", "--detach", "-q", c)
                if sh("git", "-C", M, "apply", "--check", p).returncode == 0:
                    meta["applies_at"] = c; meta["stale"] = True
                    print("stale", os.path.basename(d), "applies at", c)
                    break
            else:
                print("NO BASE FOUND", os.path.basename(d))
    json.dump(meta, open(mp, "w"), indent=1)
sh("git", "-C", "/repo", "worktree", "remove", "--force", M)
