#!/venv/bin/python
"""usage: tools/reachreport.py [tier]  -- union of the library lines reached by all checks' last runs (out/work/*-<tier>-reach.json):
per file the reached share, and every function/method of which no line was run (blind spots to aim new workloads at)."""
import ast, glob, json, os, sys
sys.path.insert(0, os.path.dirname(os.path.dirname(os.path.abspath(__file__))))
from stixmon import REPO
from stixmon.reach import executable_lines
tier = sys.argv[1] if len(sys.argv) > 1 else "quick"
hits = {}
for p in glob.glob(os.path.join(os.path.dirname(os.path.dirname(os.path.abspath(__file__))), "out", "work", "*-%s-reach.json" % tier)):
    for f, ls in json.load(open(p)).items():
        hits.setdefault(f, set()).update(ls)
root = os.path.join(REPO, "stix2")
rows = []
for dp, dn, fn in os.walk(root):
    if "/test" in dp:
        continue
    for f in fn:
        if not f.endswith(".py"):
            continue
        path = os.path.join(dp, f)
        rel = os.path.relpath(path, root)
        ex = executable_lines(path)
        got = hits.get(rel, set()) & ex
        tree = ast.parse(open(path, encoding="utf-8").read())
        unreached = []
        for node in ast.walk(tree):
            if isinstance(node, (ast.FunctionDef, ast.AsyncFunctionDef)):
                body = {ln for ln in ex if node.body[0].lineno <= ln <= node.end_lineno}
                if body and not (body & got):
                    unreached.append("%s:%d %s" % (rel, node.lineno, node.name))
        rows.append((rel, len(got), len(ex), unreached))
rows.sort(key=lambda r: r[0])
for rel, g, e, un in rows:
    if e:
        print("%-55s %4d / %4d" % (rel, g, e))
print()
for rel, g, e, un in rows:
    for u in un:
        print("UNREACHED", u)
