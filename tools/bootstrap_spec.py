#!/venv/bin/python
"""ONE-OFF bootstrap of the frozen specification model (stixmon/spec/v20.json, v21.json).

Introspects the library's property tables at the pinned commit and writes a declarative
table.  The output is then hand-audited against the STIX specifications (corrections live
in stixmon/spec/audit.py and are applied at load time) and FROZEN in git: checks load the
JSON only and never look at the library's tables.  Re-running this tool is a deliberate
act, never part of a check.
"""
import json
import os
import sys

sys.path.insert(0, "/repo")
import stix2  # noqa
from stix2 import properties as P  # noqa
from stix2.base import _STIXBase  # noqa

HOME = os.path.dirname(os.path.dirname(os.path.abspath(__file__)))

embedded_names = {}


def ename(cls):
    n = cls.__name__
    embedded_names[n] = cls
    return n


def kind(prop):
    t = type(prop)
    if hasattr(prop, "_fixed_value") and t in (P.StringProperty, P.TypeProperty, P.EnumProperty, P.Property):
        return {"k": "fixed", "value": prop._fixed_value}
    if t is P.TypeProperty:
        return {"k": "fixed", "value": prop._fixed_value}
    if t is P.IDProperty:
        return {"k": "id", "prefix": prop.required_prefix}
    if t is P.StringProperty:
        return {"k": "string"}
    if t is P.PatternProperty:
        return {"k": "pattern"}
    if t is P.IntegerProperty:
        d = {"k": "int"}
        if prop.min is not None:
            d["min"] = prop.min
        if prop.max is not None:
            d["max"] = prop.max
        return d
    if t is P.FloatProperty:
        d = {"k": "float"}
        if prop.min is not None:
            d["min"] = prop.min
        if prop.max is not None:
            d["max"] = prop.max
        return d
    if t is P.BooleanProperty:
        return {"k": "bool"}
    if t is P.TimestampProperty:
        return {"k": "ts", "precision": str(prop.precision).lower(), "constraint": str(prop.precision_constraint).lower()}
    if t is P.HashesProperty:
        return {"k": "hashes", "names": list(prop._HashesProperty__spec_hash_names)}
    if t is P.DictionaryProperty:
        return {"k": "dict"}
    if t is P.ExtensionsProperty:
        return {"k": "extensions"}
    if t is P.BinaryProperty:
        return {"k": "binary"}
    if t is P.HexProperty:
        return {"k": "hex"}
    if t is P.SelectorProperty:
        return {"k": "selector"}
    if t is P.EnumProperty:
        return {"k": "enum", "values": list(prop.allowed)}
    if t is P.OpenVocabProperty:
        return {"k": "openvocab", "values": list(prop.allowed)}
    if t is P.ReferenceProperty:
        types = sorted(prop.specifics) + sorted(g.name for g in prop.generics)
        return {"k": "ref", ("valid" if prop.auth_type == prop._WHITELIST else "invalid"): types}
    if t is P.ObjectReferenceProperty:
        return {"k": "objref", "valid": prop.valid_types}
    if t is P.EmbeddedObjectProperty:
        return {"k": "embedded", "type": ename(prop.type)}
    if t is P.ObservableProperty:
        return {"k": "observables"}
    if t is P.STIXObjectProperty:
        return {"k": "stixobject"}
    if t is P.ListProperty:
        c = prop.contained
        if isinstance(c, P.Property):
            return {"k": "list", "of": kind(c)}
        return {"k": "list", "of": {"k": "embedded", "type": ename(c)}}
    if t.__name__ == "MarkingProperty":
        return {"k": "marking-object"}
    raise SystemExit("unknown property class %s" % t)


def table(cls):
    props = []
    for name, prop in cls._properties.items():
        d = kind(prop)
        d["name"] = name
        d["required"] = bool(prop.required)
        if hasattr(prop, "default") and d["k"] not in ("fixed", "id"):
            v = prop.default()
            if v is stix2.utils.NOW:
                d["default"] = "NOW"
            else:
                d["default"] = v
        props.append(d)
    out = {"props": props}
    if hasattr(cls, "_id_contributing_properties"):
        out["id_contrib"] = list(cls._id_contributing_properties)
    return out


def category(version, t, cls):
    from stix2.base import _DomainObject, _Observable, _RelationshipObject
    if t == "bundle":
        return "bundle"
    if t == "marking-definition":
        return "marking-definition"
    if issubclass(cls, _RelationshipObject):
        return "sro"
    if issubclass(cls, _DomainObject):
        return "sdo"
    if issubclass(cls, _Observable):
        return "sco"
    return "meta"   # language-content, extension-definition


for version, mod in (("2.0", stix2.v20), ("2.1", stix2.v21)):
    embedded_names.clear()
    model = {"version": version, "types": {}, "extensions": {}, "embedded": {}, "markings": {}}
    for t, cls in sorted(mod.OBJ_MAP.items()):
        model["types"][t] = dict(table(cls), cat=category(version, t, cls))
    for t, cls in sorted(mod.OBJ_MAP_OBSERVABLE.items()):
        model["types"][t] = dict(table(cls), cat="sco")
    for t, cls in sorted(mod.EXT_MAP.items()):
        model["extensions"][t] = table(cls)
    for t, cls in sorted(mod.common.OBJ_MAP_MARKING.items()):
        model["markings"][t] = table(cls)
    done = set()
    while set(embedded_names) - done:
        for n in sorted(set(embedded_names) - done):
            done.add(n)
            model["embedded"][n] = table(embedded_names[n])
    path = os.path.join(HOME, "stixmon", "spec", "v%s.json" % version.replace(".", ""))
    with open(path, "w") as f:
        json.dump(model, f, indent=1, sort_keys=False)
        f.write("\n")
    print(path, len(model["types"]), "types", len(model["extensions"]), "extensions", len(model["embedded"]), "embedded")
